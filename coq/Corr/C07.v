Require Import AT.Model.Base AT.Model.Rose AT.Model.Nav AT.Model.Resolver AT.Spec.ResolverSpec AT.Corr.Common.

(** observed result of get / glob: positions are shipped as labels *)
Inductive robs := RNode (n : id) | RNone | RList (l : list id) | RErr (e : exn).
Definition robs_eqb (a b : robs) : bool :=
  match a, b with
  | RNode x, RNode y => Nat.eqb x y
  | RNone, RNone => true
  | RList x, RList y => ids_eqb x y
  | RErr x, RErr y => exn_eqb x y
  | _, _ => false
  end.

(** (is_glob, root tree, str(pathattr) per label, start position, path text,
     separator, ignorecase, relax, observed) *)
Definition case07 := (bool * tree * list (id * str) * pos * str * str * bool * bool * robs)%type.
(** a round-trip case additionally carries the node the path was spelled for and
    the components it was spelled from (is_name, text) *)
Definition case07rt := (case07 * option (id * bool * list (bool * str)))%type.

Fixpoint contains (sep s : str) : bool :=
  match s with
  | [] => match sep with [] => true | _ => false end
  | _ :: r => starts_with sep s || contains sep r
  end.
(** the path syntax cannot spell the node: a name on the path is '', '.' or
    '..', or splitting the spelled text at the separator does not give the
    components back (a name contains the separator, the separator is a substring
    of '..', or a name's end together with the separator forms an earlier
    match), or a relative spelling starts with the separator *)
Definition collides (sep path : str) (isabs : bool) (comps : list (bool * str)) : bool :=
  existsb (fun c : bool * str =>
             fst c && (str_eqb (snd c) [] || str_eqb (snd c) [46]%N || str_eqb (snd c) [46; 46]%N)) comps
  || negb (list_eqb str_eqb (split sep path) ((if isabs then [[]] else []) ++ map snd comps))
  || (negb isabs && starts_with sep path).

Definition nm_of (l : list (id * str)) (n : id) : str := match assoc l n with Some s => s | None => [] end.

Definition model07 (c : case07) : robs :=
  let '(isglob, t, names, p, path, sep, ic, rx, _) := c in
  if isglob then
    match glob (nm_of names) ic rx sep t p path with
    | Ok l => RList (map (label_at t) l)
    | Err e => RErr e
    | OutOfFuel => RErr OtherError
    end
  else
    match get (nm_of names) ic rx sep t p path with
    | Ok (Some q) => RNode (label_at t q)
    | Ok None => RNone
    | Err e => RErr e
    | OutOfFuel => RErr OtherError
    end.

(** spec for get: the component-wise fold; relax = None exactly where strict raises *)
Definition spec07 (c : case07) : robs :=
  let '(isglob, t, names, p, path, sep, ic, rx, _) := c in
  let parts := split sep path in
  let res : pos + exn :=
    if starts_with sep path then
      match tl parts with
      | [] => inr OtherError
      | first :: rest =>
          match first with
          | [] => inr ResolverError
          | _ => if eq_name ic (nm_of names (label t)) first then follow_spec (nm_of names) ic t rest []
                 else inr ResolverError
          end
      end
    else follow_spec (nm_of names) ic t parts p in
  match res with
  | inl q => RNode (label_at t q)
  | inr e => if rx then RNone else RErr e
  end.

Definition c_obs07 (c : case07) : robs := let '(_, _, _, _, _, _, _, _, o) := c in o.
Definition is_glob_case (c : case07) : bool := let '(g, _, _, _, _, _, _, _, _) := c in g.

Definition corr_C07 (cs : list case07rt) : greport :=
  mk_greport (map (fun cr =>
    let c := fst cr in
    (robs_eqb (model07 c) (c_obs07 c),
     robs_eqb (spec07 c) (c_obs07 c)
     && match snd cr with Some (n, _, _) => robs_eqb (c_obs07 c) (RNode n) | None => true end,
     match snd cr with
     | Some (_, isabs, comps) => let '(_, _, _, _, path, sep, _, _, _) := c in negb (collides sep path isabs comps)
     | None => true
     end)) cs).
