Require Import AT.Model.Base AT.Model.Rose AT.Model.Iter AT.Spec.IterSpec AT.Corr.Common.
Require Import AT.Model.Heap AT.Model.Abs.
Local Open Scope Z_scope.

(** observed outputs of the five iterators: pre, post, level, groups, zigzag *)
Definition obs06 := (list id * list id * list id * list (list id) * list (list id))%type.
(** (subtree at the start node, filter set, stop set, maxlevel, observed (None = crashed or modified the tree)) *)
Definition case06 := (tree * option (list id) * option (list id) * option Z * option obs06)%type.

Definition groups_eqb := list_eqb ids_eqb.
Definition obs06_eqb (a b : obs06) : bool :=
  let '(a1, a2, a3, a4, a5) := a in let '(b1, b2, b3, b4, b5) := b in
  ids_eqb a1 b1 && ids_eqb a2 b2 && ids_eqb a3 b3 && groups_eqb a4 b4 && groups_eqb a5 b5.

Definition model06 (c : case06) : option obs06 :=
  let '(t, fs, ss, ml, _) := c in
  let f := pred_of fs true in let s := pred_of ss false in
  match LevelOrderIter f s ml t, LevelOrderGroupIter f s ml t, ZigZagGroupIter f s ml t with
  | Ok l, Ok g, Ok z => Some (PreOrderIter f s ml t, PostOrderIter f s ml t, l, g, z)
  | _, _, _ => None
  end.

Definition spec06 (c : case06) : option obs06 :=
  let '(t, fs, ss, ml, _) := c in
  let f := pred_of fs true in let s := pred_of ss false in
  Some (spec_pre f s ml t, spec_post f s ml t, spec_level f s ml t, spec_groups f s ml t, spec_zigzag f s ml t).

Definition corr_C06 (cs : list case06) : report :=
  mk_report (map (fun c => (option_eqb obs06_eqb (model06 c) (snd c) && negb (option_eqb obs06_eqb None (snd c)),
                            option_eqb obs06_eqb (spec06 c) (snd c))) cs).

(** C05: the unrestricted instance, compared with the structural orders *)
Definition spec05 (c : case06) : option obs06 :=
  let '(t, _, _, _, _) := c in
  Some (preorder t, postorder t, levelorder t, levels t, zigzag_spec false (levels t)).
Definition model05 (c : case06) : option obs06 :=
  let '(t, _, _, _, o) := c in model06 (t, None, None, None, o).
Definition nodup_b (l : list id) : bool :=
  (fix go (l : list id) : bool := match l with [] => true | x :: r => negb (mem r x) && go r end) l.
(** C05 also ties the abstraction function of Model/Abs.v to the code: the case
    carries the parent / children links read from the live objects of the
    start node's subtree (labels 0..n-1), and unfolding that link map below
    the start node must give back the tree whose iteration orders the five
    real iterators produced *)
Definition hcell05 := (option id * list id)%type.
Definition mk_heap05 (l : list hcell05) : heap :=
  map (fun c => {| cparent := fst c; cchildren := snd c |}) l.
Definition case05 := (case06 * option (list hcell05))%type.
Definition abs_agrees (c : case05) : bool :=
  let '((t, _, _, _, _), lk) := c in
  match lk with
  | None => true
  | Some l => tree_eqb (tree_of (mk_heap05 l) (label t)) t
  end.
(** spec on the observation: equal to the orders, and every output duplicate free *)
Definition corr_C05 (cs : list case05) : report :=
  mk_report (map (fun c5 => let c := fst c5 in
                           (option_eqb obs06_eqb (model05 c) (snd c) && negb (option_eqb obs06_eqb None (snd c))
                            && abs_agrees c5,
                            option_eqb obs06_eqb (spec05 c) (snd c)
                            && match snd c with
                               | Some (a1, a2, a3, a4, a5) => nodup_b a1 && nodup_b a2 && nodup_b a3
                                                              && nodup_b (concat a4) && nodup_b (concat a5)
                               | None => false end)) cs).
