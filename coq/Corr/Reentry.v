(** Correspondence driver for hooks that detach other nodes while the parent
    setter runs (C16, C01): implementation = Model/Reentry.v, and the
    observation satisfies the statement's clauses. *)
Require Import AT.Model.Base AT.Model.Heap AT.Model.Mutate AT.Model.Reentry AT.Spec.MutSpec AT.Corr.Common AT.Corr.Mut.

(** per hook kind of the moving node: the nodes that hook detaches *)
Definition acts_spec := list (hookkind * list id).
Definition acts_of (l : acts_spec) : nat -> hookkind -> id -> list id :=
  fun _ k _ => match find (fun kx => hookkind_eqb (fst kx) k) l with Some (_, xs) => xs | None => [] end.

(** (state before, node, new parent, hook actions, observed outcome, observed final state, observed log) *)
Definition case_re := (list hcell * id * option id * acts_spec * result unit * list hcell * list oevent)%type.

Definition model_re (c : case_re) : bool :=
  let '(h0, n, v, a, out, h1, l) := c in
  let '(r, s) := set_parent_r (acts_of a) n v (start (mk_heap h0)) in
  result_eqb unit_eqb r out && heap_eqb (heap_of s) (mk_heap h1) && log_eqb (log s) (mk_log l).

Definition last_is (l : list id) (n : id) : bool := match rev l with x :: _ => Nat.eqb x n | [] => false end.
Definition in_no_list (h : heap) (n : id) : bool := forallb (fun c => negb (mem (cchildren c) n)) h.
Definition ev_kind (e : event) : hookkind := match e with Ev k _ _ _ => k end.
(** what each hook of the moving node must observe *)
Definition observes_b (n : id) (e : event) : bool :=
  match e with
  | Ev k m [a] h =>
      Nat.eqb m n &&
      match k with
      | PreDetach => oid_eqb (parent h n) (Some a) && mem (children h a) n
      | PostDetach | PreAttach => oid_eqb (parent h n) None && in_no_list h n
      | PostAttach => oid_eqb (parent h n) (Some a) && last_is (children h a) n
      | _ => false
      end
  | _ => false
  end.
Definition kinds_expected (h0 : heap) (n : id) (v : option id) : list hookkind :=
  (match parent h0 n with Some _ => [PreDetach; PostDetach] | None => [] end) ++
  (match v with Some _ => [PreAttach; PostAttach] | None => [] end).
Definition is_nil {A} (l : list A) : bool := match l with [] => true | _ => false end.
Definition loops (h : heap) (n : id) (v : option id) : bool :=
  match v with
  | Some q => Nat.eqb q n || match path_rev (walk_fuel h) h q with Ok l => mem l n | _ => false end
  | None => false
  end.

Definition spec_re (c : case_re) : bool :=
  let '(h0, n, v, a, out, h1, l) := c in
  let H0 := mk_heap h0 in
  let H1 := mk_heap h1 in
  let lg := mk_log l in
  inv_b H1 &&
  (if oid_eqb (parent H0 n) v then
     result_eqb unit_eqb out (Ok tt) && heap_eqb H1 H0 && is_nil lg
   else if loops H0 n v then
     result_eqb unit_eqb out (Err LoopError) && heap_eqb H1 H0 && is_nil lg
   else
     result_eqb unit_eqb out (Ok tt) &&
     oid_eqb (parent H1 n) v &&
     (match v with Some q => last_is (children H1 q) n | None => true end) &&
     forallb (observes_b n) lg &&
     list_eqb hookkind_eqb (map ev_kind lg) (kinds_expected H0 n v)).

Definition corr_C16r (cs : list case_re) : report :=
  mk_report (map (fun c => (model_re c, spec_re c)) cs).
