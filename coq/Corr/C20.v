Require Import AT.Model.Base AT.Model.Symlink AT.Spec.SymlinkSpec AT.Corr.Common.

Definition aout_eqb (a b : aout) : bool :=
  match a, b with
  | OVal x, OVal y => Z.eqb x y
  | OErr x, OErr y => exn_eqb x y
  | ODone, ODone => true
  | _, _ => false
  end.
(** (attribute operations on objects numbered in creation order, observed outcome of each,
     the harness's structural checks passed) *)
Definition case20 := (list aop * list aout * bool)%type.

(** spec: every read returns the current value of the FINAL target's attribute
    (AttributeError if it lacks it); writes and constructor keywords are
    visible through the target, through every link to it, at any later time *)
Fixpoint spec_outs (s : objs) (ops : list aop) : list aout :=
  match ops with
  | [] => []
  | o :: r =>
      let s1 := snd (run_aop s o) in
      (match o with
       | AGet x k => match spec_get s x k with Ok v => OVal v | Err e => OErr e | OutOfFuel => OErr OtherError end
       | _ => ODone
       end) :: spec_outs s1 r
  end.
(** after every write through x, reading through x gives the written value *)
Fixpoint write_then_read (s : objs) (ops : list aop) : bool :=
  match ops with
  | [] => true
  | o :: r =>
      let s1 := snd (run_aop s o) in
      (match o with
       | ASet x k v => aout_eqb (fst (run_aop s1 (AGet x k))) (OVal v)
       | _ => true
       end) && write_then_read s1 r
  end.

Definition corr_C20 (cs : list case20) : report :=
  mk_report (map (fun c : case20 =>
    let '(ops, outs, ok) := c in
    (list_eqb aout_eqb (fst (run_aops [] ops)) outs,
     ok && list_eqb aout_eqb (spec_outs [] ops) outs && write_then_read [] ops)) cs).
