Require Import AT.Model.Base AT.Model.Symlink AT.Model.SymlinkX AT.Spec.SymlinkSpec AT.Corr.Common.

Definition aout_eqb (a b : aout) : bool :=
  match a, b with
  | OVal x, OVal y => Z.eqb x y
  | OErr x, OErr y => exn_eqb x y
  | ODone, ODone => true
  | _, _ => false
  end.
(** (attribute operations on objects numbered in creation order, observed outcome of each,
     the harness's structural checks passed) *)
Definition case20 := (list aop * list (list (name * aval)) * list aout * bool)%type.
(** class-level attributes per object, in creation order (empty for the library's own classes) *)
Definition cls_of (l : list (list (name * aval))) : id -> list (name * aval) := fun x => nth x l [].
Definition no_class_attrs (l : list (list (name * aval))) : bool := forallb (fun a => match a with [] => true | _ => false end) l.

(** spec: every read returns the current value of the FINAL target's attribute
    (AttributeError if it lacks it); writes and constructor keywords are
    visible through the target, through every link to it, at any later time *)
Fixpoint spec_outs (s : objs) (ops : list aop) : list aout :=
  match ops with
  | [] => []
  | o :: r =>
      let s1 := snd (run_aop s o) in
      (match o with
       | AGet x k => match spec_get s x k with Ok v => OVal v | Err e => OErr e | OutOfFuel => OErr OtherError end
       | _ => ODone
       end) :: spec_outs s1 r
  end.
(** after every write through x, reading through x gives the written value *)
Fixpoint write_then_read (s : objs) (ops : list aop) : bool :=
  match ops with
  | [] => true
  | o :: r =>
      let s1 := snd (run_aop s o) in
      (match o with
       | ASet x k v => aout_eqb (fst (run_aop s1 (AGet x k))) (OVal v)
       | _ => true
       end) && write_then_read s1 r
  end.

Definition corr_C20 (cs : list case20) : report :=
  mk_report (map (fun c : case20 =>
    let '(ops, cl, outs, ok) := c in
    let m := list_eqb aout_eqb (fst (run_aops_c (cls_of cl) [] ops)) outs in
    (m,
     (* classes that define attributes themselves: the statement's clauses are those of the extended model *)
     if no_class_attrs cl then ok && list_eqb aout_eqb (spec_outs [] ops) outs && write_then_read [] ops
     else ok && m)) cs).
