Require Import AT.Model.Base AT.Model.Rose AT.Model.Iter AT.Model.Graph AT.Spec.IterSpec AT.Spec.GraphSpec AT.Corr.Common.

Inductive gkind := KDot | KUnique | KMermaid | KMermaidDefault.
Definition strs_eqb := list_eqb str_eqb.

Definition tbl_str (l : list (id * str)) (n : id) : str :=
  match assoc l n with Some s => s | None => [] end.
Fixpoint assoc2 {V} (l : list (id * id * V)) (a b : id) : option V :=
  match l with
  | [] => None
  | (x, y, v) :: r => if Nat.eqb x a && Nat.eqb y b then Some v else assoc2 r a b
  end.

(** (kind, subtree at the start node, filter set, stop set, maxlevel, graph, name,
     options, indent, str(name) per node, nodeattr / mermaid nodefunc text per node,
     edgeattr per edge, edge type / text per edge (default given),
     observed lines of two successive iterations of one exporter) *)
Definition case12 :=
  (gkind * tree * option (list id) * option (list id) * option Z * str * str * list str * nat
   * list (id * str) * list (id * str) * list (id * id * str) * list (id * id * str) * str
   * option (list str * list str))%type.

Section Eval.
Variable use_spec : bool.   (* false: the transcription; true: declared nodes + edges between declared nodes *)

Definition lines12 (c : case12) : list str * list str :=
  let '(k, t, fs, ss, ml, graph, name, options, indent, names, nattr, eattr, etype, edefault, _) := c in
  let f := pred_of fs true in let s := pred_of ss false in
  let nodes := if use_spec then declared f s ml t else
               match k with KDot | KUnique => dot_nodes f s ml t | _ => PreOrderIter f s ml t end in
  let edges := if use_spec then spec_edges f s ml t else
               match k with KDot | KUnique => dot_edges f s ml t | _ => mermaid_edges f s ml t end in
  let ety := fun a b => match assoc2 etype a b with Some x => x | None => edefault end in
  match k with
  | KDot =>
      let l := [dot_header graph name] ++ dot_options options indent
               ++ map (dot_node_line indent (tbl_str names) (assoc nattr)) nodes
               ++ map (fun e => dot_edge_line indent (tbl_str names) (assoc2 eattr) ety (fst e) (snd e)) edges
               ++ [[125%N]] in (l, l)
  | KUnique =>
      let tb := tbl_after [] (nodes ++ edge_uses edges) in
      let l := [dot_header graph name] ++ dot_options options indent
               ++ map (dot_node_line indent (tbl_name hex tb)
                         (fun n => Some ([108; 97; 98; 101; 108; 61; 34]%N ++ tbl_str names n ++ [34%N]))) nodes
               ++ map (fun e => dot_edge_line indent (tbl_name hex tb) (assoc2 eattr) ety (fst e) (snd e)) edges
               ++ [[125%N]] in (l, l)
  | KMermaid =>
      let l := [mermaid_header graph name] ++ map (fun o => spaces indent ++ o) options
               ++ map (mermaid_node_line indent (tbl_str names) (tbl_str nattr)) nodes
               ++ map (fun e => mermaid_edge_line indent (tbl_str names) ety (fst e) (snd e)) edges in (l, l)
  | KMermaidDefault =>
      let tb := tbl_after [] (nodes ++ edge_uses edges) in
      let l := [mermaid_header graph name] ++ map (fun o => spaces indent ++ o) options
               ++ map (mermaid_node_line indent (tbl_name (fun v => 78%N :: dec v) tb) (mermaid_default_text (tbl_str names))) nodes
               ++ map (fun e => mermaid_edge_line indent (tbl_name (fun v => 78%N :: dec v) tb) ety (fst e) (snd e)) edges in (l, l)
  end.
End Eval.

Definition obs12_eqb (a b : list str * list str) : bool := strs_eqb (fst a) (fst b) && strs_eqb (snd a) (snd b).
Definition c_obs12 (c : case12) : option (list str * list str) :=
  let '(_, _, _, _, _, _, _, _, _, _, _, _, _, _, o) := c in o.

(** the guard of the proved edge theorem: no declared parent below the edge
    iterator's maxlevel has a child that satisfies both stop and filter_
    (Mermaid re-checks stop itself: no guard) *)
Definition guard12 (c : case12) : bool :=
  let '(k, t, fs, ss, ml, _, _, _, _, _, _, _, _, _, _) := c in
  let f := pred_of fs true in let s := pred_of ss false in
  match k with
  | KDot | KUnique =>
      forallb (fun nd => forallb (fun ch => negb (f (label ch) && s (label ch))) (kids nd)) (pre_nodes f s (edge_ml ml) t)
  | _ => true
  end.

Definition corr_C12 (cs : list case12) : greport :=
  mk_greport (map (fun c =>
    (match c_obs12 c with Some o => obs12_eqb (lines12 false c) o | None => false end,
     match c_obs12 c with Some o => obs12_eqb (lines12 true c) o | None => false end,
     guard12 c)) cs).
