Require Import AT.Model.Base AT.Model.Rose AT.Model.Render AT.Spec.RenderSpec AT.Corr.Common AT.Generated.Extracted.
Local Open Scope Z_scope.

Inductive citer9 := C9List | C9Reversed | C9DropFirst | C9DropLast | C9SortDesc.
Fixpoint insert_desc (t : tree) (l : list tree) : list tree :=
  match l with [] => [t] | x :: r => if Nat.leb (label x) (label t) then t :: l else x :: insert_desc t r end.
Definition run_citer9 (c : citer9) : list tree -> list tree :=
  match c with
  | C9List => fun l => l
  | C9Reversed => @rev tree
  | C9DropFirst => @tl tree
  | C9DropLast => @removelast tree
  | C9SortDesc => fun l => fold_right insert_desc [] l
  end.
Inductive style9 := SAscii | SCont | SContRound | SDouble | SCustom (v c e : str).
Definition style_strs (s : style9) : str * str * str :=
  match s with
  | SAscii => style_ascii | SCont => style_cont | SContRound => style_contround | SDouble => style_double
  | SCustom v c e => (v, c, e)
  end.

(** (tree at the start node, style, childiter, maxlevel, lines of each node's
     text as Python split them, observed rows, observed text) *)
Definition case09 := (tree * style9 * citer9 * option Z * list (id * list str)
                      * option (list (str * str * id) * str))%type.

Definition row_eqb (a b : row) : bool :=
  let '(p, f, n) := a in let '(p', f', n') := b in str_eqb p p' && str_eqb f f' && Nat.eqb n n'.
Definition rows_eqb := list_eqb row_eqb.
Definition lines_of (l : list (id * list str)) (n : id) : list str := match assoc l n with Some x => x | None => [] end.

Definition eval09 (use_spec : bool) (c : case09) : option (list row * str) :=
  let '(t, st, ci, ml, lines, _) := c in
  let '(v, co, e) := style_strs st in
  let rows :=
    if use_spec then Some (rows_spec v co e (rendered (run_citer9 ci) ml (S (theight t)) t 0))
    else match render_rows (run_citer9 ci) v co e ml t with Ok r => Some r | _ => None end in
  match rows with
  | Some r => Some (r, render_text r (lines_of lines))
  | None => None
  end.
Definition obs09_eqb (a b : option (list row * str)) : bool :=
  match a, b with
  | Some (r, s), Some (r', s') => rows_eqb r r' && str_eqb s s'
  | _, _ => false
  end.
Definition corr_C09 (cs : list case09) : report :=
  mk_report (map (fun c => (obs09_eqb (eval09 false c) (snd c), obs09_eqb (eval09 true c) (snd c))) cs).

(** reprs: (is_node, classname, separator, names along the path, instance dict as (key, repr(value)), observed repr) *)
Definition case09r := (bool * str * str * list str * list (str * str) * str)%type.
Definition corr_C09r (cs : list case09r) : report :=
  mk_report (map (fun c : case09r =>
                    let '(isnode, cn, sep, names, items, o) := c in
                    let m := if (isnode : bool) then node_repr cn sep names items else anynode_repr cn items in
                    (str_eqb m o, str_eqb m o)) cs).

Definition case09all := (case09 + case09r)%type.
Definition corr_C09all (cs : list case09all) : report :=
  mk_report (map (fun c : case09all =>
    match c with
    | inl c1 => (obs09_eqb (eval09 false c1) (snd c1), obs09_eqb (eval09 true c1) (snd c1))
    | inr c2 =>
        let '(isnode, cn, sep, names, items, o) := c2 in
        let m := if (isnode : bool) then node_repr cn sep names items else anynode_repr cn items in
        (str_eqb m o, str_eqb m o)
    end) cs).
