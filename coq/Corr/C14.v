Require Import AT.Model.Base AT.Model.Rose AT.Model.Iter AT.Model.Search.
Require Import AT.Spec.IterSpec AT.Spec.SearchSpec AT.Corr.Common.
Local Open Scope Z_scope.

Inductive fn14 := FindAll | Find | FindAllByAttr | FindByAttr.

(** (function, cachedsearch?, subtree at the start node, filter set, stop set,
    maxlevel, mincount, maxcount, attribute values, searched value, observed) *)
Definition case14 :=
  (fn14 * bool * tree * option (list id) * option (list id) * option Z * option Z * option Z
   * list (id * Z) * Z * result (list id))%type.

Definition opt_to_list (r : result (option id)) : result (list id) :=
  x <- r ;; Ok (match x with Some n => [n] | None => [] end).

Definition model14 (c : case14) : result (list id) :=
  let '(fn, cached, t, fs, ss, ml, lo, hi, attrs, value, _) := c in
  let f := pred_of fs true in let s := pred_of ss false in
  match fn, cached with
  | FindAll, false => findall f s ml lo hi t
  | FindAll, true => cached_findall f s ml lo hi t
  | Find, false => opt_to_list (find f s ml t)
  | Find, true => opt_to_list (cached_find f s ml t)
  | FindAllByAttr, false => findall_by_attr Z Z.eqb (assoc attrs) value ml lo hi t
  | FindAllByAttr, true => cached_findall_by_attr Z Z.eqb (assoc attrs) value ml lo hi t
  | FindByAttr, false => opt_to_list (find_by_attr Z Z.eqb (assoc attrs) value ml t)
  | FindByAttr, true => opt_to_list (cached_find_by_attr Z Z.eqb (assoc attrs) value ml t)
  end.

Definition spec14 (c : case14) : result (list id) :=
  let '(fn, cached, t, fs, ss, ml, lo, hi, attrs, value, _) := c in
  let f := pred_of fs true in let s := pred_of ss false in
  let fa := has_attr_value Z.eqb (assoc attrs) value in
  match fn with
  | FindAll => spec_findall f s ml lo hi t
  | Find => opt_to_list (spec_find f s ml t)
  | FindAllByAttr => spec_findall fa (fun _ => false) ml lo hi t
  | FindByAttr => opt_to_list (spec_find fa (fun _ => false) ml t)
  end.

Definition obs14 (c : case14) : result (list id) := snd c.

Definition corr_C14 (cs : list case14) : report :=
  mk_report (map (fun c => (result_eqb ids_eqb (model14 c) (obs14 c),
                            result_eqb ids_eqb (spec14 c) (obs14 c))) cs).
