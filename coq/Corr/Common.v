(** Helpers shared by the correspondence drivers.  A driver evaluates, inside
    Coq, the Model and the Spec on each case and compares both with what the
    implementation was observed to do; it returns the number of cases and the
    indices of the disagreeing ones. *)
Require Import AT.Model.Base AT.Model.Rose.

Definition pred_of (o : option (list id)) (default : bool) : id -> bool :=
  match o with Some l => mem l | None => fun _ => default end.

Fixpoint assoc {V} (l : list (id * V)) (n : id) : option V :=
  match l with
  | [] => None
  | (k, v) :: r => if Nat.eqb k n then Some v else assoc r n
  end.

(** report = (number of cases, indices where impl <> model, indices where impl <> spec) *)
Definition report := (nat * list nat * list nat)%type.
Definition mk_report (rs : list (bool * bool)) : report :=
  (length rs, bad_idx (map fst rs), bad_idx (map snd rs)).

(** report with a known-finding guard: additionally the indices of the cases
    outside the guard (where the full statement is not claimed) *)
Definition greport := (nat * list nat * list nat * list nat)%type.
Definition mk_greport (rs : list (bool * bool * bool)) : greport :=
  (length rs, bad_idx (map (fun x => fst (fst x)) rs), bad_idx (map (fun x => snd (fst x)) rs),
   bad_idx (map snd rs)).
