(** Correspondence drivers of the mutation core (C01, C02, C03, C16, C18). *)
Require Import AT.Model.Base AT.Model.Heap AT.Model.Mutate AT.Spec.MutSpec AT.Proofs.MutReplay AT.Corr.Common.

Definition hcell := (option id * list id)%type.
Definition mk_heap (l : list hcell) : heap :=
  map (fun c => {| cparent := fst c; cchildren := snd c |}) l.

(** fault specification: invocation indices that raise, and (kind, node)
    pairs that raise at every invocation (a persistent veto) *)
Definition fault_spec := (list nat * list (hookkind * id))%type.
Definition faults_of (fs : fault_spec) : nat -> hookkind -> id -> bool :=
  fun i k n => mem (fst fs) i || existsb (fun kn => hookkind_eqb (fst kn) k && Nat.eqb (snd kn) n) (snd fs).

Definition oevent := (hookkind * id * list id * list hcell)%type.
Definition mk_log (l : list oevent) : list event :=
  map (fun e => let '(k, n, args, s) := e in Ev k n args (mk_heap s)) l.

(** (typed, assertions, state before, call, faults,
     observed outcome, observed final state, observed hook log if recorded) *)
Definition case_mut :=
  (bool * bool * list hcell * op * fault_spec * result unit * list hcell * option (list oevent))%type.

Definition run_model (c : case_mut) : result unit * st :=
  let '(typed, asrt, h0, o, fs, _, _, _) := c in
  run_op typed asrt (faults_of fs) reentry_fuel o (start (mk_heap h0)).

Definition unit_eqb (a b : unit) := true.
Definition is_recursion (r : result unit) : bool :=
  match r with Err RecursionError => true | _ => false end.
Definition c_h0 (c : case_mut) : heap := let '(_, _, h0, _, _, _, _, _) := c in mk_heap h0.
Definition c_op (c : case_mut) : op := let '(_, _, _, o, _, _, _, _) := c in o.
Definition c_typed (c : case_mut) : bool := let '(t, _, _, _, _, _, _, _) := c in t.
Definition c_faults (c : case_mut) : fault_spec := let '(_, _, _, _, fs, _, _, _) := c in fs.
Definition c_out (c : case_mut) : result unit := let '(_, _, _, _, _, r, _, _) := c in r.
Definition c_h1 (c : case_mut) : heap := let '(_, _, _, _, _, _, h1, _) := c in mk_heap h1.
Definition c_log (c : case_mut) : option (list event) :=
  let '(_, _, _, _, _, _, _, l) := c in match l with Some l => Some (mk_log l) | None => None end.

(** the interpreter's recursion limit decides where an unbounded
    children-setter re-entrancy stops; the final state is independent of it
    only when every nested level is a no-op (persistent _pre_attach_children) *)
Definition stable_recursion (fs : fault_spec) : bool :=
  forallb (fun kn => hookkind_eqb (fst kn) PreAttachChildren) (snd fs).

(** a node whose constructor raised before it was linked anywhere is
    unreachable for the harness: the observed universe then lacks that
    (necessarily isolated) last cell *)
Definition pad_to (h : heap) (len : nat) : heap := h ++ repeat empty_cell (len - length h).
Definition heap_eqb_pad (model observed : heap) : bool := heap_eqb model (pad_to observed (length model)).

(** implementation = model on outcome and final state (and log if recorded) *)
Definition model_agrees (c : case_mut) : bool :=
  let '(r, s) := run_model c in
  result_eqb unit_eqb r (c_out c)
  && (if is_recursion r then
        (if stable_recursion (c_faults c) then heap_eqb_pad (heap_of s) (c_h1 c) else true)
      else heap_eqb_pad (heap_of s) (c_h1 c)
           && match c_log c with Some l => log_eqb (log s) l | None => true end).

(** C01: the observed state is a consistent forest, and no assertion fired *)
Definition spec01 (c : case_mut) : bool :=
  inv_b (c_h1 c) && negb (result_eqb unit_eqb (c_out c) (Err AssertionError)).
Definition corr_C01 (cs : list case_mut) : report :=
  mk_report (map (fun c => (model_agrees c, spec01 c)) cs).

(** C02 (fault-free calls): outcome and final state are the specified ones *)
Definition spec_run (typed : bool) (h : heap) (o : op) : result unit * heap :=
  match o with
  | Construct p c =>
      let '(h1, n) := alloc h in
      match must_refuse typed h1 (SetParent n p) with
      | Some e => (Err e, h1)
      | None =>
          let h2 := expected_heap typed h1 (SetParent n p) in
          if truthy c then
            match c with
            | Some a =>
                match must_refuse typed h2 (SetChildren n a) with
                | Some e => (Err e, h2)
                | None => (Ok tt, expected_heap typed h2 (SetChildren n a))
                end
            | None => (Ok tt, h2)
            end
          else (Ok tt, h2)
      end
  | _ => (match must_refuse typed h o with Some e => Err e | None => Ok tt end, expected_heap typed h o)
  end.
Definition spec02 (c : case_mut) : bool :=
  let '(r, h) := spec_run (c_typed c) (c_h0 c) (c_op c) in
  result_eqb unit_eqb r (c_out c)
  && match r with Ok _ => heap_eqb_pad h (c_h1 c) | _ => true end.   (* a refused call's state is C03's subject *)
Definition corr_C02 (cs : list case_mut) : report :=
  mk_report (map (fun c => (model_agrees c, spec02 c)) cs).

(** C03: a refusal or a pre-hook veto leaves every link as it was.  Which hook
    raised is read from the model's log (the model agrees with the
    implementation on the outcome [HookExn i]). *)
Definition kind_of_invocation (l : list event) (i : nat) : option hookkind :=
  match nth_error l i with Some (Ev k _ _ _) => Some k | None => None end.
Definition is_veto_outcome (c : case_mut) : bool :=
  match c_out c with
  | Err TreeError | Err LoopError | Err TypeError => true
  | Err AttributeError =>
      (* LightNodeMixin's refusal of a parent that is not a node *)
      match c_op c with SetParent _ _ => true | _ => false end
  | Err (HookExn i) =>
      match kind_of_invocation (log (snd (run_model c))) i with Some k => is_pre k | None => false end
  | Err RecursionError =>
      (* the unbounded re-entrancy caused by a persistently vetoing pre hook *)
      negb (Nat.eqb (length (snd (c_faults c))) 0) && forallb (fun kn => is_pre (fst kn)) (snd (c_faults c))
      && Nat.eqb (length (fst (c_faults c))) 0
  | _ => false
  end.
Definition spec03 (c : case_mut) : bool :=
  match c_op c with
  | Construct _ _ => true     (* C03 speaks of the three assignments, not of constructors *)
  | _ => if is_veto_outcome c then heap_eqb (c_h0 c) (c_h1 c) else true
  end.

(** the guard of the proved atomicity theorems (see Properties/C03.v):
    - parent assignment: refusal, _pre_detach veto, or _pre_attach veto of a
      node that had no parent;
    - children deletion / the deletion phase of an assignment: the
      _pre_detach_children veto or the first child's _pre_detach veto;
    - children assignment: refusals detected before anything is changed. *)
Definition guard03 (c : case_mut) : bool :=
  match c_op c, c_out c with
  | SetParent n _, Err (HookExn i) =>
      match kind_of_invocation (log (snd (run_model c))) i with
      | Some PreDetach => true
      | Some PreAttach => match parent (c_h0 c) n with None => true | Some _ => false end
      | _ => true
      end
  | SetParent _ _, _ => true
  | DelChildren _, Err (HookExn i) => Nat.leb i 1
  | DelChildren _, _ => true
  | SetChildren n a, Err TypeError => true
  | SetChildren n (CList xs), Err TreeError => (c_typed c && has_non_node xs) || has_dup [] xs
  | SetChildren n _, Err (HookExn i) => Nat.leb i 1 && negb (mem (fst (c_faults c)) 2) &&
      match kind_of_invocation (log (snd (run_model c))) i with
      | Some PreDetachChildren => true
      | Some PreDetach => true
      | _ => false
      end
  | SetChildren _ _, Err _ => false
  | _, _ => true
  end.
Definition corr_C03 (cs : list case_mut) : greport :=
  mk_greport (map (fun c => (model_agrees c, spec03 c, guard03 c)) cs).

(** C16: the observed log of a fault-free call is the specified one; a post
    hook fault of a parent assignment leaves the step done *)
(** every link change is accounted for by the log: replaying the post hooks
    from the initial state gives the observed final state (any call, any faults) *)
Definition replay_ok (c : case_mut) : bool :=
  match c_log c with
  | None => true
  | Some l => heap_eqb_pad (replay (initial_of (c_op c) (c_h0 c)) l) (c_h1 c)
  end.
Definition spec16 (c : case_mut) : bool :=
  replay_ok c &&
  match c_log c with
  | None => false
  | Some l =>
      match c_faults c with
      | ([], []) =>
          match c_op c with
          | Construct _ _ => true
          | SetChildren _ _ as o =>
              (* a LoopError is found while attaching, after hooks have fired and before the
                 rollback fires more: the statement promises no particular log there *)
              match must_refuse (c_typed c) (c_h0 c) o with
              | Some LoopError => true
              | _ => log_eqb l (expected_log (c_typed c) (c_h0 c) o)
              end
          | o => log_eqb l (expected_log (c_typed c) (c_h0 c) o)
          end
      | ([i], []) =>
          match c_op c, c_out c, nth_error l i with
          | SetParent n v, Err (HookExn j), Some (Ev PostDetach _ _ _) =>
              Nat.eqb i j && heap_eqb (c_h1 c) (eff_set_parent (c_h0 c) n None)
          | SetParent n v, Err (HookExn j), Some (Ev PostAttach _ _ _) =>
              Nat.eqb i j &&
              heap_eqb (c_h1 c) (eff_set_parent (c_h0 c) n (match v with VNode p => Some p | _ => None end))
          | _, _, _ => true
          end
      | _ => true
      end
  end.
Definition corr_C16 (cs : list case_mut) : report :=
  mk_report (map (fun c => (model_agrees c, spec16 c)) cs).

(** C18: the same case observed on a LightNodeMixin class and on a NodeMixin
    class: both equal the model (run with the respective [typed] flag) and
    each other *)
Definition case18 := (case_mut * (result unit * list hcell * option (list oevent)))%type.
Definition light_of (c : case18) : case_mut :=
  let '((_, asrt, h0, o, fs, _, _, _), (r, h1, l)) := c in (false, asrt, h0, o, fs, r, h1, l).
Definition same_obs (c : case18) : bool :=
  let a := fst c in let b := light_of c in
  result_eqb unit_eqb (c_out a) (c_out b)
  && (if is_recursion (c_out a) then
        (* where an unbounded re-entrancy is cut off depends on the interpreter's stack depth, which a
           refactoring of one class changes: only the outcome class (and the state, when every nested
           level is a no-op) is compared - the same rule as in [model_agrees] *)
        (if stable_recursion (c_faults a) then heap_eqb (c_h1 a) (c_h1 b) else true)
      else
        heap_eqb (c_h1 a) (c_h1 b)
        && match c_log a, c_log b with
           | Some x, Some y => log_eqb x y
           | None, None => true
           | _, _ => false
           end).
Definition corr_C18 (cs : list case18) : report :=
  mk_report (map (fun c => (model_agrees (fst c) && model_agrees (light_of c), same_obs c)) cs).
