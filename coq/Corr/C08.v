Require Import AT.Model.Base AT.Model.Rose AT.Model.Nav AT.Model.Resolver AT.Spec.ResolverSpec AT.Corr.Common AT.Corr.C07.

Definition pos_in (l : list pos) (p : pos) : bool := existsb (pos_eqb p) l.
Definition same_set (a b : list pos) : bool := forallb (pos_in b) a && forallb (pos_in a) b.
Fixpoint nodup_pos (l : list pos) : bool :=
  match l with [] => true | x :: r => negb (pos_in r x) && nodup_pos r end.

Definition is_special (c : str) : bool :=
  str_eqb c s_dotdot || str_eqb c [] || str_eqb c s_dot || str_eqb c s_starstar.
Definition has_wild (c : str) : bool := existsb (fun x => N.eqb x 42 || N.eqb x 63) c.
(** no '..' follows a name or wildcard component *)
Fixpoint no_up_after_name (comps : list str) (seen_name : bool) : bool :=
  match comps with
  | [] => true
  | c :: r => if str_eqb c s_dotdot then negb seen_name && no_up_after_name r seen_name
              else no_up_after_name r (seen_name || negb (is_special c) || str_eqb c s_starstar)
  end.
(** the known-finding class KF-C08-1: a wildcard component, later a '**', later a '..' *)
Fixpoint after_starstar_up (comps : list str) : bool :=
  match comps with [] => false | c :: r => str_eqb c s_dotdot || after_starstar_up r end.
Fixpoint after_wild_starstar_up (comps : list str) : bool :=
  match comps with [] => false | c :: r => (str_eqb c s_starstar && after_starstar_up r) || after_wild_starstar_up r end.
Fixpoint wild_starstar_up (comps : list str) : bool :=
  match comps with
  | [] => false
  | c :: r => (negb (is_special c) && has_wild c && after_wild_starstar_up r) || wild_starstar_up r
  end.

(** positions observed: the harness ships positions (as labels they would be ambiguous for sets) *)
Inductive gobs := GList (l : list pos) | GErr (e : exn).
(** (root tree, names, start, path, separator, ignorecase, relax, observed glob result,
     observed get result on the same path (for the agreement clause)) *)
Definition case08 := (tree * list (id * str) * pos * str * str * bool * bool * gobs * gobs)%type.

Definition pl_eqb := list_eqb pos_eqb.
Definition gobs_eqb (a b : gobs) : bool :=
  match a, b with
  | GList x, GList y => pl_eqb x y
  | GErr x, GErr y => exn_eqb x y
  | _, _ => false
  end.
Definition to_gobs (r : result (list pos)) : gobs :=
  match r with Ok l => GList l | Err e => GErr e | OutOfFuel => GErr OtherError end.

Definition comps_of (sep path : str) : list str * bool :=
  let parts := split sep path in
  if starts_with sep path then (tl (tl parts), true) else (parts, false).

Definition model08 (c : case08) : gobs :=
  let '(t, names, p, path, sep, ic, rx, _, _) := c in to_gobs (glob (nm_of names) ic rx sep t p path).

(** all positions of the tree in pre-order *)
Definition all_pre (t : tree) : list pos := pre_positions t [].

(** no two children of one node have names that compare equal (the hypothesis of the
    get-agreement clause and of C08_strict_agrees_with_get) *)
Fixpoint distinct_names (ic : bool) (l : list str) : bool :=
  match l with
  | [] => true
  | x :: r => negb (existsb (fun y => eq_name ic x y) r) && distinct_names ic r
  end.
Fixpoint sibling_unique_b (nm : id -> str) (ic : bool) (t : tree) : bool :=
  match t with
  | T _ cs =>
      distinct_names ic (map (fun c => nm (label c)) cs)
      && (fix all (l : list tree) : bool := match l with [] => true | c :: r => sibling_unique_b nm ic c && all r end) cs
  end.

Definition spec08 (c : case08) : bool :=
  let '(t, names, p, path, sep, ic, rx, o, og) := c in
  let nm := nm_of names in
  let '(comps, absolute) := comps_of sep path in
  (* where the component list is interpreted from, or nothing when the root component does not match *)
  let start : option pos :=
    if absolute then
      match tl (split sep path) with
      | first :: _ => match first with [] => None | _ => if wild_b ic first (nm (label t)) then Some [] else None end
      | [] => None
      end
    else Some p in
  let d := match start with Some q => den nm ic t comps q | None => [] end in
  let relaxed_model := to_gobs (glob nm ic true sep t p path) in
  if rx then
    match o with
    | GList l =>
        same_set l d
        && (if no_up_after_name comps false then nodup_pos l else true)
        && (if existsb (fun c => str_eqb c s_dotdot || str_eqb c s_starstar) comps then true
            else pl_eqb l (filter (pos_in l) (all_pre t)))
    | GErr _ => false                       (* relaxed mode never raises *)
    end
  else
    match o with
    | GList l => gobs_eqb (GList l) relaxed_model      (* the same list as relaxed mode *)
    | GErr e => match e with ResolverError | RootResolverError | ChildResolverError => true | _ => false end
    end
    && (* wildcard-free: agrees with get (same node first, same error class) *)
       (if existsb has_wild (split sep path) || negb (sibling_unique_b nm ic t) then true
        else match o, og with
             | GList [x], GList [y] => pos_eqb x y
             | GErr e, GErr e' => exn_eqb e e'
             | GList (x :: _), GList [y] => pos_eqb x y
             | GList [], GList [] => true
             | _, _ => false
             end).

Definition guard08 (c : case08) : bool :=
  let '(t, names, p, path, sep, ic, rx, o, og) := c in
  rx || negb (wild_starstar_up (fst (comps_of sep path))).

Definition c_obs08 (c : case08) : gobs := let '(_, _, _, _, _, _, _, o, _) := c in o.
Definition corr_C08 (cs : list case08) : greport :=
  mk_greport (map (fun c => (gobs_eqb (model08 c) (c_obs08 c), spec08 c, guard08 c)) cs).
