Require Import AT.Model.Base AT.Model.DictIO AT.Spec.DictSpec AT.Proofs.DictProofs AT.Proofs.DictIters AT.Corr.Common.
Local Open Scope Z_scope.

Inductive aiter := AIdentity | ASort | ADropK0 | ALast.
Inductive citer := CListK | CReversed | CDropLast.
Inductive ncls := NAny | NNode.

Definition k0 : key := [107; 48]%N.
Definition run_aiter (a : aiter) : items -> items :=
  match a with
  | AIdentity => fun l => l
  | ASort => sort_items
  | ADropK0 => filter (fun kv => negb (str_eqb (fst kv) k0))
  | ALast => fun l => match rev l with x :: _ => [x] | [] => [] end      (* list(attrs)[-1:] *)
  end.
Definition run_citer (c : citer) : list itree -> list itree :=
  match c with CListK => fun l => l | CReversed => @rev itree | CDropLast => @removelast itree end.
Definition run_ctor (n : ncls) : items -> items := match n with NAny => ctor_any | NNode => ctor_node end.

Fixpoint canon_d (d : dtree) : dtree :=
  match d with
  | D data cs => D (sort_items data) (match cs with Some l => Some (map canon_d l) | None => None end)
  end.
(** the attributes and shape an imported dictionary must produce *)
Fixpoint shape_of (d : dtree) : itree :=
  match d with D data cs => I data (match cs with Some l => map shape_of l | None => [] end) end.

Inductive case10 :=
(** a tree (real __dict__ stores), attriter, childiter, exporter maxlevel, JsonExporter maxlevel
    (None for the plain dict exporter), node class of the importer;
    observed: export(t), import(export(t)), export(import(export(t))); the Python-side checks passed *)
| CaseT (t : itree) (a : aiter) (c : citer) (ml jml : option Z) (n : ncls) (via_json : bool)
        (obs : option (dtree * itree * dtree)) (py_ok : bool)
(** an arbitrary dictionary: observed import(d), export(import(d)) *)
| CaseD (d : dtree) (n : ncls) (obs : option (itree * dtree)) (py_ok : bool).

Definition ok_d (r : result dtree) (o : dtree) : bool := match r with Ok d => dtree_eqb d o | _ => false end.

Definition model10 (c : case10) : bool :=
  match c with
  | CaseT t a ci ml jml n vj (Some (d, t2, d3)) _ =>
      let eml := json_effective_maxlevel ml jml in
      (* a JSON object is an unordered map (sort_keys may reorder it): compare up to key order *)
      (if vj then match export (run_aiter a) (run_citer ci) eml t with
                  | Ok dm => dtree_eqb (canon_d dm) (canon_d d) | _ => false end
       else ok_d (export (run_aiter a) (run_citer ci) eml t) d)
      && itree_eqb (import_ (run_ctor n) d) t2
      && ok_d (export (fun l => l) (fun l => l) None t2) d3
  | CaseD d n (Some (t, d2)) _ =>
      itree_eqb (import_ (run_ctor n) d) t && ok_d (export (fun l => l) (fun l => l) None t) d2
  | _ => false
  end.

Definition spec10 (c : case10) : bool :=
  match c with
  | CaseT t a ci ml jml n vj (Some (d, t2, d3)) py =>
      let eml := json_effective_maxlevel ml jml in
      py &&
      dtree_eqb d (strip d) &&                                      (* 'children' only when non-empty *)
      (let e := to_dtree (exported (run_aiter a) (run_citer ci) eml (S (iheight t)) 1 t) in
       if vj then dtree_eqb (canon_d d) (canon_d e) else dtree_eqb d e) &&   (* iterators honoured at every level *)
      match a, ci with
      | AIdentity, CListK =>
          (if vj then dtree_eqb (canon_d d) (canon_d (to_dtree (cut eml 1 t))) else dtree_eqb d (to_dtree (cut eml 1 t)))                       (* export: structural, children iff non-empty *)
          && itree_eqb (canon t2) (canon (cut eml 1 t))             (* import(export(t)) isomorphic to t (cut) *)
      | _, _ => true
      end
      && dtree_eqb (canon_d d3) (canon_d (strip d))                 (* export(import(d)) = d up to empty children *)
      && itree_eqb (canon t2) (canon (shape_of d))
  | CaseD d n (Some (t, d2)) py =>
      py && itree_eqb (canon t) (canon (shape_of d)) && dtree_eqb (canon_d d2) (canon_d (strip d))
  | _ => false
  end.

Definition corr_C10 (cs : list case10) : report :=
  mk_report (map (fun c => (model10 c, spec10 c)) cs).
