Require Import AT.Model.Base AT.Model.Rose AT.Model.Iter AT.Model.Nav AT.Spec.IterSpec AT.Spec.NavSpec AT.Corr.Common.

(** observed: path, ancestors, root, depth, is_root, is_leaf, siblings,
    descendants, leaves, size, height, commonancestors(cps), leftsibling, rightsibling *)
Definition obs04 := (list id * list id * id * nat * bool * bool * list id * list id * list id * nat * nat
                     * list id * option id * option id)%type.
(** (root tree, position of the node, positions given to commonancestors, observed) *)
Definition case04 := (tree * pos * list pos * option obs04)%type.

Definition oid_eqb := option_eqb Nat.eqb.
Definition obs04_eqb (a b : obs04) : bool :=
  let '(a1, a2, a3, a4, a5, a6, a7, a8, a9, a10, a11, a12, a13, a14) := a in
  let '(b1, b2, b3, b4, b5, b6, b7, b8, b9, b10, b11, b12, b13, b14) := b in
  ids_eqb a1 b1 && ids_eqb a2 b2 && Nat.eqb a3 b3 && Nat.eqb a4 b4 && Bool.eqb a5 b5 && Bool.eqb a6 b6
  && ids_eqb a7 b7 && ids_eqb a8 b8 && ids_eqb a9 b9 && Nat.eqb a10 b10 && Nat.eqb a11 b11
  && ids_eqb a12 b12 && oid_eqb a13 b13 && oid_eqb a14 b14.

Definition model04 (c : case04) : option obs04 :=
  let '(t, p, cps, _) := c in
  let s := sub t p in
  match path t p, ancestors t p, root t p, depth p, commonancestors t cps with
  | Ok pa, Ok an, Ok ro, Ok de, Ok co =>
      Some (pa, an, ro, de, is_root p, is_leaf_t s, siblings t p, descendants s, leaves s, size s, height s,
            co, leftsibling t p, rightsibling t p)
  | _, _, _, _, _ => None
  end.

Definition spec04 (c : case04) : option obs04 :=
  let '(t, p, cps, _) := c in
  let s := sub t p in
  Some (path_spec t p, ancestors_spec t p, root_spec t p, depth_spec p,
        match p with [] => true | _ => false end, match kids s with [] => true | _ => false end,
        siblings_spec t p, descendants_spec s, leaves_spec s, size_spec s, height_spec s,
        commonancestors_spec t cps, leftsibling_spec t p, rightsibling_spec t p).

Definition corr_C04 (cs : list case04) : report :=
  mk_report (map (fun c => (option_eqb obs04_eqb (model04 c) (snd c) && negb (option_eqb obs04_eqb None (snd c)),
                            option_eqb obs04_eqb (spec04 c) (snd c))) cs).

(** C15: (forest, start = (tree index, position), end, observed walk or WalkError) *)
Definition obs15 := result (list id * id * list id).
Definition case15 := (list tree * (nat * pos) * (nat * pos) * obs15)%type.
Definition walk_eqb (a b : list id * id * list id) : bool :=
  let '(u, c, d) := a in let '(u', c', d') := b in ids_eqb u u' && Nat.eqb c c' && ids_eqb d d'.
Definition model15 (c : case15) : obs15 := let '(ts, a, b, _) := c in walk ts a b.
Definition spec15 (c : case15) : obs15 :=
  let '(ts, a, b, _) := c in
  if Nat.eqb (fst a) (fst b) then Ok (walk_spec (nth (fst a) ts (T 0 [])) (snd a) (snd b)) else Err WalkError.
(** spec on the observation itself: up + (common,) + down is a simple path
    from start to end whose consecutive nodes are parent and child *)
Definition corr_C15 (cs : list case15) : report :=
  mk_report (map (fun c => (result_eqb walk_eqb (model15 c) (snd c), result_eqb walk_eqb (spec15 c) (snd c))) cs).
