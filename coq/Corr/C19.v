Require Import AT.Model.Base AT.Model.Heap AT.Model.Pickle AT.Spec.MutSpec AT.Corr.Common AT.Corr.Mut.

(** a node of the observed graphs: (parent, children, symlink target, class tag, attribute tokens) *)
Definition pcell := (option id * list id * option id * nat * list (list N * Z))%type.
Definition p_heap (l : list pcell) : heap := map (fun c => let '(p, cs, _, _, _) := c in {| cparent := p; cchildren := cs |}) l.
Definition p_targets (l : list pcell) : targets := map (fun c => let '(_, _, t, _, _) := c in t) l.
Definition p_tag (l : list pcell) (n : id) : nat := match nth_error l n with Some (_, _, _, k, _) => k | None => 0 end.
Definition p_attrs (l : list pcell) (n : id) : list (list N * Z) := match nth_error l n with Some (_, _, _, _, a) => a | None => [] end.

(** (original universe, entry node, copy universe, entry of the copy,
     renaming original -> copy for the nodes the copy contains, Python-side checks passed) *)
Definition case19 := (list pcell * id * list pcell * id * list (id * id) * bool)%type.

Definition rho (r : list (id * id)) (n : id) : option id := assoc r n.
Definition attrs_eqb := list_eqb (fun a b : list N * Z => str_eqb (fst a) (fst b) && Z.eqb (snd a) (snd b)).
Definition omap_rho (r : list (id * id)) (o : option id) : option (option id) :=
  match o with None => Some None | Some x => match rho r x with Some y => Some (Some y) | None => None end end.
Fixpoint lmap_rho (r : list (id * id)) (l : list id) : option (list id) :=
  match l with
  | [] => Some []
  | x :: t => match rho r x, lmap_rho r t with Some y, Some t' => Some (y :: t') | _, _ => None end
  end.
Definition same_ids (a b : list id) : bool := forallb (mem b) a && forallb (mem a) b.
Definition oo_eqb (a : option (option id)) (b : option id) : bool :=
  match a with Some x => option_eqb Nat.eqb x b | None => false end.
Definition ol_eqb (a : option (list id)) (b : list id) : bool :=
  match a with Some x => ids_eqb x b | None => false end.

Definition spec19 (c : case19) : bool :=
  let '(orig, e, copy, e', r, py) := c in
  let h := p_heap orig in let tg := p_targets orig in
  let h' := p_heap copy in let tg' := p_targets copy in
  let dom := map fst r in let img := map snd r in
  py
  (* the copy contains exactly the object graph reachable from the entry node (the whole tree, targets' trees) *)
  && same_ids dom (reach_list h tg e)
  (* the renaming is injective and onto the copy universe: nothing shared, nothing extra *)
  && nodup_ids img && same_ids img (seq 0 (length copy))
  (* the result occupies the entry's position *)
  && option_eqb Nat.eqb (rho r e) (Some e')
  (* same shape, child order, classes, attributes; symlink targets point at the corresponding copies *)
  && forallb (fun nn : id * id => let '(n, n') := nn in
        oo_eqb (omap_rho r (parent h n)) (parent h' n')
        && ol_eqb (lmap_rho r (children h n)) (children h' n')
        && oo_eqb (omap_rho r (target_of tg n)) (target_of tg' n')
        && Nat.eqb (p_tag orig n) (p_tag copy n')
        && attrs_eqb (p_attrs orig n) (p_attrs copy n')) r
  (* the copy is a consistent forest (C01) *)
  && inv_b h'.

Definition corr_C19 (cs : list case19) : report :=
  mk_report (map (fun c => (spec19 c, spec19 c)) cs).
