(** C17 re-uses the drivers of the other properties on adversarial node classes. *)
Require Export AT.Corr.Mut AT.Corr.C04 AT.Corr.C06 AT.Corr.C07 AT.Corr.C08 AT.Corr.C09 AT.Corr.C12 AT.Corr.C14.
