(** C17 - Tree operations use node identity only, never user-defined special
    methods.  Thin by nature on the Coq side: every structural function of the
    model (Mutate, Nav, Iter, Search, Walker, Resolver, Render, Graph, DictIO)
    is DEFINED without access to the record of user special methods
    (Model/Special.v) - that is what "identity only" means for a model - and
    the tie is the correspondence: the other properties' cases re-run on node
    classes with adversarial, logging special methods must equal that model
    and log nothing.  What is stated here is the boundary of the two functions
    that did consult special methods before their repair. *)
Require Import AT.Model.Base AT.Model.Rose AT.Model.Special AT.Model.Nav AT.Model.Resolver AT.Model.Iter.
Require AT.Proofs.SpecialProofs AT.Proofs.Naturality AT.Proofs.NavProofs.
Import AT.Proofs.SpecialProofs.

(** the iterators never compare, hash or test nodes: for ANY relabelling g of
    the nodes - injective or not, so two distinct nodes may "compare equal" -
    each of the five iterators (the transcriptions of the code), with any
    filter_, stop and maxlevel, yields on the relabelled tree the relabelled
    result of the original tree (the user predicates see the nodes through g) *)
Theorem C17_preorder_natural : forall g f stop ml t,
  PreOrderIter f stop ml (AT.Proofs.Naturality.map_tree g t)
  = map g (PreOrderIter (fun n => f (g n)) (fun n => stop (g n)) ml t).
Proof. exact AT.Proofs.Naturality.pre_iter_natural. Qed.
Print Assumptions C17_preorder_natural.
Theorem C17_postorder_natural : forall g f stop ml t,
  PostOrderIter f stop ml (AT.Proofs.Naturality.map_tree g t)
  = map g (PostOrderIter (fun n => f (g n)) (fun n => stop (g n)) ml t).
Proof. exact AT.Proofs.Naturality.post_iter_natural. Qed.
Print Assumptions C17_postorder_natural.
Theorem C17_levelorder_natural : forall g f stop ml t,
  LevelOrderIter f stop ml (AT.Proofs.Naturality.map_tree g t)
  = match LevelOrderIter (fun n => f (g n)) (fun n => stop (g n)) ml t with
    | Ok l => Ok (map g l) | Err e => Err e | OutOfFuel => OutOfFuel end.
Proof. exact AT.Proofs.Naturality.level_iter_natural. Qed.
Print Assumptions C17_levelorder_natural.
Theorem C17_levelordergroup_natural : forall g f stop ml t,
  LevelOrderGroupIter f stop ml (AT.Proofs.Naturality.map_tree g t)
  = match LevelOrderGroupIter (fun n => f (g n)) (fun n => stop (g n)) ml t with
    | Ok gs => Ok (map (map g) gs) | Err e => Err e | OutOfFuel => OutOfFuel end.
Proof. exact AT.Proofs.Naturality.group_iter_natural. Qed.
Print Assumptions C17_levelordergroup_natural.
Theorem C17_zigzag_natural : forall g f stop ml t,
  ZigZagGroupIter f stop ml (AT.Proofs.Naturality.map_tree g t)
  = match ZigZagGroupIter (fun n => f (g n)) (fun n => stop (g n)) ml t with
    | Ok gs => Ok (map (map g) gs) | Err e => Err e | OutOfFuel => OutOfFuel end.
Proof. exact AT.Proofs.Naturality.zigzag_iter_natural. Qed.
Print Assumptions C17_zigzag_natural.
(** ... and so are the navigation attributes: path (for an existing node),
    descendants, leaves, height *)
Theorem C17_navigation_natural : forall g t p s,
  (AT.Proofs.NavProofs.valid t p ->
   path (AT.Proofs.Naturality.map_tree g t) p
   = match path t p with Ok l => Ok (map g l) | Err e => Err e | OutOfFuel => OutOfFuel end) /\
  descendants (AT.Proofs.Naturality.map_tree g s) = map g (descendants s) /\
  leaves (AT.Proofs.Naturality.map_tree g s) = map g (leaves s) /\
  height (AT.Proofs.Naturality.map_tree g s) = height s.
Proof.
  intros g t p s. split; [apply AT.Proofs.Naturality.path_natural|].
  split; [apply AT.Proofs.Naturality.descendants_natural|].
  split; [apply AT.Proofs.Naturality.leaves_natural|apply AT.Proofs.Naturality.height_natural].
Qed.
Print Assumptions C17_navigation_natural.

(** the identities of the nodes (their positions) do not depend on the labels *)
Theorem C17_positions_label_free : forall g t p,
  AT.Model.Nav.children_pos (AT.Proofs.Naturality.map_tree g t) p = AT.Model.Nav.children_pos t p /\
  AT.Model.Resolver.pre_positions (AT.Proofs.Naturality.map_tree g t) p = AT.Model.Resolver.pre_positions t p.
Proof. intros g t p. split; [apply AT.Proofs.Naturality.children_pos_label_free|apply AT.Proofs.Naturality.pre_positions_label_free]. Qed.
Print Assumptions C17_positions_label_free.

(** the repaired util.leftsibling / rightsibling and the repaired '**'
    de-duplication are functions of node identity alone: whatever the user
    class defines, the result is that of a plain class *)
Theorem C17_siblings_identity_only : forall (U : special) p l n,
  leftsibling_new p l n = leftsibling_old plain p l n /\ rightsibling_new p l n = rightsibling_old plain p l n.
Proof.
  intros U p l n. split; symmetry; [apply leftsibling_old_guarded|apply rightsibling_old_guarded];
    (split; [intros a b H; apply Nat.eqb_eq; exact H|reflexivity]).
Qed.
Print Assumptions C17_siblings_identity_only.

(** before the repair (be4b49c, 01faf79) they were not: always-equal and falsy
    classes got wrong siblings; a recursive glob returned one node *)
Theorem C17_siblings_old_refuted :
  leftsibling_old always_equal (Some 0) [1; 2; 3] 3 = None /\ leftsibling_new (Some 0) [1; 2; 3] 3 = Some 2 /\
  rightsibling_old always_equal (Some 0) [1; 2; 3] 3 = Some 2 /\ rightsibling_new (Some 0) [1; 2; 3] 3 = None /\
  leftsibling_old falsy (Some 0) [1; 2; 3] 3 = None.
Proof. exact leftsibling_old_refuted. Qed.
Print Assumptions C17_siblings_old_refuted.
Theorem C17_glob_dedup_old_refuted :
  add_new_old always_equal [] [1; 2; 3] = [1] /\ add_new_id [] [1; 2; 3] = [1; 2; 3].
Proof. exact glob_dedup_old_refuted. Qed.
Print Assumptions C17_glob_dedup_old_refuted.

(** and the old code was right exactly for classes whose __eq__ on nodes is
    identity and whose instances are truthy *)
Theorem C17_old_guarded : forall U, identity_like U ->
  (forall p l n, leftsibling_old U p l n = leftsibling_new p l n /\ rightsibling_old U p l n = rightsibling_new p l n) /\
  (forall a ms, add_new_old U a ms = add_new_id a ms).
Proof.
  intros U I. split; [intros p l n; split; [apply leftsibling_old_guarded|apply rightsibling_old_guarded]; exact I|].
  intros a ms. apply add_new_old_guarded. exact I.
Qed.
Print Assumptions C17_old_guarded.
