(** C01 - Parent and children links always describe one consistent forest.
    Only statements; proofs are [exact <lemma of Proofs/>]. *)
Require Import AT.Model.Base AT.Model.Heap AT.Model.Mutate AT.Spec.MutSpec.
Require AT.Proofs.MutInv AT.Proofs.MutHistory AT.Proofs.MutParent AT.Proofs.MutDelRun AT.Proofs.MutSetRun AT.Proofs.MutAssert.
Import AT.Proofs.MutInv AT.Proofs.MutHistory.
Require AT.Model.Rose AT.Model.Abs AT.Spec.IterSpec AT.Proofs.PickleProofs AT.Proofs.ForestCover.

(** One step: ANY call (the three assignments and the constructors), with ANY
    arguments naming existing nodes or non-nodes (valid or not), under ANY
    hook-fault oracle (single, repeated, persistent), both mixins, both
    assertion settings and any re-entrancy fuel (the RecursionError outcome
    included), maps a consistent forest to a consistent forest - also when the
    call is refused, aborted by a hook, or abandoned in the middle of its own
    rollback. *)
Theorem C01_step : forall typed asrt faults fuel o s,
  Inv (heap_of s) -> valid_op (length (heap_of s)) o ->
  Inv (heap_of (snd (run_op typed asrt faults fuel o s))) /\
  length (heap_of s) <= length (heap_of (snd (run_op typed asrt faults fuel o s))).
Proof. exact run_op_inv. Qed.
Print Assumptions C01_step.

(** Every finite history from the all-roots universe *)
Theorem C01_history : forall typed k cs,
  valid_history typed (init k) cs -> Inv (fold_left (step typed) cs (init k)).
Proof. intros typed k cs V. apply history_inv; [apply init_inv|exact V]. Qed.
Print Assumptions C01_history.

(** The clauses of the statement, each a consequence of [Inv]:
    n appears in p.children exactly once iff n.parent is p ... *)
Theorem C01_exactly_once : forall h, Inv h -> forall n p,
  count_id (children h p) n = 1 <-> parent h n = Some p.
Proof. exact exactly_once. Qed.
Print Assumptions C01_exactly_once.

(** ... and in no other node's children (no node has two parents) *)
Theorem C01_one_parent : forall h, Inv h -> forall n p q,
  In n (children h p) -> In n (children h q) -> p = q.
Proof. exact one_parent. Qed.
Print Assumptions C01_one_parent.

(** following parent reaches a root in at most |universe| steps; the chain of
    proper ancestors is duplicate free and does not contain the node itself *)
Theorem C01_reaches_root : forall h, Inv h -> forall n,
  exists l, chain h n l /\ ~ In n l /\ NoDup l /\ length l <= length h.
Proof. exact reaches_root. Qed.
Print Assumptions C01_reaches_root.

(** the boolean evaluated on the link maps observed from the implementation
    is exactly [Inv] *)
Theorem C01_inv_b_sound : forall h, inv_b h = true -> Inv h.
Proof. exact inv_b_sound. Qed.
Print Assumptions C01_inv_b_sound.
Theorem C01_inv_b_complete : forall h, Inv h -> inv_b h = true.
Proof. exact inv_b_complete. Qed.
Print Assumptions C01_inv_b_complete.

(** under [Inv] the internal assertions of the parent setter and of the
    children deleter hold: ANYTREE_ASSERTIONS on and off behave identically
    (fault-free calls; the children setter's assertion is not yet proved) *)
Theorem C01_assertions_parent_del : forall typed n v s,
  let h := heap_of s in
  Inv h -> n < length h -> (match v with Some q => q < length h | None => True end) ->
  set_parent typed true no_faults n (MutParent.opt_value v) s = set_parent typed false no_faults n (MutParent.opt_value v) s /\
  del_children typed true no_faults n s = del_children typed false no_faults n s.
Proof.
  intros typed n v s h I Hn Hv. split.
  - rewrite (MutParent.set_parent_run typed true n v s I Hn Hv), (MutParent.set_parent_run typed false n v s I Hn Hv). reflexivity.
  - rewrite (MutDelRun.del_children_run typed true n s I Hn), (MutDelRun.del_children_run typed false n s I Hn). reflexivity.
Qed.
Print Assumptions C01_assertions_parent_del.

(** ... and so does the assertion of the children setter on every accepted call *)
Theorem C01_assertions_children : forall typed fu n xs s,
  let h := heap_of s in
  Inv h -> n < length h -> NoDup xs ->
  (forall x, In x xs -> x < length h /\ x <> n /\ ~ In x (ancestors_of h n)) ->
  set_children typed true no_faults (S fu) n (CList (map VNode xs)) s
  = set_children typed false no_faults (S fu) n (CList (map VNode xs)) s.
Proof.
  intros typed fu n xs s h I Hn ND B.
  rewrite (MutSetRun.set_children_run typed true fu n xs s I Hn ND B),
          (MutSetRun.set_children_run typed false fu n xs s I Hn ND B). reflexivity.
Qed.
Print Assumptions C01_assertions_children.

(** under [Inv] no internal assertion fires: with ANYTREE_ASSERTIONS on, every
    call - any arguments, any hook-fault oracle, any re-entrancy fuel, both
    mixins - is the very same run (result, link state, hook log) as with
    assertions off *)
Theorem C01_assertions : forall typed faults fuel o s, Inv (heap_of s) -> valid_op (length (heap_of s)) o ->
  run_op typed true faults fuel o s = run_op typed false faults fuel o s.
Proof. exact AT.Proofs.MutAssert.assertions_irrelevant. Qed.
Print Assumptions C01_assertions.

(** non-vacuity: a two-tree forest satisfies the invariant, and a refused,
    half-rolled-back call on it is covered by the hypotheses *)
(** "one consistent forest", as trees: in a consistent link state every node n
    lies in the unfolding (children lists followed downwards, AT.Model.Abs) of
    exactly one parentless node - the top of n's ancestor chain - so the
    unfoldings of the roots partition the node set; with the history theorem
    this holds after every operation history.  [root_of n l] is the last
    element of n's ancestor chain l (n itself when l is empty) *)
Theorem C01_forest_partition : forall h, Inv h -> forall n l, chain h n l ->
  let r := AT.Proofs.PickleProofs.root_of n l in
  parent h r = None /\
  In n (AT.Spec.IterSpec.preorder (AT.Model.Abs.tree_of h r)) /\
  forall r', parent h r' = None -> In n (AT.Spec.IterSpec.preorder (AT.Model.Abs.tree_of h r')) -> r' = r.
Proof. exact AT.Proofs.ForestCover.forest_partition. Qed.
Print Assumptions C01_forest_partition.

(** ... at every point of every operation history (each call with its own
    arguments, fault oracle, assertion setting and fuel) that starts from k
    fresh nodes: every node belongs to the unfolding of exactly one root *)
Theorem C01_forest_after_every_history : forall typed cs k, valid_history typed (init k) cs ->
  let h := fold_left (step typed) cs (init k) in
  forall n, exists r, parent h r = None /\
    In n (AT.Spec.IterSpec.preorder (AT.Model.Abs.tree_of h r)) /\
    forall r', parent h r' = None -> In n (AT.Spec.IterSpec.preorder (AT.Model.Abs.tree_of h r')) -> r' = r.
Proof.
  intros typed cs k V h n.
  assert (Ih : Inv h) by (apply history_inv; [apply init_inv|exact V]).
  destruct (inv_acyclic _ Ih n) as [l C].
  exists (AT.Proofs.PickleProofs.root_of n l). exact (AT.Proofs.ForestCover.forest_partition h Ih n l C).
Qed.
Print Assumptions C01_forest_after_every_history.

(** the unfolding below a node never leaves that node's tree, and contains the
    children of everything it contains *)
Theorem C01_unfolding_stays_in_tree : forall h, Inv h -> forall r x lr lx,
  In x (AT.Spec.IterSpec.preorder (AT.Model.Abs.tree_of h r)) -> chain h r lr -> chain h x lx ->
  AT.Proofs.PickleProofs.root_of x lx = AT.Proofs.PickleProofs.root_of r lr.
Proof. exact AT.Proofs.ForestCover.same_tree. Qed.
Print Assumptions C01_unfolding_stays_in_tree.

Theorem C01_unfolding_closed_under_children : forall h, Inv h -> forall r x c,
  In x (AT.Spec.IterSpec.preorder (AT.Model.Abs.tree_of h r)) -> In c (children h x) ->
  In c (AT.Spec.IterSpec.preorder (AT.Model.Abs.tree_of h r)).
Proof. exact AT.Proofs.ForestCover.pre_closed. Qed.
Print Assumptions C01_unfolding_closed_under_children.

(** ... and lists no node twice: with C05 (the iterators enumerate the
    unfolding) "every node of the subtree exactly once" is a statement about
    the links themselves *)
Theorem C01_unfolding_lists_each_node_once : forall h, Inv h -> forall r,
  NoDup (AT.Spec.IterSpec.preorder (AT.Model.Abs.tree_of h r)).
Proof. exact AT.Proofs.ForestCover.tree_of_nodup. Qed.
Print Assumptions C01_unfolding_lists_each_node_once.

(** the forest, in one statement: the unfoldings of the parentless nodes,
    concatenated, are a permutation of the node universe - every node in
    exactly one tree, exactly once *)
Theorem C01_roots_partition_universe : forall h, Inv h ->
  Permutation.Permutation
    (flat_map (fun r => AT.Spec.IterSpec.preorder (AT.Model.Abs.tree_of h r)) (AT.Proofs.ForestCover.roots h))
    (seq 0 (length h)).
Proof. exact AT.Proofs.ForestCover.roots_partition. Qed.
Print Assumptions C01_roots_partition_universe.

Example C01_partition_example :
  let h := attach_links (attach_links (init 4) 1 0) 3 2 in
  AT.Proofs.ForestCover.roots h = [0; 2] /\
  flat_map (fun r => AT.Spec.IterSpec.preorder (AT.Model.Abs.tree_of h r)) (AT.Proofs.ForestCover.roots h) = [0; 1; 2; 3].
Proof. vm_compute. split; reflexivity. Qed.

Example C01_example :
  let h := attach_links (attach_links (init 4) 1 0) 3 2 in
  Inv h /\ valid_op (length h) (SetChildren 0 (CList [VNode 3; VNode 0])) /\
  fst (run_op true false no_faults reentry_fuel (SetChildren 0 (CList [VNode 3; VNode 0])) (start h)) = Err LoopError.
Proof.
  cbv zeta. split; [apply inv_b_sound; vm_compute; reflexivity|].
  split; [|vm_compute; reflexivity].
  simpl. split; [lia|]. repeat constructor; simpl; lia.
Qed.
