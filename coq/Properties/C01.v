(** C01 - Parent and children links always describe one consistent forest. *)
Require Import AT.Model.Base AT.Model.Heap AT.Model.Mutate AT.Spec.MutSpec.

Theorem C01_init_consistent : inv_b (init 3) = true.
Proof. reflexivity. Qed.
Print Assumptions C01_init_consistent.
