(** C11 - JSON export and import round-trip every JSON-representable tree.
    Partial by nature: the codec is CPython's json (a Section variable with
    the round-trip hypothesis, checked by the harness on every exported value,
    not proved).  What anytree adds is proved.  Only statements. *)
Require Import AT.Model.Base AT.Model.DictIO AT.Spec.DictSpec.
Require AT.Proofs.DictProofs.
Import AT.Proofs.DictProofs.

(** export(node) is exactly dumps (under the exporter's options) of the
    dictionary the dict exporter produces for the maxlevel in force: the
    JsonExporter's own maxlevel when given, else the supplied exporter's *)
Theorem C11_export_is_dumps_of_dictexport : forall (text : Type) dumps attriter childiter eml jml t,
  json_export text dumps attriter childiter eml jml t =
  match export attriter childiter (match jml with Some m => Some m | None => eml end) t with
  | Ok d => Ok (dumps d) | Err e => Err e | OutOfFuel => OutOfFuel end.
Proof. intros. unfold json_export, json_effective_maxlevel. destruct (export _ _ _ _); reflexivity. Qed.
Print Assumptions C11_export_is_dumps_of_dictexport.

(** write() emits the same text; read() is import_ on the file contents *)
Theorem C11_write_same_text : forall (text : Type) dumps a c eml jml t,
  json_write text dumps a c eml jml t = json_export text dumps a c eml jml t.
Proof. reflexivity. Qed.
Print Assumptions C11_write_same_text.
Theorem C11_read_same : forall (text : Type) loads ctor s, json_read text loads ctor s = json_import text loads ctor s.
Proof. reflexivity. Qed.
Print Assumptions C11_read_same.

(** with a codec that round-trips the exported dictionaries, import_(export(t))
    is isomorphic to t (cut at the maxlevel in force) *)
Theorem C11_roundtrip : forall (text : Type) dumps loads, (forall d, loads (dumps d) = d) ->
  forall eml jml t, wf_itree t ->
  exists s, json_export text dumps (fun l => l) (fun l => l) eml jml t = Ok s /\
            json_import text loads ctor_any s = cut (json_effective_maxlevel eml jml) 1 t.
Proof. exact json_roundtrip. Qed.
Print Assumptions C11_roundtrip.
