(** C19 - Pickle and deepcopy yield an independent, consistent, isomorphic
    tree.  Partial by nature: the copier is CPython's pickle / copy.deepcopy;
    its contract - an isomorphic copy of the object graph reachable from the
    entry node under an injective renaming into fresh objects - is evaluated in
    Coq on every copy the implementation produced ([spec19] in Corr/C19.v:
    reachable set, bijective renaming, shape, child order, classes, attributes,
    symlink targets, entry position, [inv_b] of the copy), not proved.  What is
    proved is what makes "the whole tree" follow from that contract. *)
Require Import AT.Model.Base AT.Model.Heap AT.Model.Pickle AT.Spec.MutSpec.
Require Import AT.Model.Rose AT.Model.Abs AT.Spec.IterSpec.
Require AT.Proofs.PickleProofs AT.Proofs.MutHistory AT.Proofs.CopyIso AT.Proofs.CopyTree AT.Proofs.Naturality.
Import AT.Proofs.PickleProofs.

(** in a consistent forest every node of the entry node's tree is reachable
    from it through parent / children references - whichever node of the tree
    the entry is *)
Theorem C19_reach_covers_tree : forall h tg, Inv h -> forall e le x lx,
  chain h e le -> chain h x lx -> root_of e le = root_of x lx -> Reach h tg e x.
Proof. exact reach_covers_tree. Qed.
Print Assumptions C19_reach_covers_tree.

(** a symlink met on the way pulls in its target (and hence the target's tree) *)
Theorem C19_reach_targets : forall h tg e x t, Reach h tg e x -> target_of tg x = Some t -> Reach h tg e t.
Proof. exact reach_target. Qed.
Print Assumptions C19_reach_targets.

(** an isomorphic copy of a closed part (whole trees) of a consistent forest
    is a consistent forest: the clauses of the copier's contract that the
    correspondence check evaluates on every observed copy (closed domain,
    injective renaming onto the copy universe, same parent, same ordered
    children) imply the C01 invariant of the copy *)
Theorem C19_isomorphic_copy_consistent : forall (h h' : heap) (dom : list id) (ren : id -> id),
  Inv h ->
  (forall x p, In x dom -> parent h x = Some p -> In p dom) ->
  (forall x c, In x dom -> In c (children h x) -> In c dom) ->
  (forall x, In x dom -> ren x < length h') ->
  (forall x y, In x dom -> In y dom -> ren x = ren y -> x = y) ->
  (forall y, y < length h' -> exists x, In x dom /\ ren x = y) ->
  (forall x, In x dom -> parent h' (ren x) = option_map ren (parent h x)) ->
  (forall x, In x dom -> children h' (ren x) = map ren (children h x)) ->
  Inv h'.
Proof. exact AT.Proofs.CopyIso.copy_inv. Qed.
Print Assumptions C19_isomorphic_copy_consistent.

(** ... and it is isomorphic to the original as a tree, at every depth: under
    the same clauses the unfolding of the copy below the image of any copied
    node is the renamed unfolding of the original below that node (same
    shape, same child order everywhere), so every traversal of the copy is
    the renamed traversal of the original *)
Theorem C19_copy_isomorphic_tree : forall (h h' : heap) (dom : list id) (ren : id -> id),
  Inv h ->
  (forall x p, In x dom -> parent h x = Some p -> In p dom) ->
  (forall x c, In x dom -> In c (children h x) -> In c dom) ->
  (forall x, In x dom -> ren x < length h') ->
  (forall x y, In x dom -> In y dom -> ren x = ren y -> x = y) ->
  (forall y, y < length h' -> exists x, In x dom /\ ren x = y) ->
  (forall x, In x dom -> parent h' (ren x) = option_map ren (parent h x)) ->
  (forall x, In x dom -> children h' (ren x) = map ren (children h x)) ->
  forall x, In x dom ->
    tree_of h' (ren x) = AT.Proofs.Naturality.map_tree ren (tree_of h x) /\
    preorder (tree_of h' (ren x)) = map ren (preorder (tree_of h x)) /\
    postorder (tree_of h' (ren x)) = map ren (postorder (tree_of h x)).
Proof.
  intros h h' dom ren I cp cc rb ri ro sp sc x Hx. split; [|split].
  - exact (AT.Proofs.CopyTree.tree_of_copy h h' dom ren I cp cc rb ri ro sp sc x Hx).
  - exact (AT.Proofs.CopyTree.preorder_copy h h' dom ren I cp cc rb ri ro sp sc x Hx).
  - exact (AT.Proofs.CopyTree.postorder_copy h h' dom ren I cp cc rb ri ro sp sc x Hx).
Qed.
Print Assumptions C19_copy_isomorphic_tree.

(** the boolean evaluated on the copy's link maps is the C01 invariant *)
Theorem C19_copy_consistency_check_sound : forall h, inv_b h = true -> Inv h.
Proof. exact AT.Proofs.MutHistory.inv_b_sound. Qed.
Print Assumptions C19_copy_consistency_check_sound.

Example C19_example :
  let h := attach_links (attach_links (init 4) 1 0) 2 1 in
  Inv h /\ reach_list h [None; None; None; Some 2] 3 = [3; 2; 1; 0].
Proof. cbv zeta. split; [apply AT.Proofs.MutHistory.inv_b_sound; vm_compute; reflexivity|vm_compute; reflexivity]. Qed.
