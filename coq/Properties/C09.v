(** C09 - RenderTree draws every tree faithfully; prefixes encode each node's
    position.  Only statements; proofs are [exact <lemma>]. *)
Require Import AT.Model.Base AT.Model.Rose AT.Model.Nav AT.Model.Resolver AT.Model.Render AT.Spec.RenderSpec.
Require AT.Proofs.RenderProofs AT.Proofs.RenderShape AT.Generated.Extracted.
Import AT.Proofs.RenderProofs.

(** For every tree, style, maxlevel and every childiter that selects/reorders
    the given children (list, reversed, sorting, filtering): iterating
    RenderTree yields one (pre, fill, node) row per node of the rendered tree
    R (childiter applied at every level, nodes at relative depth below
    max(maxlevel, 1)), in pre-order; the root's pre and fill are empty; for a
    node at position p (depth d) fill is d segments, segment j being the
    vertical bar iff the path node at depth j + 1 has a following sibling in R
    (blank otherwise), and pre is the first d - 1 of them followed by the
    'continue' branch iff the node itself has a following sibling ('end'
    otherwise).  The generator never runs out of its fuel. *)
Theorem C09_rows : forall childiter vertical cont end_ maxlevel t,
  (forall l c, In c (childiter l) -> In c l) ->
  render_rows childiter vertical cont end_ maxlevel t
  = Ok (map (fun p => (pre_spec vertical cont end_ (rendered childiter maxlevel (S (theight t)) t 0) p,
                       fill_spec vertical end_ (rendered childiter maxlevel (S (theight t)) t 0) p,
                       label_at (rendered childiter maxlevel (S (theight t)) t 0) p))
            (pre_positions (rendered childiter maxlevel (S (theight t)) t 0) [])).
Proof. exact render_rows_spec. Qed.
Print Assumptions C09_rows.

(** with an equal-width style both prefixes of a node at depth d are d segments wide *)
Theorem C09_widths : forall vertical cont end_ w, length vertical = w -> length cont = w -> length end_ = w ->
  forall continues n,
  let '(pre, fill, _) := item vertical cont end_ continues n in
  length pre = (length continues * w)%nat /\ length fill = (length continues * w)%nat.
Proof. exact item_widths. Qed.
Print Assumptions C09_widths.

(** the four built-in styles (strings extracted from /repo on this run) are equal-width *)
Theorem C09_builtin_styles_equal_width :
  Forall (fun s : list N * list N * list N => let '(v, c, e) := s in length v = length e /\ length c = length e)
         [Extracted.style_ascii; Extracted.style_cont; Extracted.style_contround; Extracted.style_double].
Proof. exact builtin_styles_equal_width. Qed.
Print Assumptions C09_builtin_styles_equal_width.

(** str(RenderTree) / by_attr(): pre + first line, fill + each further line;
    an empty value still produces one line *)
Theorem C09_text_lines : forall pre fill n lines,
  format_row (pre, fill, n) lines =
  match lines with
  | [] => [pre]
  | l :: rest => (pre ++ l) :: map (fun x => fill ++ x) rest
  end.
Proof. intros pre fill n [|l rest]; [unfold format_row; simpl; rewrite app_nil_r|]; reflexivity. Qed.
Print Assumptions C09_text_lines.

(** the shape of the rendered tree can be reconstructed from the text alone:
    for an equal-width style (width > 0) it is a function of the widths of the
    row prefixes - two rendered trees whose rows have prefixes of the same
    lengths are the same tree up to labels *)
Theorem C09_reconstruct : forall vertical cont end_ w R R',
  length vertical = w -> length cont = w -> length end_ = w -> (0 < w)%nat ->
  map (fun r : row => length (fst (fst r))) (rows_spec vertical cont end_ R)
  = map (fun r : row => length (fst (fst r))) (rows_spec vertical cont end_ R') ->
  AT.Proofs.RenderShape.shape R = AT.Proofs.RenderShape.shape R'.
Proof. intros v c e w R R' Hv Hc He Hw. exact (AT.Proofs.RenderShape.shape_from_widths v c e w Hv Hc He R R' Hw). Qed.
Print Assumptions C09_reconstruct.

Example C09_example :
  let t := T 0 [T 1 [T 2 []]; T 3 []] in
  render_rows (fun l => l) [124; 32]%N [43; 45]%N [96; 45]%N None t
  = Ok [([], [], 0); ([43; 45]%N, [124; 32]%N, 1); ([124; 32; 96; 45]%N, [124; 32; 32; 32]%N, 2);
        ([96; 45]%N, [32; 32]%N, 3)] /\
  render_rows (@rev tree) [124; 32]%N [43; 45]%N [96; 45]%N (Some 2%Z) t
  = Ok [([], [], 0); ([43; 45]%N, [124; 32]%N, 3); ([96; 45]%N, [32; 32]%N, 1)].
Proof. vm_compute. split; reflexivity. Qed.
