(** C20 - A symlink node has its own tree position and forwards the rest to
    its target.  Objects are numbered in creation order; [link_clean]: links
    hold no data attributes of their own and point to earlier objects - it is
    established by the constructors and preserved by every write.
    Only statements; proofs are [exact <lemma>]. *)
Require Import AT.Model.Base AT.Model.Symlink AT.Spec.SymlinkSpec.
Require AT.Proofs.SymlinkProofs AT.Proofs.SymlinkXProofs AT.Model.SymlinkX.
Import AT.Proofs.SymlinkProofs.

(** every data attribute read on a link - through chains of any length -
    returns the final target's current value, and raises AttributeError exactly
    when the target lacks it (the refused-name tuple is the one extracted from
    /repo on this run) *)
Theorem C20_read_forwards : forall s, link_clean s -> forall x k, data_name k = true -> x < length s ->
  getattr (chain_fuel s) s x k =
  match dget (odict (oget s (final (chain_fuel s) s x))) k with Some v => Ok v | None => Err AttributeError end.
Proof. exact getattr_spec. Qed.
Print Assumptions C20_read_forwards.

(** every data attribute assignment on a link is stored on the final target *)
Theorem C20_write_forwards : forall s, link_clean s -> forall k v, data_name k = true ->
  forall x, x < length s ->
  setattr (chain_fuel s) s x k v =
  Ok (oupd s (final (chain_fuel s) s x)
        {| okind_of := Plain; odict := dset (odict (oget s (final (chain_fuel s) s x))) k v |}).
Proof. intros s C k v D x H. apply setattr_final; auto. unfold chain_fuel. apply Nat.lt_lt_succ_r. exact H. Qed.
Print Assumptions C20_write_forwards.

(** in both directions and at any later time: what is written through any
    object is read back through every object with the same final target (the
    link, a link to the link, the target itself); the invariant is preserved *)
Theorem C20_write_then_read : forall s x x' k v s', link_clean s -> data_name k = true ->
  x < length s -> x' < length s ->
  final (chain_fuel s) s x' = final (chain_fuel s) s x ->
  setattr (chain_fuel s) s x k v = Ok s' ->
  link_clean s' /\ length s' = length s /\ getattr (chain_fuel s') s' x' k = Ok v.
Proof. exact write_then_read. Qed.
Print Assumptions C20_write_then_read.

(** the link's own tree position: parent and children of every object live in
    the link heap of Model/Mutate.v, which none of the attribute operations
    takes or returns - and the structural operations of C01-C03 do not take or
    return [objs]: independence in both directions holds by the types of the
    model; for the implementation it is the harness's structural check. *)
Definition C20_structure_independent_by_construction : Prop :=
  forall s o, exists a s', run_aop s o = (a, s').

(** classes that define attributes themselves (a class attribute of a SymlinkNode
    subclass, a read-only property of a node class) are covered by the extended
    model Model/SymlinkX.v; without such attributes it is the model above *)
Theorem C20_class_attributes_conservative : forall ops s,
  AT.Model.SymlinkX.run_aops_c AT.Model.SymlinkX.no_cls s ops = run_aops s ops.
Proof. exact AT.Proofs.SymlinkXProofs.run_aops_c_plain. Qed.
Print Assumptions C20_class_attributes_conservative.

Example C20_example :
  fst (run_aops [] [ANewPlain [([97]%N, 1%Z)]; ANewLink 0 []; ANewLink 1 [([107]%N, 5%Z)];
                    AGet 0 [107]%N; ASet 2 [107]%N 9%Z; AGet 2 [107]%N; AGet 1 [107]%N; AGet 0 [107]%N; AGet 2 [122]%N])
  = [ODone; ODone; ODone; OVal 5%Z; ODone; OVal 9%Z; OVal 9%Z; OVal 9%Z; OErr AttributeError].
Proof. vm_compute. reflexivity. Qed.
