(** C16 - Notification hooks fire exactly once and in order around each link
    change.  Only statements; proofs are [exact <lemma>]. *)
Require Import AT.Model.Base AT.Model.Heap AT.Model.Mutate AT.Spec.MutSpec.
Require AT.Proofs.MutParent AT.Proofs.MutHistory AT.Proofs.MutDelRun AT.Proofs.MutSetRun AT.Proofs.MutInv AT.Proofs.ReentryProofs AT.Proofs.MutReplay AT.Model.Reentry.
Import AT.Proofs.MutParent.

(** a parent change that actually happens logs exactly
    [_pre_detach(old); _post_detach(old)] if the node had a parent, then
    [_pre_attach(new); _post_attach(new)] if it gets one - each once, on the
    moving node, with the right argument, each observing the state before /
    after its step ([log_set_parent] carries the state snapshots) *)
Theorem C16_parent_log : forall typed asrt n v s,
  let h := heap_of s in
  Inv h -> n < length h -> (match v with Some q => q < length h | None => True end) ->
  loop_refused h n v = false ->
  log (snd (set_parent typed asrt no_faults n (opt_value v) s)) = log s ++ log_set_parent h n v /\
  cnt (snd (set_parent typed asrt no_faults n (opt_value v) s)) = length (log_set_parent h n v) + cnt s.
Proof.
  intros typed asrt n v s h I Bn Bv LR.
  pose proof (set_parent_run typed asrt n v s I Bn Bv) as R. cbv zeta in R. fold h in R.
  rewrite LR in R. rewrite R. split; reflexivity.
Qed.
Print Assumptions C16_parent_log.

(** assigning the current parent (or None to a root) calls nothing *)
Theorem C16_noop_silent : forall typed asrt faults n v s,
  parent (heap_of s) n = v -> set_parent typed asrt faults n (opt_value v) s = (Ok tt, s).
Proof. exact set_parent_noop. Qed.
Print Assumptions C16_noop_silent.

(** a refused parent assignment calls nothing *)
Theorem C16_refused_silent : forall typed asrt n v s,
  let h := heap_of s in
  Inv h -> n < length h -> (match v with Some q => q < length h | None => True end) ->
  loop_refused h n v = true ->
  set_parent typed asrt no_faults n (opt_value v) s = (Err LoopError, s).
Proof.
  intros typed asrt n v s h I Bn Bv LR.
  pose proof (set_parent_run typed asrt n v s I Bn Bv) as R. cbv zeta in R. fold h in R.
  rewrite LR in R. exact R.
Qed.
Print Assumptions C16_refused_silent.

(** what the hooks observe: _pre_detach - still a child of old;
    _post_detach/_pre_attach - a root, in neither children list;
    _post_attach - last child of new *)
Theorem C16_snapshots : forall h n q, Inv h -> n < length h -> q < length h ->
  let h1 := eff_set_parent h n None in
  let h2 := eff_set_parent h1 n (Some q) in
  (parent h1 n = None /\ forall m, ~ In n (children h1 m)) /\
  (parent h2 n = Some q /\ last (children h2 q) n = n /\ In n (children h2 q)) /\
  (forall p, parent h n = Some p -> In n (children h p)).
Proof. exact snapshots. Qed.
Print Assumptions C16_snapshots.

(** every way a parent assignment can end under ANY fault oracle, with the
    exact state and log it leaves ([sp_end] enumerates them): in particular
    no hook is ever invoked twice and their order is fixed *)
Theorem C16_parent_all_endings : forall typed asrt faults n v h r s',
  set_parent typed asrt faults n (opt_value v) (start h) = (r, s') ->
  sp_end h n v r (heap_of s') (log s').
Proof. exact set_parent_ends. Qed.
Print Assumptions C16_parent_all_endings.

(** an exception from a post hook propagates without undoing the step that
    preceded it *)
Theorem C16_post_no_rollback : forall typed asrt faults n v h r s',
  set_parent typed asrt faults n (opt_value v) (start h) = (r, s') ->
  forall i, r = Err (HookExn i) ->
    (kind_at (log s') i = Some PostDetach -> heap_of s' = after_detach h n) /\
    (kind_at (log s') i = Some PostAttach ->
       exists q, v = Some q /\ heap_of s' = attach_links (after_detach h n) n q).
Proof. exact set_parent_post_fault. Qed.
Print Assumptions C16_post_no_rollback.

(** `del n.children` wraps the per-child detach calls (each child's
    _pre_detach / _post_detach, in order, each in the state reached so far) in
    _pre_detach_children / _post_detach_children with the former children *)
Theorem C16_del_log : forall typed asrt n s,
  let h := heap_of s in
  Inv h -> n < length h ->
  log (snd (del_children typed asrt no_faults n s)) = log s ++ fst (log_del_children h n).
Proof.
  intros typed asrt n s h I Hn. rewrite (MutDelRun.del_children_run typed asrt n s I Hn). reflexivity.
Qed.
Print Assumptions C16_del_log.

(** `n.children = xs` (an accepted call): _pre_detach_children(former),
    the former children's detach hooks in order, _post_detach_children(former),
    _pre_attach_children(xs), the new children's move hooks in order (each
    computed in the state reached so far), _post_attach_children(xs) - all
    former children are detached before the first new one is attached *)
Theorem C16_children_log : forall typed asrt fu n xs s,
  let h := heap_of s in
  Inv h -> n < length h -> NoDup xs ->
  (forall x, In x xs -> x < length h /\ x <> n /\ ~ In x (ancestors_of h n)) ->
  log (snd (set_children typed asrt no_faults (S fu) n (CList (map VNode xs)) s))
  = log s ++ fst (log_set_children h n xs).
Proof.
  intros typed asrt fu n xs s h I Hn ND B.
  rewrite (MutSetRun.set_children_run typed asrt fu n xs s I Hn ND B). reflexivity.
Qed.
Print Assumptions C16_children_log.

(** every parent change that actually happens is reported by the hooks: for
    every call (the three assignments and the constructors), any arguments, any
    hook-fault oracle, both assertion settings and any re-entrancy fuel -
    refused, aborted and rolled-back calls included - the final link state is
    the initial one changed exactly as the logged _post_detach / _post_attach
    invocations say *)
Theorem C16_log_explains_state : forall typed asrt faults fuel o h,
  let s' := snd (run_op typed asrt faults fuel o (start h)) in
  heap_of s' = AT.Proofs.MutReplay.replay (AT.Proofs.MutReplay.initial_of o h) (log s').
Proof. exact AT.Proofs.MutReplay.log_explains_state. Qed.
Print Assumptions C16_log_explains_state.

(** hooks that are not mere observers: the hooks of the moving node may detach
    other nodes while the setter runs.  As long as they never detach the moving
    node itself, a parent assignment that is a real change keeps the forest
    consistent, is refused without any effect or performs the move (the node ends
    up as the last child of its new parent), and each hook observes exactly the
    state the protocol promises (_pre_detach: still a child of old;
    _post_detach/_pre_attach: a root in no children list; _post_attach: last
    child of new) *)
Theorem C16_reentrant_hooks : forall acts L n,
  (forall i k, ~ In n (acts i k n)) -> (forall i k x, In x (acts i k n) -> x < L) ->
  forall v s, AT.Proofs.MutInv.IL L (heap_of s) -> n < L -> match v with Some q => q < L | None => True end ->
  parent (heap_of s) n <> v ->
  let r := AT.Model.Reentry.set_parent_r acts n v s in
  AT.Proofs.MutInv.IL L (heap_of (snd r)) /\
  (fst r = Ok tt -> parent (heap_of (snd r)) n = v /\
                    match v with Some q => exists l, children (heap_of (snd r)) q = l ++ [n] | None => True end) /\
  (fst r <> Ok tt -> snd r = s) /\
  (exists evs, log (snd r) = log s ++ evs /\ Forall (AT.Proofs.ReentryProofs.event_ok n) evs).
Proof. exact AT.Proofs.ReentryProofs.set_parent_r_ok. Qed.
Print Assumptions C16_reentrant_hooks.
(** with hooks that do nothing this is the parent setter of the main model *)
Theorem C16_reentrant_plain : forall typed n v s,
  AT.Model.Reentry.set_parent_r AT.Model.Reentry.no_acts n v s
  = set_parent typed false no_faults n (AT.Proofs.MutParent.opt_value v) s.
Proof. exact AT.Proofs.ReentryProofs.set_parent_r_plain. Qed.
Print Assumptions C16_reentrant_plain.

(** non-vacuity: _pre_attach of node 2 detaches node 1 from the new parent 0 *)
Example C16_reentrant_example :
  let h := attach_links (init 3) 1 0 in
  let acts := fun (_ : nat) (k : hookkind) (_ : id) => match k with PreAttach => [1] | _ => [] end in
  let r := AT.Model.Reentry.set_parent_r acts 2 (Some 0) (start h) in
  fst r = Ok tt /\ children (heap_of (snd r)) 0 = [2] /\ parent (heap_of (snd r)) 1 = None /\ inv_b (heap_of (snd r)) = true.
Proof. vm_compute. repeat split. Qed.

Example C16_example :
  let h := attach_links (init 3) 1 0 in
  Inv h /\
  log_set_parent h 1 (Some 2) =
    [Ev PreDetach 1 [0] h; Ev PostDetach 1 [0] (init 3);
     Ev PreAttach 1 [2] (init 3); Ev PostAttach 1 [2] (attach_links (init 3) 1 2)] /\
  fst (log_set_children h 0 [2; 1]) =
    [Ev PreDetachChildren 0 [1] h; Ev PreDetach 1 [0] h; Ev PostDetach 1 [0] (init 3);
     Ev PostDetachChildren 0 [1] (init 3); Ev PreAttachChildren 0 [2; 1] (init 3);
     Ev PreAttach 2 [0] (init 3); Ev PostAttach 2 [0] (attach_links (init 3) 2 0);
     Ev PreAttach 1 [0] (attach_links (init 3) 2 0);
     Ev PostAttach 1 [0] (attach_links (attach_links (init 3) 2 0) 1 0);
     Ev PostAttachChildren 0 [2; 1] (attach_links (attach_links (init 3) 2 0) 1 0)].
Proof.
  cbv zeta. split; [apply AT.Proofs.MutHistory.inv_b_sound; vm_compute; reflexivity|].
  split; vm_compute; reflexivity.
Qed.
