(** C12 - DOT export declares exactly the admitted nodes and only edges
    between them.  The edge clause is FALSE of the faithful model when a stop
    predicate is used (known finding KF-C12-1, pinned by the repository's own
    reference files); proved: the exact guard, and everything else.
    Only statements; proofs are [exact <lemma>] or computations. *)
Require Import AT.Model.Base AT.Model.Rose AT.Model.Iter AT.Model.Graph AT.Spec.IterSpec AT.Spec.GraphSpec.
Require AT.Proofs.GraphProofs AT.Proofs.IterPre AT.Generated.Extracted AT.Proofs.Digits.
Import AT.Proofs.GraphProofs.

(** one node statement per admitted node that passes filter_, in pre-order
    (admitted exactly as for the iterators: C06) *)
Theorem C12_nodes : forall f stop ml t,
  dot_nodes f stop ml t = filter f (flat_map preorder (prune stop ml 0 t)).
Proof. exact IterPre.pre_spec. Qed.
Print Assumptions C12_nodes.

(** one edge statement for every parent-child pair whose two ends are both
    admitted and pass filter_ ([edges_ann]: the pointwise reading), in the
    pre-order of the parents - PROVIDED no declared parent below the edge
    iterator's maxlevel has a child satisfying both stop and filter_ *)
Theorem C12_edges_guarded : forall f stop ml t,
  Forall (clean f stop) (pre_nodes f stop (edge_ml ml) t) ->
  dot_edges f stop ml t = edges_ann f stop ml 0 true t.
Proof. exact dot_edges_guarded. Qed.
Print Assumptions C12_edges_guarded.

(** in particular every export without a stop predicate, for every filter_
    and every maxlevel (0 and negative included, after the D8 repair) *)
Theorem C12_edges_no_stop : forall f ml t,
  dot_edges f (fun _ => false) ml t = edges_ann f (fun _ => false) ml 0 true t.
Proof. exact dot_edges_no_stop. Qed.
Print Assumptions C12_edges_no_stop.

(** what DotExporter draws, exactly, for EVERY filter_, stop and maxlevel: the
    pairs whose parent is admitted and filtered and whose child is below
    maxlevel and filtered - the child's stop is not consulted ([edges_dot]) *)
Theorem C12_edges_exact : forall f stop ml t, dot_edges f stop ml t = edges_dot f stop ml 0 true t.
Proof. exact dot_edges_exact. Qed.
Print Assumptions C12_edges_exact.
(** so no admitted link is ever missing (unguarded) *)
Theorem C12_no_link_missing : forall f stop ml t e,
  In e (edges_ann f stop ml 0 true t) -> In e (dot_edges f stop ml t).
Proof. exact dot_no_link_missing. Qed.
Print Assumptions C12_no_link_missing.

(** the full edge clause, kept visible *)
Definition C12_edges_full : Prop :=
  forall f stop ml t, dot_edges f stop ml t = edges_ann f stop ml 0 true t.
(** ... is false: an edge to a stopped child names a node that is never declared *)
Theorem C12_stop_refuted : exists f stop ml t,
  dot_edges f stop ml t <> edges_ann f stop ml 0 true t /\
  exists e, In e (dot_edges f stop ml t) /\ ~ In (snd e) (dot_nodes f stop ml t).
Proof.
  exists (fun _ => true), (fun n => Nat.eqb n 1), None, (T 0 [T 1 []]).
  split; [vm_compute; discriminate|]. exists (0, 1). vm_compute. split; [auto|]. intros [H|[]]. discriminate H.
Qed.
Print Assumptions C12_stop_refuted.

(** identifiers are double-quoted strings in which every double quote and
    backslash of the name is backslash-escaped (the character class and the
    replacement are the ones extracted from /repo on this run): the name is
    recoverable, distinct names stay distinct, and the closing quote is the only
    unescaped one *)
Theorem C12_esc_roundtrip : forall s, unesc_with 92%N (dot_esc s) = s.
Proof. intros s. exact (esc_roundtrip Extracted.dot_esc_class 92%N s eq_refl). Qed.
Print Assumptions C12_esc_roundtrip.
Theorem C12_esc_injective : forall a b, dot_esc a = dot_esc b -> a = b.
Proof. intros a b. exact (esc_injective Extracted.dot_esc_class 92%N a b eq_refl). Qed.
Print Assumptions C12_esc_injective.
Theorem C12_esc_wellformed : forall s, bare_free 92%N 34%N (dot_esc s) = true.
Proof. intros s. exact (esc_wellformed Extracted.dot_esc_class 92%N 34%N s eq_refl eq_refl). Qed.
Print Assumptions C12_esc_wellformed.

(** UniqueDotExporter: the per-exporter table gives every named node an
    identifier, keeps it (node statement, every edge, every later iteration)
    and never gives two nodes the same one *)
Theorem C12_unique_ids_defined : forall uses tb n, In n uses -> exists v, tbl_find (tbl_after tb uses) n = Some v.
Proof. exact tbl_after_defined. Qed.
Print Assumptions C12_unique_ids_defined.
Theorem C12_unique_ids_stable : forall uses tb m v, tbl_find tb m = Some v -> tbl_find (tbl_after tb uses) m = Some v.
Proof. exact tbl_after_stable. Qed.
Print Assumptions C12_unique_ids_stable.
Theorem C12_unique_ids_injective : forall uses a b v,
  tbl_find (tbl_after [] uses) a = Some v -> tbl_find (tbl_after [] uses) b = Some v -> a = b.
Proof.
  intros uses a b v. apply tbl_injective. apply tbl_after_ok. split; [reflexivity|constructor].
Qed.
Print Assumptions C12_unique_ids_injective.

(** the printed identifier "0x" + hex digits determines the counter value, so
    two declared nodes never share a printed default identifier *)
Theorem C12_hex_injective : forall a b, hex a = hex b -> a = b.
Proof. exact AT.Proofs.Digits.hex_injective. Qed.
Print Assumptions C12_hex_injective.
Theorem C12_unique_names_distinct : forall uses m n v w,
  tbl_find (tbl_after [] uses) m = Some v -> tbl_find (tbl_after [] uses) n = Some w ->
  tbl_name hex (tbl_after [] uses) m = tbl_name hex (tbl_after [] uses) n -> m = n.
Proof.
  intros uses m n v w. apply (AT.Proofs.Digits.names_distinct hex AT.Proofs.Digits.hex_injective).
  intros a b x. apply C12_unique_ids_injective.
Qed.
Print Assumptions C12_unique_names_distinct.

(** results of the attribute / edge-type functions, the options, indent and
    graph/name settings appear verbatim at their places (by the shape of the
    line functions) *)
Theorem C12_verbatim : forall indent name nattr eattr etype n c graph gname,
  dot_node_line indent name nattr n
    = spaces indent ++ [34%N] ++ dot_esc (name n) ++ [34%N] ++ attr_suffix (nattr n) ++ [59%N] /\
  dot_edge_line indent name eattr etype n c
    = spaces indent ++ [34%N] ++ dot_esc (name n) ++ [34%N] ++ [32%N] ++ etype n c ++ [32%N]
      ++ [34%N] ++ dot_esc (name c) ++ [34%N] ++ attr_suffix (eattr n c) ++ [59%N] /\
  dot_header graph gname = graph ++ [32%N] ++ gname ++ [32; 123]%N.
Proof. intros. repeat split. Qed.
Print Assumptions C12_verbatim.

Example C12_example :
  let t := T 0 [T 1 [T 2 []]; T 3 []] in
  dot_nodes (fun n => negb (Nat.eqb n 3)) (fun _ => false) (Some 2%Z) t = [0; 1] /\
  dot_edges (fun n => negb (Nat.eqb n 3)) (fun _ => false) (Some 2%Z) t = [(0, 1)] /\
  dot_esc [97; 34; 92]%N = [97; 92; 34; 92; 92]%N.
Proof. vm_compute. repeat split. Qed.
