(** C04 - Navigation attributes and sibling/ancestor helpers equal their
    definitions.  A node is (root tree, position).  Only statements. *)
Require Import AT.Model.Base AT.Model.Rose AT.Model.Iter AT.Model.Nav AT.Spec.IterSpec AT.Spec.NavSpec.
Require AT.Proofs.NavProofs.
Import AT.Proofs.NavProofs.

(** path is the chain from the root down to the node (the upward walk never
    runs out of its fuel) *)
Theorem C04_path : forall t p, path t p = Ok (map (label_at t) (prefixes p)).
Proof. exact path_ok. Qed.
Print Assumptions C04_path.
(** ancestors is path without the node *)
Theorem C04_ancestors : forall t p, ancestors t p = Ok (removelast (map (label_at t) (prefixes p))).
Proof. exact ancestors_ok. Qed.
Print Assumptions C04_ancestors.
(** root is path[0] *)
Theorem C04_root : forall t p, root t p = Ok (label t).
Proof. exact root_ok. Qed.
Print Assumptions C04_root.
(** depth is len(ancestors) *)
Theorem C04_depth : forall p, depth p = Ok (length p).
Proof. exact depth_ok. Qed.
Print Assumptions C04_depth.
Theorem C04_is_root : forall p, is_root p = match p with [] => true | _ => false end.
Proof. exact is_root_ok. Qed.
Print Assumptions C04_is_root.
Theorem C04_is_leaf : forall s, is_leaf_t s = match kids s with [] => true | _ => false end.
Proof. exact is_leaf_ok. Qed.
Print Assumptions C04_is_leaf.
(** siblings are the parent's other children in order *)
Theorem C04_siblings : forall t p, valid t p -> siblings t p = siblings_spec t p.
Proof. exact siblings_ok. Qed.
Print Assumptions C04_siblings.
(** descendants are all nodes below in pre-order; size is 1 + len(descendants) *)
Theorem C04_descendants : forall s, descendants s = tl (preorder s).
Proof. exact descendants_ok. Qed.
Print Assumptions C04_descendants.
Theorem C04_size : forall s, size s = S (length (tl (preorder s))).
Proof. exact size_ok. Qed.
Print Assumptions C04_size.
(** leaves are the childless nodes of the subtree in pre-order *)
Theorem C04_leaves : forall s, leaves s = leaves_spec s.
Proof. exact leaves_ok. Qed.
Print Assumptions C04_leaves.
(** height is the number of edges on the longest downward path *)
Theorem C04_height : forall s, height s = theight s.
Proof. exact height_ok. Qed.
Print Assumptions C04_height.
(** leftsibling / rightsibling: the neighbouring child of the same parent or None *)
Theorem C04_leftsibling : forall t p, valid t p -> leftsibling t p = leftsibling_spec t p.
Proof. exact leftsibling_ok. Qed.
Print Assumptions C04_leftsibling.
Theorem C04_rightsibling : forall t p, valid t p -> rightsibling t p = rightsibling_spec t p.
Proof. exact rightsibling_ok. Qed.
Print Assumptions C04_rightsibling.

(** Not yet proved in Coq (kept visible): util.commonancestors = the prefixes
    of the longest common prefix of the parents' positions.  Decided on every
    explored argument list by evaluating this specification on the observed
    result. *)
Definition C04_commonancestors_full : Prop :=
  forall t ps, Forall (valid t) ps -> commonancestors t ps = Ok (commonancestors_spec t ps).

Example C04_example :
  let t := T 0 [T 1 [T 2 []; T 3 []]; T 4 [T 5 []]] in
  valid t [0; 1] /\ path t [0; 1] = Ok [0; 1; 3] /\ siblings t [0; 1] = [2] /\
  leaves t = [2; 3; 5] /\ height t = 2 /\ leftsibling t [0; 1] = Some 2 /\ rightsibling t [0; 1] = None /\
  commonancestors t [[0; 0]; [0; 1]; [0]] = Ok [0].
Proof. cbv zeta. split; [discriminate|]. vm_compute. repeat split. Qed.
