(** C04 - Navigation attributes and sibling/ancestor helpers equal their
    definitions.  A node is (root tree, position).  Only statements. *)
Require Import AT.Model.Base AT.Model.Rose AT.Model.Iter AT.Model.Nav AT.Spec.IterSpec AT.Spec.NavSpec.
Require AT.Proofs.NavProofs AT.Proofs.CommonAnc AT.Proofs.AbsProofs AT.Model.Abs AT.Model.Heap AT.Spec.MutSpec.
Import AT.Proofs.NavProofs.
Require AT.Proofs.AbsConverse.

(** path is the chain from the root down to the node (the upward walk never
    runs out of its fuel) *)
Theorem C04_path : forall t p, path t p = Ok (map (label_at t) (prefixes p)).
Proof. exact path_ok. Qed.
Print Assumptions C04_path.
(** ancestors is path without the node *)
Theorem C04_ancestors : forall t p, ancestors t p = Ok (removelast (map (label_at t) (prefixes p))).
Proof. exact ancestors_ok. Qed.
Print Assumptions C04_ancestors.
(** root is path[0] *)
Theorem C04_root : forall t p, root t p = Ok (label t).
Proof. exact root_ok. Qed.
Print Assumptions C04_root.
(** depth is len(ancestors) *)
Theorem C04_depth : forall p, depth p = Ok (length p).
Proof. exact depth_ok. Qed.
Print Assumptions C04_depth.
Theorem C04_is_root : forall p, is_root p = match p with [] => true | _ => false end.
Proof. exact is_root_ok. Qed.
Print Assumptions C04_is_root.
Theorem C04_is_leaf : forall s, is_leaf_t s = match kids s with [] => true | _ => false end.
Proof. exact is_leaf_ok. Qed.
Print Assumptions C04_is_leaf.
(** siblings are the parent's other children in order *)
Theorem C04_siblings : forall t p, valid t p -> siblings t p = siblings_spec t p.
Proof. exact siblings_ok. Qed.
Print Assumptions C04_siblings.
(** descendants are all nodes below in pre-order; size is 1 + len(descendants) *)
Theorem C04_descendants : forall s, descendants s = tl (preorder s).
Proof. exact descendants_ok. Qed.
Print Assumptions C04_descendants.
Theorem C04_size : forall s, size s = S (length (tl (preorder s))).
Proof. exact size_ok. Qed.
Print Assumptions C04_size.
(** leaves are the childless nodes of the subtree in pre-order *)
Theorem C04_leaves : forall s, leaves s = leaves_spec s.
Proof. exact leaves_ok. Qed.
Print Assumptions C04_leaves.
(** height is the number of edges on the longest downward path *)
Theorem C04_height : forall s, height s = theight s.
Proof. exact height_ok. Qed.
Print Assumptions C04_height.
(** leftsibling / rightsibling: the neighbouring child of the same parent or None *)
Theorem C04_leftsibling : forall t p, valid t p -> leftsibling t p = leftsibling_spec t p.
Proof. exact leftsibling_ok. Qed.
Print Assumptions C04_leftsibling.
Theorem C04_rightsibling : forall t p, valid t p -> rightsibling t p = rightsibling_spec t p.
Proof. exact rightsibling_ok. Qed.
Print Assumptions C04_rightsibling.

(** util.commonancestors( *nodes ): the prefixes of the longest common prefix of
    the given nodes' parent positions - i.e. the longest common prefix of their
    ancestor chains - for any number of arguments (none: empty; a root among
    them: empty) *)
Theorem C04_commonancestors : forall t ps, commonancestors t ps = Ok (commonancestors_spec t ps).
Proof. exact AT.Proofs.CommonAnc.commonancestors_ok. Qed.
Print Assumptions C04_commonancestors.

(** "All values are computed from the current links, so they are correct
    immediately after any mutation": under the C01 invariant (which every
    mutation history preserves, C01_history) the tree the queries are stated
    over IS the unfolding of the link heap: its positions are the downward
    paths of the heap, node.children / node.parent of a position are the
    heap's children / parent of the node it stands for *)
Theorem C04_tree_of_heap : forall h, AT.Spec.MutSpec.Inv h -> forall n,
  AT.Model.Abs.tree_of h n = T n (map (AT.Model.Abs.tree_of h) (AT.Model.Heap.children h n)).
Proof. exact AT.Proofs.AbsProofs.tree_of_unfold. Qed.
Print Assumptions C04_tree_of_heap.
Theorem C04_children_agree : forall h, AT.Spec.MutSpec.Inv h -> forall r p m,
  AT.Proofs.AbsProofs.node_at h r p = Some m ->
  map label (kids (sub (AT.Model.Abs.tree_of h r) p)) = AT.Model.Heap.children h m /\
  label_at (AT.Model.Abs.tree_of h r) p = m.
Proof.
  intros h I r p m E. split; [apply AT.Proofs.AbsProofs.children_agree; auto|apply AT.Proofs.AbsProofs.label_at_tree_of; auto].
Qed.
Print Assumptions C04_children_agree.
Theorem C04_parent_agree : forall h, AT.Spec.MutSpec.Inv h -> forall r p i m,
  AT.Proofs.AbsProofs.node_at h r (p ++ [i]) = Some m ->
  exists q, AT.Proofs.AbsProofs.node_at h r p = Some q /\ AT.Model.Heap.parent h m = Some q.
Proof. exact AT.Proofs.AbsProofs.parent_agree. Qed.
Print Assumptions C04_parent_agree.

(** the converse bridge: whenever the children lists below a node spell out a
    tree t - every node of t has, in the link state, exactly the labels of its
    children in t, in order - the unfolding returns t itself (no consistency
    assumption needed).  This is the premise the correspondence harnesses check
    on the live objects before the read-only queries run (the snapshot of the
    links equals the links of the requested tree), so the trees of C04-C09,
    C14, C15 are the unfoldings of the link states of C01-C03 *)
Theorem C04_unfolding_of_spelled_links : forall (h : AT.Model.Heap.heap) t,
  theight t <= length h -> AT.Proofs.AbsConverse.spells h t ->
  AT.Model.Abs.tree_of h (label t) = t.
Proof. exact AT.Proofs.AbsConverse.tree_of_spelled. Qed.
Print Assumptions C04_unfolding_of_spelled_links.

Example C04_spelled_example :
  let h := AT.Model.Heap.attach_links (AT.Model.Heap.attach_links (AT.Model.Heap.attach_links (AT.Model.Heap.init 4) 1 0) 3 0) 2 1 in
  AT.Model.Abs.tree_of h 0 = T 0 [T 1 [T 2 []]; T 3 []].
Proof. vm_compute. reflexivity. Qed.

Example C04_example :
  let t := T 0 [T 1 [T 2 []; T 3 []]; T 4 [T 5 []]] in
  valid t [0; 1] /\ path t [0; 1] = Ok [0; 1; 3] /\ siblings t [0; 1] = [2] /\
  leaves t = [2; 3; 5] /\ height t = 2 /\ leftsibling t [0; 1] = Some 2 /\ rightsibling t [0; 1] = None /\
  commonancestors t [[0; 0]; [0; 1]; [0]] = Ok [0].
Proof. cbv zeta. split; [discriminate|]. vm_compute. repeat split. Qed.
