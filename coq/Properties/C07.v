(** C07 - Resolver.get returns the node a path denotes and fails cleanly when
    none exists.  Nodes are (root tree, position); [nm] gives
    str(getattr(node, pathattr, None)).  Only statements. *)
Require Import AT.Model.Base AT.Model.Rose AT.Model.Nav AT.Model.Resolver AT.Spec.ResolverSpec.
Require AT.Proofs.ResolverProofs AT.Proofs.SplitJoin AT.Model.Render.
Import AT.Proofs.ResolverProofs.

(** strict mode follows the path component by component exactly as the
    statement words it ('..' parent, '' and '.' stay, otherwise the first child
    whose path attribute equals the component, case-insensitively if
    ignorecase), and fails at the FIRST impossible component with
    RootResolverError / ChildResolverError *)
Theorem C07_get_is_fold : forall nm ic t parts p,
  get_loop nm ic false t parts p =
  match follow_spec nm ic t parts p with inl q => Ok (Some q) | inr e => Err e end.
Proof. exact get_loop_fold. Qed.
Print Assumptions C07_get_is_fold.

(** relax=True returns None in exactly the cases where strict mode raises, the
    same node otherwise, and never raises (true of the repaired code: fix
    e36f5bb; before it the statement was refuted by get(top, "sub2/foo/bar")) *)
Theorem C07_relax : forall nm ic t parts p,
  get_loop nm ic true t parts p =
  match get_loop nm ic false t parts p with Ok r => Ok r | Err _ => Ok None | OutOfFuel => OutOfFuel end.
Proof. exact get_loop_relax. Qed.
Print Assumptions C07_relax.
Theorem C07_strict_node_or_error : forall nm ic t parts p,
  (exists q, get_loop nm ic false t parts p = Ok (Some q)) \/ (exists e, get_loop nm ic false t parts p = Err e).
Proof. exact get_loop_strict_shape. Qed.
Print Assumptions C07_strict_node_or_error.
(** the same for the root component of an absolute path: missing / unknown
    root is a ResolverError in strict mode and None in relaxed mode *)
Theorem C07_start_relax : forall nm sep t cmp_ p path,
  start_ nm true sep t cmp_ p path =
  match start_ nm false sep t cmp_ p path with
  | Ok r => Ok r | Err OtherError => Err OtherError | Err _ => Ok None | OutOfFuel => OutOfFuel end.
Proof. exact start_relax. Qed.
Print Assumptions C07_start_relax.

(** in a tree whose sibling names on the way are unique (under the resolver's
    comparison) and are ordinary names, the names from a node [q] down to
    [q ++ pi] resolve to that node ... *)
Theorem C07_down_roundtrip : forall nm ic t pi q, path_ok nm ic t q pi ->
  get_loop nm ic false t (down_names nm t q pi) q = Ok (Some (q ++ pi)).
Proof. exact down_roundtrip. Qed.
Print Assumptions C07_down_roundtrip.
(** ... and the relative path spelled from Walker.walk(m, n) - |upwards| times
    '..', then the names of downwards - resolves to n from m, for every m, n *)
Theorem C07_rel_roundtrip : forall nm ic t c u d, path_ok nm ic t c d ->
  get_loop nm ic false t (repeat s_dotdot (length u) ++ down_names nm t c d) (c ++ u) = Ok (Some (c ++ d)).
Proof. exact rel_roundtrip. Qed.
Print Assumptions C07_rel_roundtrip.

(** the string level: splitting the joined text at the (non-empty, possibly
    multi-character) separator gives the components back, provided no
    occurrence of the separator starts inside a component ([clean]; its failure
    is exactly the path-syntax collision class of known finding KF-C07-2) *)
Theorem C07_split_join : forall sep parts, sep <> [] -> parts <> [] -> AT.Proofs.SplitJoin.clean sep parts ->
  split sep (AT.Model.Render.join sep parts) = parts.
Proof. exact AT.Proofs.SplitJoin.split_join. Qed.
Print Assumptions C07_split_join.
(** hence get(m, absolute path of n) is n, from every start node m *)
Theorem C07_abs_roundtrip : forall nm ic sep t m pi,
  sep <> [] -> name_at nm t [] <> [] ->
  AT.Proofs.SplitJoin.clean sep (name_at nm t [] :: down_names nm t [] pi) ->
  path_ok nm ic t [] pi ->
  get nm ic false sep t m (sep ++ AT.Model.Render.join sep (name_at nm t [] :: down_names nm t [] pi)) = Ok (Some pi).
Proof. exact AT.Proofs.SplitJoin.abs_roundtrip. Qed.
Print Assumptions C07_abs_roundtrip.

Example C07_example :
  let t := T 0 [T 1 [T 3 []]; T 2 []] in
  let nm := fun n : id => nth n [[114]; [97]; [98]; [99]]%N [] in
  get nm false false [47]%N t [1] [47; 114; 47; 97; 47; 99]%N = Ok (Some [0; 0]) /\
  get nm false false [47]%N t [0; 0] [46; 46; 47; 46; 46; 47; 98]%N = Ok (Some [1]) /\
  get nm false false [47]%N t [] [97; 47; 120; 47; 121]%N = Err ChildResolverError /\
  get nm false true [47]%N t [] [97; 47; 120; 47; 121]%N = Ok None /\
  get nm true false [47]%N t [] [46; 46]%N = Err RootResolverError.
Proof. vm_compute. repeat split. Qed.
