(** C06 - filter_, stop and maxlevel restrict all iterators in the same,
    compositional way.  Only statements; proofs are [exact <lemma>]. *)
Require Import AT.Model.Base AT.Model.Rose AT.Model.Iter AT.Spec.IterSpec.
Require AT.Proofs.IterPre AT.Proofs.IterPost AT.Proofs.IterLevel AT.Proofs.IterC05 AT.Proofs.IterOrder.
Require AT.Model.Heap AT.Model.Abs AT.Spec.MutSpec AT.Proofs.ForestCover.
From Coq Require Import Permutation.
Local Open Scope Z_scope.

(** Each iterator = its unrestricted order on the tree of ADMITTED nodes
    ([prune]: depth below maxlevel, no stop on the way down, start node
    included), then filtered by filter_ - for every tree, filter_, stop and
    maxlevel (negative, zero and beyond the height included). *)
Theorem C06_pre : forall f stop ml t,
  PreOrderIter f stop ml t = filter f (flat_map preorder (prune stop ml 0 t)).
Proof. exact IterPre.pre_spec. Qed.
Print Assumptions C06_pre.

Theorem C06_post : forall f stop ml t,
  PostOrderIter f stop ml t = filter f (flat_map postorder (prune stop ml 0 t)).
Proof. exact IterPost.post_spec. Qed.
Print Assumptions C06_post.

(** the grouped iterators yield one (possibly empty) tuple per admitted level;
    the loops never run out of the fuel [height + 2] *)
Theorem C06_group : forall f stop ml t,
  LevelOrderGroupIter f stop ml t = Ok (map (filter f) (levels_forest (prune stop ml 0 t))).
Proof. exact IterLevel.group_spec. Qed.
Print Assumptions C06_group.

Theorem C06_level : forall f stop ml t,
  LevelOrderIter f stop ml t = Ok (concat (map (filter f) (levels_forest (prune stop ml 0 t)))).
Proof. exact IterLevel.level_spec. Qed.
Print Assumptions C06_level.

Theorem C06_zigzag : forall f stop ml t,
  ZigZagGroupIter f stop ml t
  = Ok (zigzag_spec false (map (filter f) (levels_forest (prune stop ml 0 t)))).
Proof. exact IterLevel.zigzag_spec_thm. Qed.
Print Assumptions C06_zigzag.

(** [prune] is exactly the admitted set of the statement, in the order of the
    unrestricted pre-order: a node is kept iff its relative depth is below
    maxlevel and no node on the path from the start node down to and including
    itself satisfies stop (so stop prunes the whole subtree, filter_ - applied
    afterwards - hides only the node, and the start node is subject to both) *)
Theorem C06_admitted : forall stop ml t,
  flat_map preorder (prune stop ml 0 t) = map fst (filter snd (annotate stop ml 0 true t)).
Proof. exact IterC05.admitted_characterisation. Qed.
Print Assumptions C06_admitted.

Theorem C06_annotate_is_preorder : forall stop ml t d ok,
  map fst (annotate stop ml d ok t) = preorder t.
Proof. intros stop ml t d ok. exact (IterC05.annotate_preorder stop ml t d ok). Qed.
Print Assumptions C06_annotate_is_preorder.

(** "in the order of its unrestricted traversal": with distinct node identities
    the admitted nodes come, for each of the three orders, as that order of the
    WHOLE tree filtered by admittedness *)
Theorem C06_order_pre : forall stop ml t, NoDup (preorder t) ->
  flat_map preorder (prune stop ml 0 t) = filter (mem (IterOrder.admitted stop ml t)) (preorder t).
Proof. exact IterOrder.order_pre. Qed.
Print Assumptions C06_order_pre.
Theorem C06_order_post : forall stop ml t, NoDup (preorder t) ->
  flat_map postorder (prune stop ml 0 t) = filter (mem (IterOrder.admitted stop ml t)) (postorder t).
Proof. exact IterOrder.order_post. Qed.
Print Assumptions C06_order_post.
Theorem C06_order_level : forall stop ml t, NoDup (preorder t) ->
  concat (levels_forest (prune stop ml 0 t)) = filter (mem (IterOrder.admitted stop ml t)) (levelorder t).
Proof. exact IterOrder.order_level. Qed.
Print Assumptions C06_order_level.

(** the hypothesis is met by every tree the library can produce: for the
    unfolding below any node of any consistent link state (C01) the three
    relative-order statements hold outright *)
Theorem C06_order_on_every_forest : forall h, AT.Spec.MutSpec.Inv h -> forall r stop ml,
  let t := AT.Model.Abs.tree_of h r in
  flat_map preorder (prune stop ml 0 t) = filter (mem (IterOrder.admitted stop ml t)) (preorder t) /\
  flat_map postorder (prune stop ml 0 t) = filter (mem (IterOrder.admitted stop ml t)) (postorder t) /\
  concat (levels_forest (prune stop ml 0 t)) = filter (mem (IterOrder.admitted stop ml t)) (levelorder t).
Proof.
  intros h I r stop ml t. pose proof (AT.Proofs.ForestCover.tree_of_nodup h I r) as N. split; [|split].
  - exact (IterOrder.order_pre stop ml t N).
  - exact (IterOrder.order_post stop ml t N).
  - exact (IterOrder.order_level stop ml t N).
Qed.
Print Assumptions C06_order_on_every_forest.

(** all five visit the same nodes (as multisets) *)
Theorem C06_same_set : forall f stop ml t,
  Permutation (spec_post f stop ml t) (spec_pre f stop ml t) /\
  Permutation (spec_level f stop ml t) (spec_pre f stop ml t) /\
  Permutation (concat (spec_zigzag f stop ml t)) (spec_pre f stop ml t).
Proof. exact IterC05.same_set. Qed.
Print Assumptions C06_same_set.

(** maxlevel <= 0 yields nothing (and no group at all) *)
Theorem C06_maxlevel_nonpositive : forall f stop m t, m <= 0 ->
  spec_pre f stop (Some m) t = [] /\ spec_post f stop (Some m) t = [] /\
  spec_level f stop (Some m) t = [] /\ spec_groups f stop (Some m) t = [] /\
  spec_zigzag f stop (Some m) t = [].
Proof. exact IterC05.maxlevel_nonpositive. Qed.
Print Assumptions C06_maxlevel_nonpositive.

(** non-vacuity: stop prunes a subtree, filter hides one node, maxlevel cuts *)
Example C06_example :
  let t := T 0%nat [T 1%nat [T 2%nat []; T 3%nat []]; T 4%nat [T 5%nat []]] in
  PreOrderIter (fun n => negb (Nat.eqb n 4)) (fun n => Nat.eqb n 1) None t = [0; 5]%nat /\
  PostOrderIter (fun _ => true) (fun _ => false) (Some 2) t = [1; 4; 0]%nat /\
  LevelOrderGroupIter (fun n => Nat.eqb n 9) (fun _ => false) (Some 2) t = Ok [[]; []] /\
  ZigZagGroupIter (fun _ => true) (fun _ => false) None t = Ok [[0]; [4; 1]; [2; 3; 5]]%nat.
Proof. vm_compute. repeat split. Qed.
