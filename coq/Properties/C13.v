(** C13 - Mermaid export declares exactly the admitted nodes and only edges
    between them.  Only statements. *)
Require Import AT.Model.Base AT.Model.Rose AT.Model.Iter AT.Model.Graph AT.Spec.IterSpec AT.Spec.GraphSpec.
Require AT.Proofs.GraphProofs AT.Proofs.IterPre AT.Generated.Extracted AT.Proofs.Digits.
Import AT.Proofs.GraphProofs.

(** one node line per admitted node that passes filter_, in pre-order *)
Theorem C13_nodes : forall f stop ml t,
  PreOrderIter f stop ml t = filter f (flat_map preorder (prune stop ml 0 t)).
Proof. exact IterPre.pre_spec. Qed.
Print Assumptions C13_nodes.

(** one edge line for every parent-child pair whose two ends are both admitted
    and pass filter_ - for every filter_, stop and maxlevel (0 and negative
    included, after the D8 repair): no edge refers to an undeclared node and no
    admitted link is missing *)
Theorem C13_edges : forall f stop ml t,
  mermaid_edges f stop ml t = edges_ann f stop ml 0 true t.
Proof. exact mermaid_edges_exact. Qed.
Print Assumptions C13_edges.

(** the default label is the name with quotes and backslashes escaped *)
Theorem C13_esc_roundtrip : forall s, unesc_with 92%N (mermaid_esc s) = s.
Proof. intros s. exact (esc_roundtrip Extracted.mermaid_esc_class 92%N s eq_refl). Qed.
Print Assumptions C13_esc_roundtrip.
Theorem C13_esc_wellformed : forall s, bare_free 92%N 34%N (mermaid_esc s) = true.
Proof. intros s. exact (esc_wellformed Extracted.mermaid_esc_class 92%N 34%N s eq_refl eq_refl). Qed.
Print Assumptions C13_esc_wellformed.

(** default identifiers: distinct per node, stable within and across iterations *)
Theorem C13_ids_stable : forall uses tb m v, tbl_find tb m = Some v -> tbl_find (tbl_after tb uses) m = Some v.
Proof. exact tbl_after_stable. Qed.
Print Assumptions C13_ids_stable.
Theorem C13_ids_injective : forall uses a b v,
  tbl_find (tbl_after [] uses) a = Some v -> tbl_find (tbl_after [] uses) b = Some v -> a = b.
Proof.
  intros uses a b v. apply tbl_injective. apply tbl_after_ok. split; [reflexivity|constructor].
Qed.
Print Assumptions C13_ids_injective.

(** the printed identifier "N" + decimal digits determines the counter value:
    distinct declared nodes have distinct printed default identifiers *)
Theorem C13_names_distinct : forall uses m n v w,
  tbl_find (tbl_after [] uses) m = Some v -> tbl_find (tbl_after [] uses) n = Some w ->
  tbl_name (fun v => 78%N :: dec v) (tbl_after [] uses) m = tbl_name (fun v => 78%N :: dec v) (tbl_after [] uses) n -> m = n.
Proof.
  intros uses m n v w. apply (AT.Proofs.Digits.names_distinct (fun v => 78%N :: dec v) AT.Proofs.Digits.mermaid_id_injective).
  intros a b x. apply C13_ids_injective.
Qed.
Print Assumptions C13_names_distinct.

(** nodenamefunc / nodefunc / edgefunc results and indent appear verbatim *)
Theorem C13_verbatim : forall indent name ntext etext n c,
  mermaid_node_line indent name ntext n = spaces indent ++ name n ++ ntext n /\
  mermaid_edge_line indent name etext n c = spaces indent ++ name n ++ etext n c ++ name c.
Proof. intros. split; reflexivity. Qed.
Print Assumptions C13_verbatim.

Example C13_example :
  let t := T 0 [T 1 [T 2 []]; T 3 []] in
  mermaid_edges (fun _ => true) (fun n => Nat.eqb n 1) None t = [(0, 3)] /\
  mermaid_edges (fun _ => true) (fun _ => false) (Some 0%Z) t = [] /\
  fst (mermaid_default_lines (fun _ => true) (fun _ => false) (Some 2%Z) [103]%N [84]%N [] 0 (fun _ => [120; 34]%N) [] t)
    = [[103; 32; 84]; [78; 48; 91; 34; 120; 92; 34; 34; 93]; [78; 49; 91; 34; 120; 92; 34; 34; 93];
       [78; 50; 91; 34; 120; 92; 34; 34; 93]; [78; 48; 45; 45; 62; 78; 49]; [78; 48; 45; 45; 62; 78; 50]]%N.
Proof. vm_compute. repeat split. Qed.
