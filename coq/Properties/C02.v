(** C02 - Attach, move, detach and children assignment have exactly the
    specified effect.  Only statements; proofs are [exact <lemma>]. *)
Require Import AT.Model.Base AT.Model.Heap AT.Model.Mutate AT.Spec.MutSpec.
Require AT.Proofs.MutParent AT.Proofs.MutHistory AT.Proofs.MutDelRun.
Import AT.Proofs.MutParent.

(** [n.parent = v] (v a node or None), hooks not raising, from any point of
    any history (any state satisfying the C01 invariant, any hook counter and
    log so far): the call is refused with LoopError exactly when v is n or n
    is an ancestor of v (and v is not already n's parent); otherwise it
    succeeds and the final link state is the pointwise specification
    [eff_set_parent]: n leaves its former parent's list (the others keep their
    order), is appended last to v's list, n.parent = v, every other field of
    every node is unchanged - and nothing at all changes when v already is
    n's parent.  The hook log is the specified one (C16). *)
Theorem C02_parent : forall typed asrt n v s,
  let h := heap_of s in
  Inv h -> n < length h -> (match v with Some q => q < length h | None => True end) ->
  set_parent typed asrt no_faults n (opt_value v) s =
  if loop_refused h n v then (Err LoopError, s)
  else (Ok tt, st_after s (eff_set_parent h n v) (log_set_parent h n v)).
Proof. exact set_parent_run. Qed.
Print Assumptions C02_parent.

(** a non-node parent: TreeError for NodeMixin-based classes, nothing changed *)
Theorem C02_parent_non_node : forall asrt faults n s,
  set_parent true asrt faults n VOther s = (Err TreeError, s).
Proof. reflexivity. Qed.
Print Assumptions C02_parent_non_node.

(** the pointwise specification agrees with the two atomic link updates *)
Theorem C02_effect_is_detach_then_attach : forall h n p q,
  n < length h -> p < length h -> q < length h -> parent h n = Some p -> p <> q ->
  eff_set_parent h n (Some q) = attach_links (detach_links h n p) n q.
Proof. exact eff_move. Qed.
Print Assumptions C02_effect_is_detach_then_attach.

(** [del n.children], hooks not raising, from any consistent state: every
    child becomes a root (its parent is None), n has no children, every other
    field of every node is unchanged ([del_effect] is that pointwise
    description); the hook log is the specified one; the internal assertion
    holds *)
Theorem C02_del : forall typed asrt n s,
  let h := heap_of s in
  Inv h -> n < length h ->
  del_children typed asrt no_faults n s = (Ok tt, st_after s (del_effect h n) (fst (log_del_children h n))).
Proof. exact MutDelRun.del_children_run. Qed.
Print Assumptions C02_del.

(** Not yet proved in Coq (kept visible): the children assignment
    and constructor effects, and their refusal iff.  They are decided on every
    explored call by evaluating this very specification on the
    implementation's observed states (Corr/Mut.v, spec02). *)
Definition C02_children_full : Prop :=
  forall typed asrt o s, Inv (heap_of s) -> valid_op (length (heap_of s)) o ->
    fst (run_op typed asrt no_faults reentry_fuel o s)
      = (match must_refuse typed (heap_of s) o with Some e => Err e | None => Ok tt end) /\
    (must_refuse typed (heap_of s) o = None ->
     heap_of (snd (run_op typed asrt no_faults reentry_fuel o s)) = expected_heap typed (heap_of s) o).

Example C02_example :
  let h := attach_links (attach_links (attach_links (init 4) 1 0) 2 0) 3 1 in
  (* 0 -> (1 -> 3, 2): moving 1 under 2 gives 0 -> (2 -> (1 -> 3)); 0 may not go under 3 *)
  Inv h /\
  eff_set_parent h 1 (Some 2) =
    [ {| cparent := None; cchildren := [2] |}; {| cparent := Some 2; cchildren := [3] |};
      {| cparent := Some 0; cchildren := [1] |}; {| cparent := Some 1; cchildren := [] |} ] /\
  loop_refused h 0 (Some 3) = true.
Proof.
  cbv zeta. split; [apply AT.Proofs.MutHistory.inv_b_sound; vm_compute; reflexivity|].
  split; vm_compute; reflexivity.
Qed.
