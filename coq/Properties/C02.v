(** C02 - Attach, move, detach and children assignment have exactly the
    specified effect.  Only statements; proofs are [exact <lemma>]. *)
Require Import AT.Model.Base AT.Model.Heap AT.Model.Mutate AT.Spec.MutSpec.
Require AT.Proofs.MutParent AT.Proofs.MutHistory AT.Proofs.MutDelRun AT.Proofs.MutSetRun AT.Proofs.FaultExt.
Import AT.Proofs.MutParent.
Require AT.Model.Rose AT.Model.Abs AT.Spec.IterSpec AT.Proofs.FrameTree.

(** [n.parent = v] (v a node or None), hooks not raising, from any point of
    any history (any state satisfying the C01 invariant, any hook counter and
    log so far): the call is refused with LoopError exactly when v is n or n
    is an ancestor of v (and v is not already n's parent); otherwise it
    succeeds and the final link state is the pointwise specification
    [eff_set_parent]: n leaves its former parent's list (the others keep their
    order), is appended last to v's list, n.parent = v, every other field of
    every node is unchanged - and nothing at all changes when v already is
    n's parent.  The hook log is the specified one (C16). *)
Theorem C02_parent : forall typed asrt n v s,
  let h := heap_of s in
  Inv h -> n < length h -> (match v with Some q => q < length h | None => True end) ->
  set_parent typed asrt no_faults n (opt_value v) s =
  if loop_refused h n v then (Err LoopError, s)
  else (Ok tt, st_after s (eff_set_parent h n v) (log_set_parent h n v)).
Proof. exact set_parent_run. Qed.
Print Assumptions C02_parent.

(** a non-node parent: TreeError for NodeMixin-based classes, nothing changed *)
Theorem C02_parent_non_node : forall asrt faults n s,
  set_parent true asrt faults n VOther s = (Err TreeError, s).
Proof. reflexivity. Qed.
Print Assumptions C02_parent_non_node.

(** the pointwise specification agrees with the two atomic link updates *)
Theorem C02_effect_is_detach_then_attach : forall h n p q,
  n < length h -> p < length h -> q < length h -> parent h n = Some p -> p <> q ->
  eff_set_parent h n (Some q) = attach_links (detach_links h n p) n q.
Proof. exact eff_move. Qed.
Print Assumptions C02_effect_is_detach_then_attach.

(** [del n.children], hooks not raising, from any consistent state: every
    child becomes a root (its parent is None), n has no children, every other
    field of every node is unchanged ([del_effect] is that pointwise
    description); the hook log is the specified one; the internal assertion
    holds *)
Theorem C02_del : forall typed asrt n s,
  let h := heap_of s in
  Inv h -> n < length h ->
  del_children typed asrt no_faults n s = (Ok tt, st_after s (del_effect h n) (fst (log_del_children h n))).
Proof. exact MutDelRun.del_children_run. Qed.
Print Assumptions C02_del.

(** [n.children = xs] for distinct existing nodes none of which is n or an
    ancestor of n (i.e. a call that must not be refused), hooks not raising,
    from any consistent state and with any re-entrancy fuel >= 1: it succeeds,
    n.children is xs in that order, former children not in xs are roots, every
    x has left its former parent's list (the others keep their order) and has
    n as parent, every other field of every node - in particular everything
    below the moved nodes - is unchanged ([eff_set_children] is that pointwise
    description); the hook log is the specified one; the internal assertion
    holds *)
Theorem C02_children : forall typed asrt fu n xs s,
  let h := heap_of s in
  Inv h -> n < length h -> NoDup xs ->
  (forall x, In x xs -> x < length h /\ x <> n /\ ~ In x (ancestors_of h n)) ->
  set_children typed asrt no_faults (S fu) n (CList (map VNode xs)) s =
  (Ok tt, st_after s (eff_set_children h n xs) (fst (log_set_children h n xs))).
Proof. exact MutSetRun.set_children_run. Qed.
Print Assumptions C02_children.

(** refused with TreeError exactly when a child is listed twice or, for
    NodeMixin-based classes, an element is not a tree node - before anything is
    changed or any hook is called *)
Theorem C02_children_treeerror : forall typed asrt fu n xs s,
  (typed && has_non_node xs) || has_dup [] xs = true ->
  set_children typed asrt no_faults (S fu) n (CList xs) s = (Err TreeError, s).
Proof. exact MutSetRun.set_children_treeerror. Qed.
Print Assumptions C02_children_treeerror.
Theorem C02_children_not_iterable : forall typed asrt faults fu n s,
  set_children typed asrt faults (S fu) n CNotIterable s = (Err TypeError, s).
Proof. reflexivity. Qed.
Print Assumptions C02_children_not_iterable.

(** otherwise refused with LoopError when a new child is the node itself or
    one of its ancestors (together with C02_children: exactly then) *)
Theorem C02_children_looperror : forall typed asrt fu n pre x post s,
  let h := heap_of s in
  Inv h -> n < length h -> NoDup (pre ++ x :: post) ->
  (forall y, In y pre -> y < length h /\ y <> n /\ ~ In y (ancestors_of h n)) ->
  x < length h -> (x = n \/ In x (ancestors_of h n)) ->
  fst (set_children typed asrt no_faults (S (S fu)) n (CList (map VNode (pre ++ x :: post))) s) = Err LoopError.
Proof. exact MutSetRun.set_children_looperror. Qed.
Print Assumptions C02_children_looperror.

(** the constructors' parent= / children= arguments behave like the
    corresponding assignments on a fresh root: Cls(parent=p, children=xs) is
    allocation of a new node n, then n.parent = p, then - only if xs is
    non-empty - n.children = xs *)
Theorem C02_constructors : forall typed asrt fu p xs s,
  let h := heap_of s in
  Inv h -> (match p with Some q => q < length h | None => True end) -> NoDup xs ->
  let n := length h in
  let h1 := h ++ [empty_cell] in
  let h2 := eff_set_parent h1 n p in
  (forall x, In x xs -> x < length h /\ ~ In x (ancestors_of h2 n)) ->
  construct typed asrt no_faults (S fu) (opt_value p) (Some (CList (map VNode xs))) s =
  (Ok n, st_after s (match xs with [] => h2 | _ => eff_set_children h2 n xs end)
           (log_set_parent h1 n p ++ match xs with [] => [] | _ => fst (log_set_children h2 n xs) end)).
Proof. exact MutSetRun.construct_run. Qed.
Print Assumptions C02_constructors.

(** the run theorems above are stated for hooks that do not raise; they apply to
    every fault oracle that does not fire during the call: a call consults its
    oracle only from the current hook counter on, and an oracle that is quiet
    from there on gives exactly the fault-free run (result, links, hook log) *)
Theorem C02_quiet_oracle_is_fault_free : forall typed asrt faults fuel o s,
  (forall i k n, cnt s <= i -> faults i k n = false) ->
  run_op typed asrt faults fuel o s = run_op typed asrt no_faults fuel o s.
Proof. exact AT.Proofs.FaultExt.quiet_oracle_is_fault_free. Qed.
Print Assumptions C02_quiet_oracle_is_fault_free.

(** the frame clause as trees: "subtrees below moved nodes and every node not
    named by the call keep their parent and child order".  After a successful
    parent assignment (its effect is [eff_set_parent], C02_parent) the
    unfolding below any node x that shows neither the old nor the new parent
    is the same tree as before ... *)
Theorem C02_move_frame_trees : forall h, Inv h -> forall n v x, x < length h ->
  (forall q, parent h n = Some q -> ~ In q (AT.Spec.IterSpec.preorder (AT.Model.Abs.tree_of h x))) ->
  (forall p, v = Some p -> ~ In p (AT.Spec.IterSpec.preorder (AT.Model.Abs.tree_of h x))) ->
  AT.Model.Abs.tree_of (eff_set_parent h n v) x = AT.Model.Abs.tree_of h x.
Proof. exact AT.Proofs.FrameTree.move_frame. Qed.
Print Assumptions C02_move_frame_trees.

(** ... and the moved node takes its whole subtree along, shape and child
    order at every depth: the only exception is a new parent inside that
    subtree, which is exactly the LoopError case *)
Theorem C02_move_keeps_subtree : forall h, Inv h -> forall n v, n < length h ->
  (forall p, v = Some p -> ~ In p (AT.Spec.IterSpec.preorder (AT.Model.Abs.tree_of h n))) ->
  AT.Model.Abs.tree_of (eff_set_parent h n v) n = AT.Model.Abs.tree_of h n.
Proof. exact AT.Proofs.FrameTree.move_keeps_subtree. Qed.
Print Assumptions C02_move_keeps_subtree.

(** the general principle behind both: an unfolding depends only on the
    children lists of the nodes it shows (no consistency assumption needed) *)
Theorem C02_unfolding_depends_on_shown_children : forall (h h' : heap) x, length h' = length h ->
  (forall y, In y (AT.Spec.IterSpec.preorder (AT.Model.Abs.tree_of h x)) -> children h' y = children h y) ->
  AT.Model.Abs.tree_of h' x = AT.Model.Abs.tree_of h x.
Proof. exact AT.Proofs.FrameTree.tree_of_frame. Qed.
Print Assumptions C02_unfolding_depends_on_shown_children.

Example C02_frame_example :
  let h := attach_links (attach_links (attach_links (init 5) 1 0) 2 1) 4 3 in
  AT.Model.Abs.tree_of (eff_set_parent h 1 (Some 3)) 1 = AT.Model.Abs.tree_of h 1 /\
  AT.Spec.IterSpec.preorder (AT.Model.Abs.tree_of (eff_set_parent h 1 (Some 3)) 3) = [3; 4; 1; 2] /\
  AT.Spec.IterSpec.preorder (AT.Model.Abs.tree_of h 1) = [1; 2].
Proof. vm_compute. repeat split. Qed.

Example C02_example :
  let h := attach_links (attach_links (attach_links (init 4) 1 0) 2 0) 3 1 in
  (* 0 -> (1 -> 3, 2): moving 1 under 2 gives 0 -> (2 -> (1 -> 3)); 0 may not go under 3 *)
  Inv h /\
  eff_set_parent h 1 (Some 2) =
    [ {| cparent := None; cchildren := [2] |}; {| cparent := Some 2; cchildren := [3] |};
      {| cparent := Some 0; cchildren := [1] |}; {| cparent := Some 1; cchildren := [] |} ] /\
  loop_refused h 0 (Some 3) = true.
Proof.
  cbv zeta. split; [apply AT.Proofs.MutHistory.inv_b_sound; vm_compute; reflexivity|].
  split; vm_compute; reflexivity.
Qed.
