(** C02 - statements follow (work in progress in this commit) *)
Require Import AT.Model.Base AT.Model.Heap AT.Model.Mutate AT.Spec.MutSpec.

Theorem C02_noop_example :
  fst (run_op true false no_faults reentry_fuel (SetParent 1 (VNode 0)) (start (attach_links (init 2) 1 0))) = Ok tt.
Proof. reflexivity. Qed.
Print Assumptions C02_noop_example.
