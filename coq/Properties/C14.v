(** C14 - Search functions return the filtered pre-order and enforce their
    count bounds.  Only statements; every proof is [exact <lemma of Proofs/>]. *)
Require Import AT.Model.Base AT.Model.Rose AT.Model.Iter AT.Model.Search.
Require Import AT.Spec.IterSpec AT.Spec.SearchSpec.
Require AT.Proofs.IterPre AT.Proofs.SearchProofs.
Local Open Scope Z_scope.

(** findall returns exactly what PreOrderIter yields ... *)
Theorem C14_findall_is_preorder : forall f stop ml t,
  findall f stop ml None None t = Ok (PreOrderIter f stop ml t).
Proof. reflexivity. Qed.
Print Assumptions C14_findall_is_preorder.

(** ... which is the filtered pre-order of the admitted nodes (C06), with the
    count rule: CountAtLeast first, then CountAtMost, carrying both numbers *)
Theorem C14_findall : forall f stop ml lo hi t,
  findall f stop ml lo hi t = count_check lo hi (spec_pre f stop ml t).
Proof. exact SearchProofs.findall_spec. Qed.
Print Assumptions C14_findall.

Theorem C14_counterror_iff : forall f stop ml lo hi t,
  let len := Z.of_nat (length (spec_pre f stop ml t)) in
  (exists e, findall f stop ml lo hi t = Err e) <->
  ((exists m, lo = Some m /\ len < m) \/ (exists M, hi = Some M /\ M < len)).
Proof. exact SearchProofs.findall_counterror_iff. Qed.
Print Assumptions C14_counterror_iff.

(** find: None / the node / CountError for more than one match *)
Theorem C14_find : forall f stop ml t,
  find f stop ml t =
  match spec_pre f stop ml t with
  | [] => Ok None
  | [x] => Ok (Some x)
  | l => Err (CountAtMost 1 (Z.of_nat (length l)))
  end.
Proof. exact SearchProofs.find_spec. Qed.
Print Assumptions C14_find.

(** *_by_attr select the nodes whose attribute exists and equals the value;
    a node lacking the attribute is skipped (never an error) *)
Theorem C14_findall_by_attr : forall (val : Type) (val_eqb : val -> val -> bool) attr value ml lo hi t,
  findall_by_attr val val_eqb attr value ml lo hi t
  = count_check lo hi (spec_pre (has_attr_value val_eqb attr value) (fun _ => false) ml t).
Proof. exact (@SearchProofs.findall_by_attr_spec). Qed.
Print Assumptions C14_findall_by_attr.

Theorem C14_find_by_attr : forall (val : Type) (val_eqb : val -> val -> bool) attr value ml t,
  find_by_attr val val_eqb attr value ml t
  = spec_find (has_attr_value val_eqb attr value) (fun _ => false) ml t.
Proof. exact (@SearchProofs.find_by_attr_spec). Qed.
Print Assumptions C14_find_by_attr.

(** cachedsearch wrappers: same results or errors for the same arguments *)
Theorem C14_cached_same :
  cached_findall = findall /\ cached_find = find /\
  cached_findall_by_attr = findall_by_attr /\ cached_find_by_attr = find_by_attr.
Proof. repeat split; reflexivity. Qed.
Print Assumptions C14_cached_same.

(** non-vacuity: a concrete tree on which a bound equal to the count passes and
    one below it raises with both numbers *)
Example C14_example :
  let t := T 0%nat [T 1%nat [T 2%nat []]; T 3%nat []] in
  findall (fun n => Nat.odd n) (fun _ => false) None (Some 2) (Some 2) t = Ok [1; 3]%nat /\
  findall (fun n => Nat.odd n) (fun _ => false) None None (Some 1) t = Err (CountAtMost 1 2) /\
  findall (fun n => Nat.odd n) (fun _ => false) (Some 2) (Some 3) None t = Err (CountAtLeast 3 2).
Proof. vm_compute. repeat split. Qed.
