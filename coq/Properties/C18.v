(** C18 - LightNodeMixin behaves identically to NodeMixin.
    Only statements; proofs are [exact <lemma>] or a computation on the
    constant regenerated from /repo's sources. *)
Require Import AT.Model.Base AT.Model.Heap AT.Model.Mutate.
Require AT.Proofs.MutLockstep AT.Generated.Extracted.
Import AT.Proofs.MutLockstep.

(** For every call whose arguments are tree nodes, under every fault oracle,
    assertion setting and fuel, from every state: the two mixins' setters are
    the same function - same outcome, same final links, same hook log *)
Theorem C18_lockstep : forall asrt faults fuel o, node_op o ->
  forall s, run_op true asrt faults fuel o s = run_op false asrt faults fuel o s.
Proof. exact run_op_same. Qed.
Print Assumptions C18_lockstep.

(** The two source files are textually parallel: the members whose normalised
    AST differs (extracted from /repo on this run) are exactly the known four -
    __slots__, the two isinstance type checks (which only affect non-node
    arguments) and the deprecated `anchestors` alias.  This is the obligation a
    fix applied to only one of the copies breaks; it is what justifies using
    one Gallina function per read-only query for both mixins. *)
Definition expected_hunks : list (list N) :=
  [ [111; 110; 108; 121; 95; 108; 105; 103; 104; 116; 58; 61; 95; 95; 115; 108; 111; 116; 115; 95; 95]%N;
    [116; 121; 112; 101; 99; 104; 101; 99; 107; 58; 95; 95; 99; 104; 101; 99; 107; 95; 99; 104; 105; 108; 100; 114; 101; 110; 64; 115; 116; 97; 116; 105; 99; 109; 101; 116; 104; 111; 100]%N;
    [111; 110; 108; 121; 95; 110; 111; 100; 101; 58; 97; 110; 99; 104; 101; 115; 116; 111; 114; 115]%N;
    [116; 121; 112; 101; 99; 104; 101; 99; 107; 58; 112; 97; 114; 101; 110; 116; 46; 115; 101; 116; 116; 101; 114]%N ].
(* "only_light:=__slots__", "typecheck:__check_children@staticmethod",
   "only_node:anchestors", "typecheck:parent.setter" *)

Theorem C18_sources_parallel : Extracted.mixin_hunks = expected_hunks.
Proof. reflexivity. Qed.
Print Assumptions C18_sources_parallel.

Example C18_example :
  node_op (SetChildren 0 (CList [VNode 1; VNode 1])) /\
  fst (run_op false false no_faults reentry_fuel (SetChildren 0 (CList [VNode 1; VNode 1])) (start (init 2))) = Err TreeError.
Proof. split; [|reflexivity]. simpl. repeat constructor; eauto. Qed.
