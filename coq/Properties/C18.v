(** C18 - LightNodeMixin behaves identically to NodeMixin.
    Only statements; proofs are [exact <lemma>] or a computation on the
    constant regenerated from /repo's sources. *)
Require Import AT.Model.Base AT.Model.Heap AT.Model.Mutate.
Require AT.Proofs.MutLockstep.
Import AT.Proofs.MutLockstep.

(** For every call whose arguments are tree nodes, under every fault oracle,
    assertion setting and fuel, from every state: the two mixins' setters are
    the same function - same outcome, same final links, same hook log *)
Theorem C18_lockstep : forall asrt faults fuel o, node_op o ->
  forall s, run_op true asrt faults fuel o s = run_op false asrt faults fuel o s.
Proof. exact run_op_same. Qed.
Print Assumptions C18_lockstep.

(** The read-only queries (navigation attributes, iterators, Walker, Resolver,
    RenderTree) have ONE Gallina function each: the query model takes a tree and
    does not know which mixin built it, so their theorems (C04-C09, C14, C15)
    are statements about both.  What ties that to the code is behavioural: the
    case sets of those properties are re-run on LightNodeMixin trees by this
    property's check and must equal the model, and the lock-step above covers
    how such trees come about.  (An earlier obligation compared the ASTs of the
    two source files; it alarmed on harmless refactorings of one file and was
    replaced by the behavioural tie - see DESIGN.md section 0.) *)

Example C18_example :
  node_op (SetChildren 0 (CList [VNode 1; VNode 1])) /\
  fst (run_op false false no_faults reentry_fuel (SetChildren 0 (CList [VNode 1; VNode 1])) (start (init 2))) = Err TreeError.
Proof. split; [|reflexivity]. simpl. repeat constructor; eauto. Qed.
