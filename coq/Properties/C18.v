(** C18 - LightNodeMixin behaves identically to NodeMixin.
    Only statements; proofs are [exact <lemma>] or a computation on the
    constant regenerated from /repo's sources. *)
Require Import AT.Model.Base AT.Model.Heap AT.Model.Mutate.
Require AT.Proofs.MutLockstep AT.Proofs.MutHistory AT.Proofs.LockstepHistory.
Import AT.Proofs.MutLockstep AT.Proofs.MutHistory AT.Proofs.LockstepHistory.

(** For every call whose arguments are tree nodes, under every fault oracle,
    assertion setting and fuel, from every state: the two mixins' setters are
    the same function - same outcome, same final links, same hook log *)
Theorem C18_lockstep : forall asrt faults fuel o, node_op o ->
  forall s, run_op true asrt faults fuel o s = run_op false asrt faults fuel o s.
Proof. exact run_op_same. Qed.
Print Assumptions C18_lockstep.

(** ... and so for every history of such calls (each call with its own fault
    oracle, assertion setting and fuel), from every forest: every call's
    outcome, its hook log and the forest it leaves are the same for the two
    mixins - at every point of the history, not only at its end *)
Theorem C18_lockstep_histories : forall cs h, node_history cs -> trace true h cs = trace false h cs.
Proof. exact trace_same. Qed.
Print Assumptions C18_lockstep_histories.

Theorem C18_lockstep_final_forest : forall cs h, node_history cs ->
  fold_left (step true) cs h = fold_left (step false) cs h.
Proof. exact history_same. Qed.
Print Assumptions C18_lockstep_final_forest.

(** The read-only queries (navigation attributes, iterators, Walker, Resolver,
    RenderTree) have ONE Gallina function each: the query model takes a tree and
    does not know which mixin built it, so their theorems (C04-C09, C14, C15)
    are statements about both.  What ties that to the code is behavioural: the
    case sets of those properties are re-run on LightNodeMixin trees by this
    property's check and must equal the model, and the lock-step above covers
    how such trees come about.  (An earlier obligation compared the ASTs of the
    two source files; it alarmed on harmless refactorings of one file and was
    replaced by the behavioural tie - see DESIGN.md section 0.) *)

Example C18_example :
  node_op (SetChildren 0 (CList [VNode 1; VNode 1])) /\
  fst (run_op false false no_faults reentry_fuel (SetChildren 0 (CList [VNode 1; VNode 1])) (start (init 2))) = Err TreeError.
Proof. split; [|reflexivity]. simpl. repeat constructor; eauto. Qed.

Example C18_history_example :
  let cs := [ {| c_op := SetParent 1 (VNode 0); c_faults := no_faults; c_asrt := false; c_fuel := reentry_fuel |};
              {| c_op := SetChildren 2 (CList [VNode 0]); c_faults := no_faults; c_asrt := true; c_fuel := reentry_fuel |};
              {| c_op := SetParent 2 (VNode 1); c_faults := no_faults; c_asrt := false; c_fuel := reentry_fuel |} ] in
  node_history cs /\ map (fun x => fst (fst x)) (trace false (init 3) cs) = [Ok tt; Ok tt; Err LoopError].
Proof. cbv zeta. split; [repeat constructor; simpl; eauto|vm_compute; reflexivity]. Qed.
