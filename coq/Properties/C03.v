(** C03 - A refused or hook-vetoed structural change leaves the whole forest
    untouched.  The full statement is FALSE of the faithful model (and of the
    code: known findings KF-C03-1..5); what is proved is the exact boundary
    for the parent setter, the part of the children setter that is atomic, and
    the refutations.  Only statements; proofs are [exact <lemma>] or a
    computation on a concrete witness. *)
Require Import AT.Model.Base AT.Model.Heap AT.Model.Mutate AT.Spec.MutSpec.
Require AT.Proofs.MutParent AT.Proofs.MutChildren AT.Proofs.MutRestore.
Import AT.Proofs.MutParent AT.Proofs.MutChildren.

(** the full statement, kept visible: every refusal and every pre-hook veto of
    any of the three assignments restores every link *)
Definition C03_full : Prop :=
  forall typed asrt faults fuel o h r s',
    (match o with Construct _ _ => False | _ => True end) ->
    Inv h -> valid_op (length h) o ->
    run_op typed asrt faults fuel o (start h) = (r, s') ->
    forall e, r = Err e ->
      (e = TreeError \/ e = LoopError \/ e = TypeError \/
       exists i k, e = HookExn i /\ kind_at (log s') i = Some k /\ is_pre k = true) ->
      heap_of s' = h.

(** parent assignment, any state, any fault oracle: a refusal (TreeError,
    LoopError; AttributeError for LightNodeMixin's non-node), a _pre_detach
    veto, or a _pre_attach veto of a node that had no parent leaves every link
    exactly as it was *)
Theorem C03_parent_guarded : forall typed asrt faults n v h r s',
  set_parent typed asrt faults n v (start h) = (r, s') ->
  forall e, r = Err e ->
    (e = TreeError \/ e = LoopError \/ e = AttributeError \/
     exists i, e = HookExn i /\
       (kind_at (log s') i = Some PreDetach \/ (kind_at (log s') i = Some PreAttach /\ parent h n = None))) ->
    heap_of s' = h.
Proof. exact set_parent_atomic. Qed.
Print Assumptions C03_parent_guarded.

(** a positive boundary inside the attach phase: when _pre_attach_children (the
    first hook after all former children were detached) vetoes and no other hook
    raises, the children assignment propagates that exception and EVERY link is
    as before - the rollback re-attaches the former children in their order.
    (The fault-free run theorems are transferred to the two fault-free phases of
    the faulted call by Proofs/FaultExt.v: a run consults its fault oracle only
    between the counter it starts with and the one it ends with.) *)
Theorem C03_children_pre_attach_veto_restores : forall typed asrt faults fu n xs s,
  let h := heap_of s in
  Inv h -> n < length h -> NoDup xs ->
  let i0 := length (fst (log_del_children h n)) + cnt s in
  (forall i k m, faults i k m = true -> i = i0) ->
  faults i0 PreAttachChildren n = true ->
  let r := set_children typed asrt faults (S (S fu)) n (CList (map VNode xs)) s in
  fst r = Err (HookExn i0) /\ heap_of (snd r) = h.
Proof. exact AT.Proofs.MutRestore.pre_attach_children_veto_restores. Qed.
Print Assumptions C03_children_pre_attach_veto_restores.
(** non-vacuity: node 0 with children [1; 2], the assignment [0.children = [2; 1]],
    the only raising hook is the _pre_attach_children invocation (index 6) *)
Example C03_restore_example :
  let h := attach_links (attach_links (init 3) 1 0) 2 0 in
  let faults := fun (i : nat) (_ : hookkind) (_ : id) => Nat.eqb i 6 in
  let r := set_children true false faults reentry_fuel 0 (CList [VNode 2; VNode 1]) (start h) in
  length (fst (log_del_children h 0)) + 0 = 6 /\ fst r = Err (HookExn 6) /\ heap_eqb (heap_of (snd r)) h = true.
Proof. vm_compute. repeat split. Qed.

(** ... and so is a veto by the _pre_attach of the FIRST new child, when that
    child has no parent at that moment (a root, or a former child just detached):
    nothing has been attached yet, every link is restored *)
Theorem C03_children_first_pre_attach_veto_restores : forall typed asrt faults fu n x1 rest s,
  let h := heap_of s in
  let xs := x1 :: rest in
  Inv h -> n < length h -> NoDup xs ->
  x1 < length h -> x1 <> n -> ~ In x1 (ancestors_of h n) ->
  (parent h x1 = None \/ parent h x1 = Some n) ->
  let i0 := length (fst (log_del_children h n)) + cnt s in
  (forall i k m, faults i k m = true -> i = S i0) ->
  faults (S i0) PreAttach x1 = true ->
  let r := set_children typed asrt faults (S (S fu)) n (CList (map VNode xs)) s in
  fst r = Err (HookExn (S i0)) /\ heap_of (snd r) = h.
Proof. exact AT.Proofs.MutRestore.first_pre_attach_veto_restores. Qed.
Print Assumptions C03_children_first_pre_attach_veto_restores.
Example C03_restore_example2 :
  let h := attach_links (attach_links (init 3) 1 0) 2 0 in
  let faults := fun (i : nat) (_ : hookkind) (_ : id) => Nat.eqb i 7 in
  let r := set_children true false faults reentry_fuel 0 (CList [VNode 2; VNode 1]) (start h) in
  fst r = Err (HookExn 7) /\ heap_eqb (heap_of (snd r)) h = true.
Proof. vm_compute. repeat split. Qed.

(** ... and that guard is the exact boundary: a _pre_attach veto on a MOVE
    leaves the node detached (KF-C03-1) *)
Theorem C03_parent_refuted : exists h n v faults r s',
  Inv h /\ valid_op (length h) (SetParent n v) /\
  set_parent true false faults n v (start h) = (r, s') /\
  r = Err (HookExn 2) /\ kind_at (log s') 2 = Some PreAttach /\ heap_of s' <> h.
Proof. exact parent_refuted. Qed.
Print Assumptions C03_parent_refuted.

(** children assignment: the refusals detected before anything is changed
    (non-iterable argument, non-node or repeated child) leave the state -
    links, hook counter and log - untouched *)
Theorem C03_children_validation_guarded : forall typed asrt faults fu n a s e,
  (a = CNotIterable /\ e = TypeError) \/
  (exists xs, a = CList xs /\ fst (check_children typed [] xs s) = Err e) ->
  set_children typed asrt faults (S fu) n a s = (Err e, s).
Proof. exact set_children_validation. Qed.
Print Assumptions C03_children_validation_guarded.

(** children deletion / assignment: a _pre_detach_children veto changes no link *)
Theorem C03_del_first_hook_guarded : forall typed asrt faults n s,
  faults (cnt s) PreDetachChildren n = true ->
  fst (del_children typed asrt faults n s) = Err (HookExn (cnt s)) /\
  heap_of (snd (del_children typed asrt faults n s)) = heap_of s.
Proof. exact del_children_first_hook. Qed.
Print Assumptions C03_del_first_hook_guarded.

(** the four other ways the full statement fails, each with a concrete
    witness computed on the faithful model (and replayed on the implementation
    by the correspondence check: known findings KF-C03-2..5) *)
Theorem C03_del_refuted : exists h n faults r s',
  Inv h /\ del_children true false faults n (start h) = (r, s') /\
  r = Err (HookExn 3) /\ kind_at (log s') 3 = Some PreDetach /\ heap_of s' <> h.
Proof. exact del_refuted. Qed.
Print Assumptions C03_del_refuted.

Theorem C03_children_stolen_refuted : exists h n xs r s',
  Inv h /\ valid_op (length h) (SetChildren n (CList xs)) /\
  set_children true false no_faults reentry_fuel n (CList xs) (start h) = (r, s') /\
  r = Err LoopError /\ heap_of s' <> h.
Proof. exact children_stolen_refuted. Qed.
Print Assumptions C03_children_stolen_refuted.

Theorem C03_children_rollback_veto_refuted : exists h n xs faults i r s',
  Inv h /\ valid_op (length h) (SetChildren n (CList xs)) /\
  set_children true false faults reentry_fuel n (CList xs) (start h) = (r, s') /\
  r = Err (HookExn i) /\ kind_at (log s') i = Some PreAttach /\ heap_of s' <> h.
Proof. exact children_rollback_veto_refuted. Qed.
Print Assumptions C03_children_rollback_veto_refuted.

(** a persistently vetoing _pre_attach_children: whatever the re-entrancy fuel,
    the call ends in RecursionError and the former child stays detached *)
Theorem C03_children_recursion_refuted : exists h n faults,
  Inv h /\ forall fuel,
  fst (set_children true false faults fuel n (CList []) (start h)) = Err RecursionError /\
  (0 < fuel -> heap_of (snd (set_children true false faults fuel n (CList []) (start h))) <> h).
Proof. exact children_recursion_refuted. Qed.
Print Assumptions C03_children_recursion_refuted.
