(** C10 - Dictionary export and import are faithful inverses of each other.
    Only statements; proofs are [exact <lemma>]. *)
Require Import AT.Model.Base AT.Model.DictIO AT.Spec.DictSpec.
Require AT.Proofs.DictProofs AT.Proofs.DictIters.
Import AT.Proofs.DictProofs AT.Proofs.DictIters.

(** export with the default attriter/childiter: for each exported node all of
    its instance attributes except the tree bookkeeping (the skip list is the
    one extracted from /repo), plus a 'children' list - present only when
    non-empty - with the exported children in order; nodes at relative depth
    >= maxlevel are cut, the start node is always exported; the recursion never
    runs out of its fuel *)
Theorem C10_export_structural : forall ml t, wf_itree t ->
  export (fun l => l) (fun l => l) ml t = Ok (to_dtree (cut ml 1 t)).
Proof. intros ml t W. unfold export. apply export_structural; [exact W|apply Nat.lt_succ_diag_r]. Qed.
Print Assumptions C10_export_structural.

(** attriter, childiter (any function that selects / reorders the children it
    is given) and maxlevel are honoured at every level: the result is the
    structural image of [exported] - childiter applied to the children of every
    exported node, attriter and the dictionary constructor to its attributes,
    nothing below maxlevel; the recursion never runs out of its fuel *)
Theorem C10_export_iterators : forall attriter childiter ml t,
  (forall l c, In c (childiter l) -> In c l) ->
  export attriter childiter ml t = Ok (to_dtree (exported attriter childiter ml (S (iheight t)) 1 t)).
Proof. intros a c ml t H. unfold export. apply export_iters; [exact H|apply Nat.lt_succ_diag_r]. Qed.
Print Assumptions C10_export_iterators.
(** 'children' is present only when non-empty, for all iterators *)
Theorem C10_no_empty_children : forall attriter childiter ml t d,
  (forall l c, In c (childiter l) -> In c l) ->
  export attriter childiter ml t = Ok d -> strip d = d.
Proof. exact export_no_empty_children. Qed.
Print Assumptions C10_no_empty_children.
(** import_(export(t)) is isomorphic to t (cut at maxlevel): same shape, child
    order and attributes *)
Theorem C10_import_export : forall ml t, wf_itree t ->
  exists d, export (fun l => l) (fun l => l) ml t = Ok d /\ import_ ctor_any d = cut ml 1 t.
Proof. exact import_export. Qed.
Print Assumptions C10_import_export.

(** export(import_(d)) equals d up to empty 'children' lists *)
Theorem C10_export_import : forall d, wf_dtree d ->
  export (fun l => l) (fun l => l) None (import_ ctor_any d) = Ok (strip d).
Proof. exact export_import. Qed.
Print Assumptions C10_export_import.

(** import builds exactly the shape and child order of the dictionary *)
Theorem C10_import_shape : forall ctor data cs,
  import_ ctor (D data cs) = I (ctor data) (match cs with Some l => map (import_ ctor) l | None => [] end).
Proof. reflexivity. Qed.
Print Assumptions C10_import_shape.

(** both functions are pure in the model (they return new values); for the
    implementation the harness deep-copies the arguments and compares them
    after each call *)
Example C10_example :
  let t := I [([107; 48]%N, 1%Z); ([95; 78; 111; 100; 101; 77; 105; 120; 105; 110; 95; 95; 112; 97; 114; 101; 110; 116]%N, 0%Z)]
             [I [([120]%N, 2%Z)] [I [] []]; I [] []] in
  wf_itree t /\
  export (fun l => l) (fun l => l) (Some 2%Z) t
    = Ok (D [([107; 48]%N, 1%Z)] (Some [D [([120]%N, 2%Z)] None; D [] None])).
Proof.
  cbv zeta. split; [|vm_compute; reflexivity].
  repeat (constructor; try (unfold clean_items; vm_compute; repeat constructor; simpl; intuition discriminate)).
Qed.
