(** C05 - Each iterator visits every node of the subtree exactly once in its
    defined order.  Only statements; proofs are [exact <lemma>]. *)
Require Import AT.Model.Base AT.Model.Rose AT.Model.Iter AT.Spec.IterSpec.
Require AT.Proofs.IterC05.
Require AT.Model.Heap AT.Model.Abs AT.Spec.MutSpec AT.Proofs.ForestCover.
From Coq Require Import Permutation.
Local Open Scope Z_scope.

Notation no_filter := (fun _ : id => true).
Notation no_stop := (fun _ : id => false).

(** a node before its children, children left to right *)
Theorem C05_pre : forall t, PreOrderIter no_filter no_stop None t = preorder t.
Proof. exact IterC05.c05_pre. Qed.
Print Assumptions C05_pre.

(** all children's subtrees left to right before the node *)
Theorem C05_post : forall t, PostOrderIter no_filter no_stop None t = postorder t.
Proof. exact IterC05.c05_post. Qed.
Print Assumptions C05_post.

(** by increasing depth; within a depth in the order of the parents and then
    sibling order ([levels] is the structural definition of exactly that) *)
Theorem C05_level : forall t, LevelOrderIter no_filter no_stop None t = Ok (concat (levels t)).
Proof. exact IterC05.c05_level. Qed.
Print Assumptions C05_level.

(** one tuple per depth level, concatenation = level order *)
Theorem C05_group : forall t, LevelOrderGroupIter no_filter no_stop None t = Ok (levels t).
Proof. exact IterC05.c05_group. Qed.
Print Assumptions C05_group.

(** the same tuples with levels 1, 3, 5, ... reversed *)
Theorem C05_zigzag : forall t, ZigZagGroupIter no_filter no_stop None t = Ok (zigzag_spec false (levels t)).
Proof. exact IterC05.c05_zigzag. Qed.
Print Assumptions C05_zigzag.

(** every node of the subtree exactly once and nothing else: each output is a
    duplicate-free permutation of the pre-order (node identities distinct) *)
Theorem C05_exactly_once : forall t, NoDup (preorder t) ->
  (NoDup (postorder t) /\ Permutation (postorder t) (preorder t)) /\
  (NoDup (levelorder t) /\ Permutation (levelorder t) (preorder t)) /\
  (NoDup (concat (zigzag_spec false (levels t))) /\
   Permutation (concat (zigzag_spec false (levels t))) (preorder t)).
Proof. exact IterC05.c05_exactly_once. Qed.
Print Assumptions C05_exactly_once.

(** the hypothesis "node identities distinct" is not an assumption about the
    input: it holds for the unfolding below every node of every consistent
    link state (C01), so on every tree that the library's operations can
    produce each iterator yields every node of the subtree exactly once *)
Theorem C05_exactly_once_on_every_forest : forall h, AT.Spec.MutSpec.Inv h -> forall r,
  let t := AT.Model.Abs.tree_of h r in
  NoDup (preorder t) /\
  (NoDup (postorder t) /\ Permutation (postorder t) (preorder t)) /\
  (NoDup (levelorder t) /\ Permutation (levelorder t) (preorder t)) /\
  (NoDup (concat (zigzag_spec false (levels t))) /\
   Permutation (concat (zigzag_spec false (levels t))) (preorder t)).
Proof.
  intros h I r t. split; [exact (AT.Proofs.ForestCover.tree_of_nodup h I r)|].
  exact (IterC05.c05_exactly_once t (AT.Proofs.ForestCover.tree_of_nodup h I r)).
Qed.
Print Assumptions C05_exactly_once_on_every_forest.

Example C05_example :
  let t := T 0%nat [T 1%nat [T 2%nat []; T 3%nat []]; T 4%nat [T 5%nat []]] in
  NoDup (preorder t) /\
  PreOrderIter no_filter no_stop None t = [0; 1; 2; 3; 4; 5]%nat /\
  PostOrderIter no_filter no_stop None t = [2; 3; 1; 5; 4; 0]%nat /\
  LevelOrderIter no_filter no_stop None t = Ok [0; 1; 4; 2; 3; 5]%nat /\
  ZigZagGroupIter no_filter no_stop None t = Ok [[0]; [4; 1]; [2; 3; 5]]%nat.
Proof. vm_compute. repeat split. repeat constructor; simpl; intuition discriminate. Qed.
