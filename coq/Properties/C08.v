(** C08 - Resolver.glob returns exactly the nodes a wildcard pattern denotes.
    Proved: the matcher against the declarative wildcard relation, the cache
    (transparency, history independence), relaxed mode (total, exactly the
    denotation, pre-order, duplicate-freeness under the statement's guard) and
    the agreement of strict mode with get on wildcard-free paths over
    sibling-unique names.  The clause "strict mode returns the same list or
    raises" is FALSE of the faithful model (known finding KF-C08-1): refutation
    witness.  Only statements; proofs are [exact <lemma>] or computations. *)
Require Import AT.Model.Base AT.Model.Rose AT.Model.Nav AT.Model.Resolver AT.Spec.ResolverSpec.
Require AT.Proofs.GlobProofs AT.Proofs.GlobDen AT.Proofs.GlobOrder AT.Proofs.IterOrder AT.Proofs.GlobGet.
Import AT.Proofs.GlobProofs.

(** within one name: the regex the code compiles from a pattern (table, (?ms)
    prefix and \Z anchor extracted from /repo on this run) matches a name iff
    '*' stands for any run of characters, '?' for exactly one character and
    every other character - regex metacharacters included - only for itself,
    with the whole name anchored *)
Theorem C08_wmatch_is_wild_b : forall ic p n, rmatch ic (translate p) n = wild_b ic p n.
Proof. exact rmatch_translate. Qed.
Print Assumptions C08_wmatch_is_wild_b.
Theorem C08_wild_sound : forall ic p n, wild_b ic p n = true -> wild ic p n.
Proof. exact wild_b_sound. Qed.
Print Assumptions C08_wild_sound.
Theorem C08_wild_complete : forall ic p n, wild ic p n -> wild_b ic p n = true.
Proof. exact wild_b_complete. Qed.
Print Assumptions C08_wild_complete.

(** the result never depends on earlier calls: with the key extracted from
    /repo (pattern AND ignorecase), every cache state reachable from the empty
    one holds only compilations of their own keys, so a lookup returns what a
    fresh compilation would - across resolvers with either ignorecase and
    across the eviction threshold *)
Theorem C08_cache_transparent : forall c ic name pat, CacheInv c ->
  fst (match_cached c ic name pat) = rmatch ic (translate pat) name /\
  CacheInv (snd (match_cached c ic name pat)).
Proof. exact match_cached_transparent. Qed.
Print Assumptions C08_cache_transparent.
Theorem C08_history_independent : forall calls,
  fst (run_history [] calls) = map (fun x => let '(ic, name, pat) := x in rmatch ic (translate pat) name) calls.
Proof. intros calls. apply history_independent. apply cache_inv_nil. Qed.
Print Assumptions C08_history_independent.

(** strict mode "returns the same list as relaxed mode or raises" is FALSE of
    the faithful model (known finding KF-C08-1): witness computed here *)
Theorem C08_strict_same_or_raises_refuted : exists nm t path,
  glob nm false false [47]%N t [] path = Ok [] /\
  glob nm false true [47]%N t [] path = Ok [[]].
Proof.
  exists (fun n : id => nth n [[114]; [99]; [103]]%N []), (T 0 [T 1 [T 2 []]]),
         [42; 47; 42; 42; 47; 46; 46; 47; 46; 46]%N.    (* "*/**/../.." *)
  vm_compute. split; reflexivity.
Qed.
Print Assumptions C08_strict_same_or_raises_refuted.

(** relaxed mode never raises ... *)
Theorem C08_relaxed_total : forall nm ic t comps p, exists l, glob_rec nm ic true t comps p = Ok l.
Proof. exact AT.Proofs.GlobDen.relaxed_total. Qed.
Print Assumptions C08_relaxed_total.
(** ... and the result contains exactly the nodes the pattern denotes: '..'
    the parent, '' and '.' the node itself, '**' the node and all of its
    descendants, any other component the children whose name the wildcard
    pattern matches *)
Theorem C08_relaxed_den : forall nm ic t comps p x,
  In x (AT.Proofs.GlobDen.gl nm ic t comps p) <-> In x (den nm ic t comps p).
Proof. exact AT.Proofs.GlobDen.relaxed_den. Qed.
Print Assumptions C08_relaxed_den.

(** in tree pre-order when the pattern contains neither '**' nor '..': the
    result is a subsequence of the pre-order of the start node's subtree (which
    is duplicate-free) *)
Theorem C08_relaxed_preorder : forall nm ic t comps, AT.Proofs.GlobOrder.plain comps = true -> forall p,
  AT.Proofs.IterOrder.Subseq (AT.Proofs.GlobDen.gl nm ic t comps p) (pre_positions t p).
Proof. exact AT.Proofs.GlobOrder.relaxed_preorder. Qed.
Print Assumptions C08_relaxed_preorder.
Theorem C08_preorder_nodup : forall t p, NoDup (pre_positions t p).
Proof. exact AT.Proofs.GlobOrder.PP_nodup. Qed.
Print Assumptions C08_preorder_nodup.
(** without duplicates whenever no '..' follows a name or wildcard component
    (a '**' component de-duplicates whatever follows it) *)
Theorem C08_relaxed_nodup : forall nm ic t comps p,
  (forall pre c post, comps = pre ++ c :: post -> AT.Proofs.GlobOrder.is_namecomp c = true ->
                      AT.Proofs.GlobOrder.nodd post = true) ->
  NoDup (AT.Proofs.GlobDen.gl nm ic t comps p).
Proof. intros nm ic t comps p H. apply AT.Proofs.GlobOrder.relaxed_nodup. apply AT.Proofs.GlobOrder.guard_of_statement. exact H. Qed.
Print Assumptions C08_relaxed_nodup.

(** in strict mode glob agrees with get on wildcard-free paths over
    sibling-unique names: the same node (as a one-element list), the same error
    class - component lists and whole path strings (root component included) *)
Theorem C08_strict_agrees_with_get : forall nm ic t, AT.Proofs.GlobGet.sibling_unique nm ic t ->
  forall comps, AT.Proofs.GlobGet.plain comps = true -> forall p,
  glob_rec nm ic false t comps p
  = match get_loop nm ic false t comps p with
    | Ok (Some q) => Ok [q] | Ok None => Ok [] | Err e => Err e | OutOfFuel => OutOfFuel end.
Proof. exact AT.Proofs.GlobGet.glob_get_strict. Qed.
Print Assumptions C08_strict_agrees_with_get.
Theorem C08_strict_agrees_with_get_path : forall nm ic t sep, AT.Proofs.GlobGet.sibling_unique nm ic t ->
  forall p path, AT.Proofs.GlobGet.plain (split sep path) = true ->
  glob nm ic false sep t p path
  = match get nm ic false sep t p path with
    | Ok (Some q) => Ok [q] | Ok None => Ok [] | Err e => Err e | OutOfFuel => OutOfFuel end.
Proof. exact AT.Proofs.GlobGet.glob_get_path. Qed.
Print Assumptions C08_strict_agrees_with_get_path.

Example C08_example :
  let t := T 0 [T 1 [T 3 []]; T 2 []] in
  let nm := fun n : id => nth n [[114]; [97; 46; 98]; [97; 120; 98]; [99]]%N [] in
  glob nm false false [47]%N t [] [97; 46; 98]%N = Ok [[0]] /\          (* "a.b": the dot is literal *)
  glob nm false false [47]%N t [] [97; 63; 98]%N = Ok [[0]; [1]] /\    (* "a?b" *)
  glob nm false false [47]%N t [] [42; 42]%N = Ok [[]; [0]; [0; 0]; [1]] /\
  glob nm false false [47]%N t [] [122; 122]%N = Err ChildResolverError /\
  glob nm false true [47]%N t [] [122; 122]%N = Ok [].
Proof. vm_compute. repeat split. Qed.
