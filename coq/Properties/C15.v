(** C15 - Walker.walk returns the unique tree path between two nodes.
    Nodes are (tree index in a forest, position).  Only statements. *)
Require Import AT.Model.Base AT.Model.Rose AT.Model.Nav AT.Spec.NavSpec.
Require AT.Proofs.NavProofs.
Import AT.Proofs.NavProofs.

(** the zip-and-filter of the two root paths is the list of common ancestors:
    the prefixes of the longest common prefix of the two positions *)
Theorem C15_calc_common : forall a b, calc_common (prefixes a) (prefixes b) = prefixes (lcp a b).
Proof. exact calc_common_spec. Qed.
Print Assumptions C15_calc_common.

(** same tree: (upwards, common, downwards) with common the node at the longest
    common prefix c, upwards the nodes from start up to but excluding c
    (deepest first), downwards the nodes below c down to end *)
Theorem C15_walk : forall ts i pa pb,
  walk ts (i, pa) (i, pb) =
  let t := nth i ts (T 0 []) in let c := lcp pa pb in
  Ok (rev (map (label_at t) (skipn (S (length c)) (prefixes pa))), label_at t c,
      map (label_at t) (skipn (S (length c)) (prefixes pb))).
Proof. exact walk_ok. Qed.
Print Assumptions C15_walk.

(** different trees: WalkError *)
Theorem C15_walkerror : forall ts ia pa ib pb, ia <> ib -> walk ts (ia, pa) (ib, pb) = Err WalkError.
Proof. exact walk_error. Qed.
Print Assumptions C15_walkerror.

(** common is the LOWEST common ancestor: an ancestor-or-self of both, and
    every common ancestor-or-self is an ancestor-or-self of it *)
Theorem C15_lca : forall a b,
  is_prefix (lcp a b) a /\ is_prefix (lcp a b) b /\
  forall c, is_prefix c a -> is_prefix c b -> is_prefix c (lcp a b).
Proof. intros a b. split; [apply lcp_prefix_l|split; [apply lcp_prefix_r|apply lcp_greatest]]. Qed.
Print Assumptions C15_lca.

(** walk(end, start) is the mirror image *)
Theorem C15_mirror : forall t pa pb,
  let '(u, c, d) := walk_spec t pa pb in walk_spec t pb pa = (rev d, c, rev u).
Proof. exact walk_mirror. Qed.
Print Assumptions C15_mirror.

Example C15_example :
  let t := T 0 [T 1 [T 2 []; T 3 []]; T 4 [T 5 []]] in
  walk [t] (0, [0; 1]) (0, [1; 0]) = Ok ([3; 1], 0, [4; 5]) /\
  walk [t] (0, [0]) (0, [0; 0]) = Ok ([], 1, [2]) /\
  walk [t; T 9 []] (0, [0]) (1, []) = Err WalkError.
Proof. vm_compute. repeat split. Qed.
