(** What C20 demands of attribute access through links, stated on the final
    (non-link) target. *)
Require Import AT.Model.Base AT.Model.Symlink.

(** the object a chain of links ends in *)
Fixpoint final (fuel : nat) (s : objs) (x : id) : id :=
  match fuel with
  | O => x
  | S fu => match okind_of (oget s x) with Link t => final fu s t | Plain => x end
  end.

(** links hold no data attributes of their own, and every link's target was
    created before it (so chains are finite) *)
Definition link_clean (s : objs) : Prop :=
  forall x, x < length s ->
    match okind_of (oget s x) with
    | Link t => odict (oget s x) = [] /\ t < x
    | Plain => True
    end.

Definition data_name (k : name) : bool :=
  negb (in_names Extracted.symlink_set_local k) && negb (in_names Extracted.symlink_get_local k)
  && negb (str_eqb k s_setstate).

(** abstract reading / writing: on the final target's dictionary *)
Definition spec_get (s : objs) (x : id) (k : name) : result aval :=
  match dget (odict (oget s (final (chain_fuel s) s x))) k with Some v => Ok v | None => Err AttributeError end.
