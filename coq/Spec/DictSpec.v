(** What C10 / C11 demand. *)
Require Import AT.Model.Base AT.Model.DictIO.
Local Open Scope Z_scope.

(** the tree cut at relative depth maxlevel (the start node is always kept),
    each node carrying its attributes without the tree bookkeeping *)
Fixpoint cut (ml : option Z) (level : Z) (t : itree) : itree :=
  match t with
  | I a cs =>
      I (iter_attr_values a)
        (if (match ml with None => true | Some m => level <? m end) then map (cut ml (level + 1)) cs else [])
  end.

(** a dictionary without empty 'children' lists *)
Fixpoint strip (d : dtree) : dtree :=
  match d with
  | D data None => D data None
  | D data (Some []) => D data None
  | D data (Some l) => D data (Some (map strip l))
  end.

(** attribute dictionaries compared as maps: sorted by key *)
Fixpoint str_leb (a b : str) : bool :=
  match a, b with
  | [], _ => true
  | _ :: _, [] => false
  | x :: a', y :: b' => if N.ltb x y then true else if N.eqb x y then str_leb a' b' else false
  end.
Fixpoint insert_sorted (kv : key * val) (l : items) : items :=
  match l with
  | [] => [kv]
  | x :: r => if str_leb (fst kv) (fst x) then kv :: l else x :: insert_sorted kv r
  end.
Definition sort_items (l : items) : items := fold_right insert_sorted [] l.
Fixpoint canon (t : itree) : itree :=
  match t with I a cs => I (sort_items a) (map canon cs) end.

Definition items_eqb : items -> items -> bool :=
  list_eqb (fun a b => str_eqb (fst a) (fst b) && Z.eqb (snd a) (snd b)).
Fixpoint itree_eqb (a b : itree) : bool :=
  match a, b with
  | I x cs, I y ds =>
      items_eqb x y &&
      (fix go (l r : list itree) : bool :=
         match l, r with
         | [], [] => true
         | p :: l', q :: r' => itree_eqb p q && go l' r'
         | _, _ => false
         end) cs ds
  end.
Fixpoint dtree_eqb (a b : dtree) : bool :=
  match a, b with
  | D x cs, D y ds =>
      items_eqb x y &&
      match cs, ds with
      | None, None => true
      | Some l, Some r =>
          (fix go (l r : list dtree) : bool :=
             match l, r with
             | [], [] => true
             | p :: l', q :: r' => dtree_eqb p q && go l' r'
             | _, _ => false
             end) l r
      | _, _ => false
      end
  end.
