(** What C12/C13 demand: which nodes are declared and which edges are drawn. *)
Require Import AT.Model.Base AT.Model.Rose AT.Spec.IterSpec.

(** subtree of [t] rooted at the node labelled [n] (labels are identities) *)
Fixpoint find_sub (n : id) (t : tree) : option tree :=
  match t with
  | T m cs =>
      if Nat.eqb m n then Some t else
      (fix go (l : list tree) : option tree :=
         match l with
         | [] => None
         | c :: r => match find_sub n c with Some s => Some s | None => go r end
         end) cs
  end.
Definition kids_of (t : tree) (n : id) : list id :=
  match find_sub n t with Some s => map label (kids s) | None => [] end.

Section G.
Variables (f stop : id -> bool) (ml : option Z).
(** declared = the admitted nodes (as for the iterators) that pass filter_, in pre-order *)
Definition declared (t : tree) : list id := spec_pre f stop ml t.
(** one edge for every parent-child pair whose two ends are both declared *)
Definition spec_edges (t : tree) : list (id * id) :=
  flat_map (fun p => flat_map (fun c => if mem (declared t) c then [(p, c)] else []) (kids_of t p)) (declared t).
End G.

(** inverse of the escaping: drop the prefix character in front of any character *)
Fixpoint unesc_with (prefix : N) (s : list N) : list N :=
  match s with
  | [] => []
  | c :: r => if N.eqb c prefix then match r with d :: r' => d :: unesc_with prefix r' | [] => [] end
              else c :: unesc_with prefix r
  end.

(** the same edge set stated pointwise over the tree: the pair (n, c) of a
    node and one of its children is drawn iff BOTH are admitted (relative depth
    below maxlevel, no stop on the way down, themselves included) and pass
    filter_; pairs come in the pre-order of the parents, children left to right *)
Section EdgesPointwise.
Variables (f stop : id -> bool) (ml : option Z).
Fixpoint edges_ann (d : Z) (ok_above : bool) (t : tree) : list (id * id) :=
  match t with
  | T n cs =>
      let ok_n := ok_above && negb (stop n) && below d ml in
      flat_map (fun c => if ok_n && f n && (negb (stop (label c)) && below (d + 1) ml) && f (label c)
                         then [(n, label c)] else []) cs
      ++ flat_map (edges_ann (d + 1) (ok_above && negb (stop n))) cs
  end.
End EdgesPointwise.

(** what DotExporter really draws (the child's stop is not consulted): used to
    state the known finding exactly and to show that no admitted link is missing *)
Section EdgesDot.
Variables (f stop : id -> bool) (ml : option Z).
Fixpoint edges_dot (d : Z) (ok_above : bool) (t : tree) : list (id * id) :=
  match t with
  | T n cs =>
      let ok_n := ok_above && negb (stop n) && below d ml in
      flat_map (fun c => if ok_n && f n && below (d + 1) ml && f (label c) then [(n, label c)] else []) cs
      ++ flat_map (edges_dot (d + 1) (ok_above && negb (stop n))) cs
  end.
End EdgesDot.
