(** What C09 demands of the rows, stated pointwise on the rendered tree. *)
Require Import AT.Model.Base AT.Model.Rose AT.Model.Nav AT.Model.Resolver AT.Model.Render.
Local Open Scope Z_scope.

Section S.
Variables (vertical cont end_ : str).
Variable R : tree.      (* the rendered tree: childiter applied at every level, cut at max(maxlevel, 1) *)

(** the node at position p has a following sibling *)
Definition has_next (p : pos) : bool :=
  match p with
  | [] => false
  | _ => Nat.ltb (S (last p 0%nat)) (length (kids (sub R (removelast p))))
  end.
Definition blank : str := repeat 32%N (length end_).
(** segment j of the node at p belongs to the path node at depth j + 1 *)
Definition seg (p : pos) (j : nat) : str := if has_next (firstn (S j) p) then vertical else blank.
Definition fill_spec (p : pos) : str := concat (map (seg p) (seq 0 (length p))).
Definition pre_spec (p : pos) : str :=
  match p with
  | [] => []
  | _ => concat (map (seg p) (seq 0 (length p - 1))) ++ (if has_next p then cont else end_)
  end.
(** one row per node of R, in pre-order *)
Definition rows_spec : list row :=
  map (fun p => (pre_spec p, fill_spec p, label_at R p)) (pre_positions R []).
End S.

(** the rendered tree *)
Section Rendered.
Variable childiter : list tree -> list tree.
Variable maxlevel : option Z.
Fixpoint rendered (fuel : nat) (t : tree) (level : Z) : tree :=
  match fuel with
  | O => T (label t) []
  | S fu =>
      T (label t) (if (match maxlevel with None => true | Some m => level + 1 <? m end)
                   then match kids t with
                        | [] => []            (* `if children:` - childiter is not called on an empty tuple *)
                        | cs => map (fun c => rendered fu c (level + 1)) (childiter cs)
                        end
                   else [])
  end.
End Rendered.
