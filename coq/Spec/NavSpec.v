(** What C04 and C15 demand, over a root tree and a position. *)
Require Import AT.Model.Base AT.Model.Rose AT.Model.Nav AT.Spec.IterSpec.

(** all prefixes of a position, shortest first: the root, ..., the node *)
Fixpoint prefixes (p : pos) : list pos :=
  match p with
  | [] => [[]]
  | i :: r => [] :: map (cons i) (prefixes r)
  end.

Definition path_spec (t : tree) (p : pos) : list id := map (label_at t) (prefixes p).
Definition ancestors_spec (t : tree) (p : pos) : list id := removelast (path_spec t p).
Definition root_spec (t : tree) (p : pos) : id := label t.
Definition depth_spec (p : pos) : nat := length p.

(** the parent's other children, in order *)
Fixpoint drop_nth {A} (i : nat) (l : list A) : list A :=
  match l, i with
  | [], _ => []
  | _ :: r, O => r
  | x :: r, S k => x :: drop_nth k r
  end.
Definition siblings_spec (t : tree) (p : pos) : list id :=
  match p with
  | [] => []
  | _ => map label (drop_nth (last p 0) (kids (sub t (removelast p))))
  end.

Fixpoint leaves_spec (s : tree) : list id :=
  match s with
  | T n [] => [n]
  | T n cs => flat_map leaves_spec cs
  end.
Definition descendants_spec (s : tree) : list id := tl (preorder s).
Definition size_spec (s : tree) : nat := S (length (descendants_spec s)).
(** number of edges on the longest downward path *)
Definition height_spec (s : tree) : nat := theight s.

(** longest common prefix *)
Fixpoint lcp (a b : pos) : pos :=
  match a, b with
  | x :: a', y :: b' => if Nat.eqb x y then x :: lcp a' b' else []
  | _, _ => []
  end.
Definition lcp_all (ps : list pos) : pos :=
  match ps with
  | [] => []
  | p :: r => fold_left lcp r p
  end.
(** common ancestors = the proper ancestors shared by all: the prefixes of the
    longest common prefix of the parents' positions *)
Definition commonancestors_spec (t : tree) (ps : list pos) : list id :=
  match ps with
  | [] => []
  | _ => if existsb (fun p => match p with [] => true | _ => false end) ps then []
         else map (label_at t) (prefixes (lcp_all (map (@removelast nat) ps)))
  end.

Definition leftsibling_spec (t : tree) (p : pos) : option id :=
  match p with
  | [] => None
  | _ => match last p 0 with
         | O => None
         | S i => option_map label (nth_error (kids (sub t (removelast p))) i)
         end
  end.
Definition rightsibling_spec (t : tree) (p : pos) : option id :=
  match p with
  | [] => None
  | _ => option_map label (nth_error (kids (sub t (removelast p))) (S (last p 0)))
  end.

(** Walker: with c the longest common prefix of the two positions,
    upwards = the nodes from start up to but excluding c, common = c,
    downwards = the nodes below c down to end *)
Definition walk_spec (t : tree) (pa pb : pos) : list id * id * list id :=
  let c := lcp pa pb in
  let k := length c in
  (rev (map (label_at t) (skipn (S k) (prefixes pa))),
   label_at t c,
   map (label_at t) (skipn (S k) (prefixes pb))).
