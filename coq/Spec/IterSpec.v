(** What C05/C06 demand, written independently of the iterator algorithms. *)
Require Import AT.Model.Base AT.Model.Rose.
Local Open Scope Z_scope.

(** the three unrestricted orders *)
Fixpoint preorder (t : tree) : list id :=
  match t with T n cs => n :: flat_map preorder cs end.
Fixpoint postorder (t : tree) : list id :=
  match t with T n cs => flat_map postorder cs ++ [n] end.

Fixpoint zip_app (a b : list (list id)) : list (list id) :=
  match a, b with
  | [], _ => b
  | _, [] => a
  | x :: a', y :: b' => (x ++ y) :: zip_app a' b'
  end.
(** [levels t]: the nodes of [t] grouped by depth, each group in the order of
    their parents and then sibling order *)
Fixpoint levels (t : tree) : list (list id) :=
  match t with T n cs => [n] :: fold_right (fun c acc => zip_app (levels c) acc) [] cs end.
Definition levels_forest (ts : list tree) : list (list id) :=
  fold_right (fun c acc => zip_app (levels c) acc) [] ts.
Definition levelorder (t : tree) : list id := concat (levels t).

(** every second group (levels 1, 3, 5, ...) reversed *)
Fixpoint zigzag_spec (odd : bool) (gs : list (list id)) : list (list id) :=
  match gs with
  | [] => []
  | g :: r => (if odd then rev g else g) :: zigzag_spec (negb odd) r
  end.

Section Restrict.
Variables (f stop : id -> bool).

(** a node at relative depth [d] is below [maxlevel] *)
Definition below (d : Z) (ml : option Z) : bool :=
  match ml with Some m => d <? m | None => true end.

(** the sub-tree of ADMITTED nodes: relative depth below maxlevel and no node
    on the way down (itself included) satisfies stop.  The admitted set is
    prefix closed, so it is a tree or empty: a forest of length <= 1. *)
Fixpoint prune (ml : option Z) (d : Z) (t : tree) : list tree :=
  match t with
  | T n cs =>
      if stop n || negb (below d ml) then []
      else [T n (flat_map (prune ml (d + 1)) cs)]
  end.

Definition spec_pre (ml : option Z) (t : tree) : list id :=
  filter f (flat_map preorder (prune ml 0 t)).
Definition spec_post (ml : option Z) (t : tree) : list id :=
  filter f (flat_map postorder (prune ml 0 t)).
Definition spec_groups (ml : option Z) (t : tree) : list (list id) :=
  map (filter f) (levels_forest (prune ml 0 t)).
Definition spec_level (ml : option Z) (t : tree) : list id :=
  concat (spec_groups ml t).
Definition spec_zigzag (ml : option Z) (t : tree) : list (list id) :=
  zigzag_spec false (spec_groups ml t).
End Restrict.

(** the admitted set stated pointwise, as the property words it: a node is
    ADMITTED iff its relative depth is below maxlevel and no node on the path
    from the start node down to and including itself satisfies stop.
    [annotate] walks the unrestricted pre-order and flags every node. *)
Section AdmittedSet.
Variables (stop : id -> bool).
Fixpoint annotate (ml : option Z) (d : Z) (ok_above : bool) (t : tree) : list (id * bool) :=
  match t with
  | T n cs =>
      let ok := ok_above && negb (stop n) in
      (n, ok && below d ml) :: flat_map (annotate ml (d + 1) ok) cs
  end.
(** the admitted nodes, in the order of the unrestricted pre-order *)
Definition admitted_in_order (ml : option Z) (t : tree) : list id :=
  map fst (filter snd (annotate ml 0 true t)).
End AdmittedSet.
