(** What C14 demands. *)
Require Import AT.Model.Base AT.Model.Rose AT.Spec.IterSpec.
Local Open Scope Z_scope.

(** the count rule: below mincount first, then above maxcount *)
Definition count_check (lo hi : option Z) (l : list id) : result (list id) :=
  let len := Z.of_nat (length l) in
  if (match lo with Some m => len <? m | None => false end)
  then Err (CountAtLeast (match lo with Some m => m | None => 0 end) len)
  else if (match hi with Some M => M <? len | None => false end)
  then Err (CountAtMost (match hi with Some M => M | None => 0 end) len)
  else Ok l.

Definition spec_findall (f stop : id -> bool) (ml lo hi : option Z) (t : tree) : result (list id) :=
  count_check lo hi (spec_pre f stop ml t).

Definition spec_find (f stop : id -> bool) (ml : option Z) (t : tree) : result (option id) :=
  match spec_pre f stop ml t with
  | [] => Ok None
  | [x] => Ok (Some x)
  | l => Err (CountAtMost 1 (Z.of_nat (length l)))
  end.

Definition has_attr_value {val} (val_eqb : val -> val -> bool) (attr : id -> option val) (value : val) (n : id) : bool :=
  match attr n with Some v => val_eqb v value | None => false end.
