(** What C07 / C08 demand. *)
Require Import AT.Model.Base AT.Model.Rose AT.Model.Nav AT.Model.Resolver.

Section S.
Variable nm : id -> str.
Variables (ignorecase : bool).
Variable t : tree.

Definition s_dotdot : str := [46; 46]%N.
Definition s_dot : str := [46]%N.

Definition eq_name (a b : str) : bool :=
  if ignorecase then str_eqb (upper a) (upper b) else str_eqb a b.

(** one component: '..' moves to the parent, '' and '.' stay, any other
    component moves to the first child whose path attribute equals it *)
Definition step_spec (p : pos) (comp : str) : pos + exn :=
  if str_eqb comp s_dotdot then
    match p with [] => inr RootResolverError | _ => inl (removelast p) end
  else if str_eqb comp [] || str_eqb comp s_dot then inl p
  else match find (fun c => eq_name (nm (label_at t c)) comp) (children_pos t p) with
       | Some c => inl c
       | None => inr ChildResolverError
       end.
Fixpoint follow_spec (comps : list str) (p : pos) : pos + exn :=
  match comps with
  | [] => inl p
  | c :: r => match step_spec p c with inl q => follow_spec r q | inr e => inr e end
  end.

(** declarative wildcard matching of one name: '*' any run of characters,
    '?' exactly one character, any other character only itself, whole name *)
Definition ch_eq (a b : N) : bool := if ignorecase then N.eqb (upper_c a) (upper_c b) else N.eqb a b.
Inductive wild : str -> str -> Prop :=
| wild_nil : wild [] []
| wild_star_skip p n : wild p n -> wild (42%N :: p) n
| wild_star_eat p c n : wild (42%N :: p) n -> wild (42%N :: p) (c :: n)
| wild_qm p c n : wild p n -> wild (63%N :: p) (c :: n)
| wild_lit x p c n : x <> 42%N -> x <> 63%N -> ch_eq x c = true -> wild p n -> wild (x :: p) (c :: n).
End S.

(** ---- C08: denotation of a glob pattern ---- *)
Section Den.
Variable nm : id -> str.
Variable ignorecase : bool.
Variable t : tree.

(** the declarative matcher as a boolean *)
Fixpoint wild_b (p n : str) : bool :=
  match p with
  | [] => match n with [] => true | _ => false end
  | x :: p' =>
      if N.eqb x 42 then
        (fix star (n : str) : bool := wild_b p' n || match n with _ :: n' => star n' | [] => false end) n
      else if N.eqb x 63 then match n with _ :: n' => wild_b p' n' | [] => false end
      else match n with c :: n' => ch_eq ignorecase x c && wild_b p' n' | [] => false end
  end.

Definition s_starstar : str := [42; 42]%N.
(** the set of nodes a component list denotes from a node *)
Fixpoint den (comps : list str) (p : pos) : list pos :=
  match comps with
  | [] => [p]
  | c :: r =>
      if str_eqb c s_dotdot then match p with [] => [] | _ => den r (removelast p) end
      else if str_eqb c [] || str_eqb c s_dot then den r p
      else if str_eqb c s_starstar then flat_map (den r) (pre_positions t p)
      else flat_map (den r) (filter (fun ch => wild_b c (nm (label_at t ch))) (children_pos t p))
  end.
End Den.
