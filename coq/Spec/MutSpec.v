(** What C01, C02, C03 and C16 demand of the link state, written pointwise
    and independently of the setter code. *)
Require Import AT.Model.Base AT.Model.Heap AT.Model.Mutate.

(** ---------------- C01: one consistent forest ---------------- *)
Inductive chain (h : heap) : id -> list id -> Prop :=
| chain_root n : parent h n = None -> chain h n []
| chain_step n p l : parent h n = Some p -> chain h p l -> chain h n (p :: l).

Record Inv (h : heap) : Prop := {
  inv_bound_p : forall n p, parent h n = Some p -> n < length h /\ p < length h;
  inv_bound_c : forall p n, In n (children h p) -> n < length h /\ p < length h;
  inv_link : forall n p, parent h n = Some p <-> In n (children h p);
  inv_nodup : forall p, NoDup (children h p);
  inv_acyclic : forall n, exists l, chain h n l }.

(** a call names existing nodes (or non-nodes) of a universe of [L] nodes *)
Definition valid_value (L : nat) (v : value) : Prop :=
  match v with VNode p => p < L | _ => True end.
Definition valid_values (L : nat) (xs : list value) : Prop := Forall (valid_value L) xs.
Definition valid_op (L : nat) (o : op) : Prop :=
  match o with
  | SetParent n v => n < L /\ valid_value L v
  | SetChildren n a => n < L /\ match a with CList xs => valid_values L xs | CNotIterable => True end
  | DelChildren n => n < L
  | Construct p c => valid_value L p /\
      match c with Some (CList xs) => valid_values L xs | _ => True end
  end.

(** the same as a boolean, evaluated on the link maps observed from the
    implementation *)
Definition count_id (l : list id) (n : id) : nat := length (filter (Nat.eqb n) l).
Fixpoint nodup_ids (l : list id) : bool :=
  match l with [] => true | x :: r => negb (mem r x) && nodup_ids r end.
Definition inv_b (h : heap) : bool :=
  let len := length h in
  let ids := seq 0 len in
  forallb (fun n =>
    (match parent h n with
     | Some p => Nat.ltb p len && Nat.eqb (count_id (children h p) n) 1
     | None => true
     end)
    && forallb (fun c => Nat.ltb c len && option_eqb Nat.eqb (parent h c) (Some n)) (children h n)
    && nodup_ids (children h n)
    && (match path_rev (walk_fuel h) h n with Ok _ => true | _ => false end)) ids.

(** ---------------- C02: exact effects ---------------- *)
Definition build_heap (len : nat) (par : id -> option id) (chi : id -> list id) : heap :=
  map (fun m => {| cparent := par m; cchildren := chi m |}) (seq 0 len).

Definition oid_eqb := option_eqb Nat.eqb.

(** n.parent = v (v a node or None) on a state where it is not refused:
    n leaves its former parent's list (the others keep their order), is appended
    last to v's list, n's parent is v, every other field is unchanged;
    assigning the current parent changes nothing *)
Definition eff_set_parent (h : heap) (n : id) (v : option id) : heap :=
  if oid_eqb (parent h n) v then h else
  build_heap (length h)
    (fun m => if Nat.eqb m n then v else parent h m)
    (fun m => (if oid_eqb (parent h n) (Some m) then remove_id n (children h m) else children h m)
              ++ (if oid_eqb v (Some m) then [n] else [])).

Definition del_effect (h : heap) (n : id) : heap :=
  build_heap (length h)
    (fun m => if mem (children h n) m then None else parent h m)
    (fun m => if Nat.eqb m n then [] else children h m).

(** n.children = xs (xs distinct nodes, accepted): n.children is xs in order,
    former children not in xs become roots, every x leaves its former parent,
    all other fields are unchanged *)
Definition eff_set_children (h : heap) (n : id) (xs : list id) : heap :=
  build_heap (length h)
    (fun m => if mem xs m then Some n else if mem (children h n) m then None else parent h m)
    (fun m => if Nat.eqb m n then xs else filter (fun c => negb (mem xs c)) (children h m)).

(** proper ancestors of n (nearest first), read off the links *)
Definition ancestors_of (h : heap) (n : id) : list id :=
  match path_rev (walk_fuel h) h n with Ok (_ :: l) => l | _ => [] end.

Fixpoint has_dup (seen : list id) (xs : list value) : bool :=
  match xs with
  | [] => false
  | VNode c :: r => mem seen c || has_dup (c :: seen) r
  | _ :: r => has_dup seen r
  end.
Definition has_non_node (xs : list value) : bool :=
  existsb (fun v => match v with VNode _ => false | _ => true end) xs.

(** which refusal, if any, a call must end in (NodeMixin; the hook-free case):
    TreeError exactly for a duplicate child or a non-node parent/child,
    otherwise LoopError exactly when the node would become its own ancestor *)
Definition must_refuse (typed : bool) (h : heap) (o : op) : option exn :=
  match o with
  | SetParent n VOther => Some (if typed then TreeError else AttributeError)
  | SetParent n VNone => None
  | SetParent n (VNode p) =>
      if oid_eqb (parent h n) (Some p) then None
      else if Nat.eqb p n || mem (ancestors_of h p) n then Some LoopError else None
  | SetChildren n CNotIterable => Some TypeError
  | SetChildren n (CList xs) =>
      if (typed && has_non_node xs) || has_dup [] xs then Some TreeError
      else if existsb (fun x => Nat.eqb x n || mem (ancestors_of h n) x) (value_ids xs) then Some LoopError
      else None
  | DelChildren n => None
  | Construct _ _ => None
  end.

(** the link state a hook-free call must leave behind *)
Definition expected_heap (typed : bool) (h : heap) (o : op) : heap :=
  match must_refuse typed h o with
  | Some _ => h
  | None =>
      match o with
      | SetParent n v => eff_set_parent h n (match v with VNode p => Some p | _ => None end)
      | SetChildren n (CList xs) => eff_set_children h n (value_ids xs)
      | DelChildren n => del_effect h n
      | _ => h
      end
  end.

(** ---------------- C16: the hook log of a successful call ---------------- *)
Definition log_set_parent (h : heap) (n : id) (v : option id) : list event :=
  if oid_eqb (parent h n) v then [] else
  let h1 := eff_set_parent h n None in
  let h2 := eff_set_parent h1 n v in
  (match parent h n with
   | Some p => [Ev PreDetach n [p] h; Ev PostDetach n [p] h1]
   | None => []
   end) ++
  (match v with
   | Some q => [Ev PreAttach n [q] h1; Ev PostAttach n [q] h2]
   | None => []
   end).

(** successive parent assignments, each logged in the state reached so far *)
Fixpoint log_moves (h : heap) (moves : list (id * option id)) : list event * heap :=
  match moves with
  | [] => ([], h)
  | (c, v) :: r =>
      let l := log_set_parent h c v in
      let h' := eff_set_parent h c v in
      let '(l', h'') := log_moves h' r in (l ++ l', h'')
  end.

Definition log_del_children (h : heap) (n : id) : list event * heap :=
  let cs := children h n in
  let '(l, h') := log_moves h (map (fun c => (c, None)) cs) in
  ([Ev PreDetachChildren n cs h] ++ l ++ [Ev PostDetachChildren n cs h'], h').

Definition log_set_children (h : heap) (n : id) (xs : list id) : list event * heap :=
  let '(l1, h1) := log_del_children h n in
  let '(l2, h2) := log_moves h1 (map (fun c => (c, Some n)) xs) in
  (l1 ++ [Ev PreAttachChildren n xs h1] ++ l2 ++ [Ev PostAttachChildren n xs h2], h2).

Definition expected_log (typed : bool) (h : heap) (o : op) : list event :=
  match must_refuse typed h o with
  | Some _ => []
  | None =>
      match o with
      | SetParent n v => log_set_parent h n (match v with VNode p => Some p | _ => None end)
      | SetChildren n (CList xs) => fst (log_set_children h n (value_ids xs))
      | DelChildren n => fst (log_del_children h n)
      | _ => []
      end
  end.

Definition event_eqb (a b : event) : bool :=
  match a, b with
  | Ev k n args s, Ev k' n' args' s' =>
      hookkind_eqb k k' && Nat.eqb n n' && ids_eqb args args' && heap_eqb s s'
  end.
Definition log_eqb := list_eqb event_eqb.
