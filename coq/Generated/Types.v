(** Types of the constants emitted by tools/extract.py (static file). *)
Inductive keyfield := KF_pat | KF_ignorecase.
Inductive cacheclear := CC_ge | CC_gt.
Inductive trelse := TE_escape | TE_verbatim.
