(** The link state of a node universe: one cell per node (index = identity),
    holding the two private link fields [__parent] and [__children]. *)
Require Import AT.Model.Base.

Record cell := { cparent : option id; cchildren : list id }.
Definition heap := list cell.
Definition empty_cell := {| cparent := None; cchildren := [] |}.
Definition get (h : heap) (n : id) : cell := nth n h empty_cell.
Definition parent (h : heap) (n : id) : option id := cparent (get h n).
Definition children (h : heap) (n : id) : list id := cchildren (get h n).

Fixpoint upd (h : heap) (n : id) (c : cell) : heap :=
  match h, n with
  | [], _ => []
  | _ :: t, O => c :: t
  | x :: t, S k => x :: upd t k c
  end.

Definition set_parent_field (h : heap) (n : id) (p : option id) : heap :=
  upd h n {| cparent := p; cchildren := children h n |}.
Definition set_children_field (h : heap) (n : id) (cs : list id) : heap :=
  upd h n {| cparent := parent h n; cchildren := cs |}.

(** [child for child in parentchildren if child is not self] *)
Definition remove_id (n : id) (l : list id) : list id := filter (fun c => negb (Nat.eqb c n)) l.

(** the two "ATOMIC" blocks of __detach / __attach *)
Definition detach_links (h : heap) (n p : id) : heap :=
  set_parent_field (set_children_field h p (remove_id n (children h p))) n None.
Definition attach_links (h : heap) (n p : id) : heap :=
  set_parent_field (set_children_field h p (children h p ++ [n])) n (Some p).

(** the state after detaching [n] from its parent (if any) *)
Definition after_detach (h : heap) (n : id) : heap :=
  match parent h n with Some p => detach_links h n p | None => h end.

(** all-roots universe of [k] nodes; allocation of one more node *)
Definition init (k : nat) : heap := repeat empty_cell k.
Definition alloc (h : heap) : heap * id := (h ++ [empty_cell], length h).

Definition cell_eqb (a b : cell) : bool :=
  option_eqb Nat.eqb (cparent a) (cparent b) && ids_eqb (cchildren a) (cchildren b).
Definition heap_eqb : heap -> heap -> bool := list_eqb cell_eqb.

(** iter_path_reverse: node, node.parent, ... up to the root.  The [while]
    loop becomes recursion on fuel. *)
Fixpoint path_rev (fuel : nat) (h : heap) (x : id) : result (list id) :=
  match fuel with
  | O => OutOfFuel
  | S fu =>
      match parent h x with
      | None => Ok [x]
      | Some p => r <- path_rev fu h p ;; Ok (x :: r)
      end
  end.
Definition walk_fuel (h : heap) : nat := S (length h).
