(** User-overridable special methods of a node class as oracles, CPython's
    dispatch for the operations that consult them, and the two library
    functions that DID consult them before their repair (util.leftsibling /
    rightsibling: be4b49c; Resolver.glob '**': 01faf79).  Every other model
    function of this development is written without access to this record:
    that is the formal content of "identity only". *)
Require Import AT.Model.Base.

Record special := {
  ueq : id -> id -> bool;      (* x.__eq__(y) for two nodes *)
  utruth : id -> bool          (* bool(x): __bool__, else __len__() != 0, else True *)
}.
(** a plain class: default __eq__ is identity, every object is truthy *)
Definition plain : special := {| ueq := Nat.eqb; utruth := fun _ => true |}.

(** list.index(x) / x in list: identity first, then __eq__ *)
Definition py_eq (U : special) (a b : id) : bool := Nat.eqb a b || ueq U a b.
Fixpoint py_index (U : special) (l : list id) (x : id) : option nat :=
  match l with
  | [] => None
  | y :: r => if py_eq U y x then Some 0 else match py_index U r x with Some i => Some (S i) | None => None end
  end.
Definition py_in (U : special) (l : list id) (x : id) : bool := existsb (fun y => py_eq U y x) l.

Fixpoint id_index (l : list id) (x : id) : option nat :=
  match l with
  | [] => None
  | y :: r => if Nat.eqb y x then Some 0 else match id_index r x with Some i => Some (S i) | None => None end
  end.

(** util.leftsibling(node) before the repair:
      if node.parent: idx = pchildren.index(node); if idx: return pchildren[idx - 1]; return None *)
Definition leftsibling_old (U : special) (parent : option id) (pchildren : list id) (n : id) : option id :=
  match parent with
  | Some p => if utruth U p then
                match py_index U pchildren n with Some (S i) => nth_error pchildren i | _ => None end
              else None
  | None => None
  end.
Definition rightsibling_old (U : special) (parent : option id) (pchildren : list id) (n : id) : option id :=
  match parent with
  | Some p => if utruth U p then
                match py_index U pchildren n with Some i => nth_error pchildren (S i) | None => None end
              else None
  | None => None
  end.
(** after the repair: parent tested against None, the node located by identity *)
Definition leftsibling_new (parent : option id) (pchildren : list id) (n : id) : option id :=
  match parent with
  | Some _ => match id_index pchildren n with Some (S i) => nth_error pchildren i | _ => None end
  | None => None
  end.
Definition rightsibling_new (parent : option id) (pchildren : list id) (n : id) : option id :=
  match parent with
  | Some _ => match id_index pchildren n with Some i => nth_error pchildren (S i) | None => None end
  | None => None
  end.

(** Resolver.__glob '**': `if match not in matches: matches.append(match)` *)
Definition add_new_old (U : special) (matches ms : list id) : list id :=
  fold_left (fun acc m => if py_in U acc m then acc else acc ++ [m]) ms matches.
Definition add_new_id (matches ms : list id) : list id :=
  fold_left (fun acc m => if existsb (Nat.eqb m) acc then acc else acc ++ [m]) ms matches.
