(** The object graph that pickle / copy.deepcopy traverse from an entry node:
    every node refers to its parent, its children and - a symlink - its target.
    The copier itself is CPython's; its contract (an isomorphic copy of the
    reachable object graph under a fresh injective renaming) is what the
    correspondence check evaluates on the implementation's copies. *)
Require Import AT.Model.Base AT.Model.Heap.

(** per node: its symlink target, if it is a link *)
Definition targets := list (option id).
Definition target_of (tg : targets) (n : id) : option id := nth n tg None.

(** references held by a node *)
Definition refs (h : heap) (tg : targets) (n : id) : list id :=
  (match parent h n with Some p => [p] | None => [] end) ++ children h n
  ++ (match target_of tg n with Some t => [t] | None => [] end).

(** reachability, declaratively *)
Inductive Reach (h : heap) (tg : targets) (e : id) : id -> Prop :=
| reach_entry : Reach h tg e e
| reach_step x y : Reach h tg e x -> In y (refs h tg x) -> Reach h tg e y.

(** ... and as a computation (worklist with fuel; [seen] grows until closed) *)
Fixpoint reach_loop (fuel : nat) (h : heap) (tg : targets) (seen work : list id) : list id :=
  match fuel with
  | O => seen
  | S fu =>
      match work with
      | [] => seen
      | x :: r =>
          let new := filter (fun y => negb (mem seen y) && negb (mem r y)) (refs h tg x) in
          let new := (fix dedup (l : list id) : list id :=
                        match l with [] => [] | y :: l' => if mem l' y then dedup l' else y :: dedup l' end) new in
          reach_loop fu h tg (seen ++ new) (r ++ new)
      end
  end.
Definition reach_list (h : heap) (tg : targets) (e : id) : list id :=
  reach_loop (S (length h * S (length h))) h tg [e] [e].
