(** Notification hooks that are not mere observers: a hook may itself detach
    other nodes ([x.parent = None]) while the parent setter is running.  The
    setter is transcribed once more with such hooks; with hooks that do nothing
    it is the setter of Model/Mutate.v (proved in Proofs/ReentryProofs.v). *)
Require Import AT.Model.Base AT.Model.Heap AT.Model.Mutate.

Section Re.
(** [acts i k n]: the nodes the i-th hook invocation of the call (kind k, on
    node n) detaches from their parents, in order *)
Variable acts : nat -> hookkind -> id -> list id.

Definition hook_r (k : hookkind) (n : id) (args : list id) : M unit :=
  fun s =>
    let i := cnt s in
    (Ok tt, {| heap_of := fold_left after_detach (acts i k n) (heap_of s); cnt := S i;
               log := log s ++ [Ev k n args (heap_of s)] |}).

(** __detach(parent): the parent's children list is read AFTER _pre_detach returned *)
Definition detach_r (n : id) (p : option id) : M unit :=
  match p with
  | None => ret tt
  | Some p =>
      hook_r PreDetach n [p] ;;;
      h <-- get_heap ;;;
      put_heap (detach_links h n p) ;;;
      hook_r PostDetach n [p]
  end.

(** __attach(parent): likewise *)
Definition attach_r (n : id) (v : option id) : M unit :=
  match v with
  | None => ret tt
  | Some p =>
      hook_r PreAttach n [p] ;;;
      h <-- get_heap ;;;
      put_heap (attach_links h n p) ;;;
      hook_r PostAttach n [p]
  end.

Definition set_parent_r (n : id) (v : option id) : M unit :=
  h <-- get_heap ;;;
  let p := parent h n in
  if option_eqb Nat.eqb p v then ret tt
  else check_loop n v ;;; detach_r n p ;;; attach_r n v.
End Re.

Definition no_acts : nat -> hookkind -> id -> list id := fun _ _ _ => [].
