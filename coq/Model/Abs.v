(** The bridge between the two views of a forest: the link heap of
    Model/Heap.v (what the setters maintain) and the rose trees over which the
    read-only code is modelled.  [abs fuel h n] unfolds the object graph below
    node [n] along [children]. *)
Require Import AT.Model.Base AT.Model.Heap AT.Model.Rose.

Fixpoint abs (fuel : nat) (h : heap) (n : id) : tree :=
  match fuel with
  | O => T n []
  | S fu => T n (map (abs fu h) (children h n))
  end.
(** fuel that always suffices on a consistent forest: no downward path is
    longer than the universe *)
Definition abs_fuel (h : heap) : nat := S (length h).
Definition tree_of (h : heap) (n : id) : tree := abs (abs_fuel h) h n.
