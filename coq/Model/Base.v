(** Base definitions shared by the whole model: identities, strings, results,
    exceptions and a few list helpers.  No proofs live under Model/. *)
From Coq Require Export List Arith ZArith NArith Bool Lia.
Export ListNotations.

(** Node identities: allocated in creation order; Python's [is] is [Nat.eqb]. *)
Notation id := nat (only parsing).

(** Strings are lists of Unicode code points. *)
Notation str := (list N) (only parsing).

(** Exceptions as values.  [HookExn k]: the exception raised by the k-th hook
    invocation of a call (the harness raises [HookFault(k)]). *)
Inductive exn : Type :=
| TreeError | LoopError | TypeError | AssertionError
| HookExn (k : nat)
| ResolverError | ChildResolverError | RootResolverError
| CountAtLeast (lo n : Z) | CountAtMost (hi n : Z)
| WalkError | AttributeError | RecursionError | OtherError.

Inductive result (A : Type) : Type :=
| Ok (a : A) | Err (e : exn) | OutOfFuel.
Arguments Ok {A} a.
Arguments Err {A} e.
Arguments OutOfFuel {A}.

Definition bind {A B} (r : result A) (k : A -> result B) : result B :=
  match r with Ok a => k a | Err e => Err e | OutOfFuel => OutOfFuel end.
Notation "x <- r ;; k" := (bind r (fun x => k)) (at level 61, r at next level, right associativity).

Definition exn_eqb (a b : exn) : bool :=
  match a, b with
  | TreeError, TreeError | LoopError, LoopError | TypeError, TypeError
  | AssertionError, AssertionError | ResolverError, ResolverError
  | ChildResolverError, ChildResolverError | RootResolverError, RootResolverError
  | WalkError, WalkError | AttributeError, AttributeError
  | RecursionError, RecursionError | OtherError, OtherError => true
  | HookExn k, HookExn k' => Nat.eqb k k'
  | CountAtLeast a b, CountAtLeast a' b' => Z.eqb a a' && Z.eqb b b'
  | CountAtMost a b, CountAtMost a' b' => Z.eqb a a' && Z.eqb b b'
  | _, _ => false
  end.

(** Boolean equalities on the observable types. *)
Fixpoint list_eqb {A} (eqb : A -> A -> bool) (a b : list A) : bool :=
  match a, b with
  | [], [] => true
  | x :: a', y :: b' => eqb x y && list_eqb eqb a' b'
  | _, _ => false
  end.
Definition option_eqb {A} (eqb : A -> A -> bool) (a b : option A) : bool :=
  match a, b with
  | None, None => true
  | Some x, Some y => eqb x y
  | _, _ => false
  end.
Definition result_eqb {A} (eqb : A -> A -> bool) (a b : result A) : bool :=
  match a, b with
  | Ok x, Ok y => eqb x y
  | Err e, Err e' => exn_eqb e e'
  | OutOfFuel, OutOfFuel => true
  | _, _ => false
  end.
Definition ids_eqb := list_eqb Nat.eqb.
Definition str_eqb : str -> str -> bool := list_eqb N.eqb.

(** membership of an id in a list (used to present label sets as predicates) *)
Definition mem (l : list id) (n : id) : bool := existsb (Nat.eqb n) l.

(** Python truthiness of [maxlevel] in  [maxlevel - 1 if maxlevel else None]:
    [None] and [0] are falsy. *)
Definition dec_ml (ml : option Z) : option Z :=
  match ml with
  | Some m => if Z.eqb m 0 then None else Some (m - 1)%Z
  | None => None
  end.

(** indices of the [false] entries of a list of booleans (used by Corr reports) *)
Fixpoint bad_idx_from (i : nat) (l : list bool) : list nat :=
  match l with
  | [] => []
  | b :: r => (if b then [] else [i]) ++ bad_idx_from (S i) r
  end.
Definition bad_idx := bad_idx_from 0.
