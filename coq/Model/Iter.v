(** Transcription of anytree/iterators/*.py.  Generators become list-valued
    functions; [while] loops become recursion on explicit fuel ([OutOfFuel] is
    distinct from every real outcome).  [children] lists hold trees (a node
    together with what [.children] unfolds to). *)
Require Import AT.Model.Base AT.Model.Rose.
Local Open Scope Z_scope.

Section Iter.
Variables (f stop : id -> bool).   (* filter_, stop (defaults: fun _ => true / false) *)

(** AbstractIter._abort_at_level(level, maxlevel):
      maxlevel is not None and level > maxlevel *)
Definition abort_at_level (level : Z) (ml : option Z) : bool :=
  match ml with Some m => m <? level | None => false end.

(** AbstractIter._get_children(children, stop):
      [child for child in children if not stop(child)] *)
Definition get_children (cs : list tree) : list tree :=
  filter (fun c => negb (stop (label c))) cs.

(** AbstractIter.__init: the [children] handed to [_iter] *)
Definition init_children (ml : option Z) (t : tree) : list tree :=
  if abort_at_level 1 ml then [] else get_children [t].

(** PreOrderIter._iter(children, filter_, stop, maxlevel): per child
      if stop(child_): continue
      if filter_(child_): yield child_
      if not _abort_at_level(2, maxlevel):
          descendantmaxlevel = maxlevel - 1 if maxlevel else None
          yield from _iter(child_.children, ..., descendantmaxlevel) *)
Fixpoint pre_iter_t (ml : option Z) (t : tree) : list id :=
  match t with
  | T n cs =>
      if stop n then [] else
      (if f n then [n] else []) ++
      (if negb (abort_at_level 2 ml) then flat_map (pre_iter_t (dec_ml ml)) cs else [])
  end.
Definition pre_iter (ml : option Z) (children : list tree) : list id :=
  flat_map (pre_iter_t ml) children.
Definition PreOrderIter (ml : option Z) (t : tree) : list id :=
  pre_iter ml (init_children ml t).

(** PostOrderIter.__next(children, level, ...):
      if not _abort_at_level(level, maxlevel):
          for child in children:
              grandchildren = _get_children(child.children, stop)
              yield from __next(grandchildren, level + 1, ...)
              if filter_(child): yield child
    [post_t level c] is the body of the [for] for one child [c] that has
    already passed [_get_children]; the [stop] test on each grandchild is
    written as an [if] inside the [flat_map] (= [flat_map _ (get_children _)])
    so that the recursion is structural. *)
Fixpoint post_t (ml : option Z) (level : Z) (t : tree) : list id :=
  match t with
  | T n cs =>
      (if abort_at_level (level + 1) ml then []
       else flat_map (fun c => if stop (label c) then [] else post_t ml (level + 1) c) cs)
      ++ (if f n then [n] else [])
  end.
Definition post_next (ml : option Z) (level : Z) (children : list tree) : list id :=
  if abort_at_level level ml then [] else flat_map (post_t ml level) children.
Definition PostOrderIter (ml : option Z) (t : tree) : list id :=
  post_next ml 1 (init_children ml t).

(** LevelOrderIter._iter:
      level = 1
      while children:
          next_children = []
          level += 1
          if _abort_at_level(level, maxlevel):
              for child in children: if filter_(child): yield child
          else:
              for child in children:
                  if filter_(child): yield child
                  next_children += _get_children(child.children, stop)
          children = next_children *)
Definition yield_filtered (children : list tree) : list id :=
  filter f (map label children).
Fixpoint lo_loop (fuel : nat) (ml : option Z) (level : Z) (children : list tree) : result (list id) :=
  match fuel with
  | O => OutOfFuel
  | S fu =>
      match children with
      | [] => Ok []
      | _ =>
          let level' := level + 1 in
          let next_children :=
            if abort_at_level level' ml then []
            else flat_map (fun c => get_children (kids c)) children in
          r <- lo_loop fu ml level' next_children ;;
          Ok (yield_filtered children ++ r)
      end
  end.
(** fuel: the loop runs at most once per level of the tree, plus the final
    test with the empty list *)
Definition lo_fuel (t : tree) : nat := S (S (theight t)).
Definition LevelOrderIter (ml : option Z) (t : tree) : result (list id) :=
  lo_loop (lo_fuel t) ml 1 (init_children ml t).

(** LevelOrderGroupIter._iter:
      level = 1
      while children:
          yield tuple(child for child in children if filter_(child))
          level += 1
          if _abort_at_level(level, maxlevel): break
          children = _get_grandchildren(children, stop) *)
Fixpoint log_loop (fuel : nat) (ml : option Z) (level : Z) (children : list tree)
  : result (list (list id)) :=
  match fuel with
  | O => OutOfFuel
  | S fu =>
      match children with
      | [] => Ok []
      | _ =>
          let level' := level + 1 in
          if abort_at_level level' ml then Ok [yield_filtered children]
          else
            r <- log_loop fu ml level' (flat_map (fun c => get_children (kids c)) children) ;;
            Ok (yield_filtered children :: r)
      end
  end.
Definition LevelOrderGroupIter (ml : option Z) (t : tree) : result (list (list id)) :=
  log_loop (lo_fuel t) ml 1 (init_children ml t).

(** ZigZagGroupIter._iter:
      if children:
          _iter = LevelOrderGroupIter(children[0], filter_, stop, maxlevel)
          while True:
              try: yield next(_iter); yield tuple(reversed(next(_iter)))
              except StopIteration: break
    A fresh LevelOrderGroupIter is built on the start node, so [__init] (the
    maxlevel and stop tests on the start node) runs a second time. *)
Fixpoint zigzag (rev_now : bool) (groups : list (list id)) : list (list id) :=
  match groups with
  | [] => []
  | g :: r => (if rev_now then rev g else g) :: zigzag (negb rev_now) r
  end.
Definition ZigZagGroupIter (ml : option Z) (t : tree) : result (list (list id)) :=
  match init_children ml t with
  | [] => Ok []
  | c :: _ => gs <- LevelOrderGroupIter ml c ;; Ok (zigzag false gs)
  end.

End Iter.
