(** Transcription of DictExporter (exporter/dictexporter.py), DictImporter
    (importer/dictimporter.py), JsonExporter and JsonImporter.  Attribute
    values are opaque to all four (they are only copied): a value is a token. *)
Require Import AT.Model.Base AT.Generated.Extracted.
Local Open Scope Z_scope.

Definition key := str.
Definition val := Z.
Definition items := list (key * val).

(** a node with its instance dictionary (in insertion order, tree bookkeeping
    keys included) and its children *)
Inductive itree := I (attrs : items) (children : list itree).
(** an exported dictionary: its items and, if present, the 'children' list *)
Inductive dtree := D (data : items) (children : option (list dtree)).

Definition ikids (t : itree) := match t with I _ cs => cs end.
Definition iattrs (t : itree) := match t with I a _ => a end.

Fixpoint iheight (t : itree) : nat :=
  match t with I _ cs => fold_right (fun c acc => Nat.max (S (iheight c)) acc) O cs end.

(** _iter_attr_values: node.__dict__.items() without the bookkeeping keys *)
Definition is_skipped (k : key) : bool := existsb (str_eqb k) dict_skip_keys.
Definition iter_attr_values (a : items) : items := filter (fun kv => negb (is_skipped (fst kv))) a.

(** dictcls(pairs): a later pair with the same key replaces the value, the key keeps its first position *)
Fixpoint dict_set (d : items) (k : key) (v : val) : items :=
  match d with
  | [] => [(k, v)]
  | (k', v') :: r => if str_eqb k' k then (k', v) :: r else (k', v') :: dict_set r k v
  end.
Definition dict_of (pairs : items) : items := fold_left (fun d kv => dict_set d (fst kv) (snd kv)) pairs [].

Fixpoint all_ok {A} (l : list (result A)) : result (list A) :=
  match l with
  | [] => Ok []
  | x :: r => a <- x ;; b <- all_ok r ;; Ok (a :: b)
  end.

Section Export.
Variable attriter : items -> items.          (* attriter or identity *)
Variable childiter : list itree -> list itree.
Variable maxlevel : option Z.

(** __export(node, dictcls, attriter, childiter, level=1) *)
Fixpoint export_ (fuel : nat) (level : Z) (t : itree) : result dtree :=
  match fuel with
  | O => OutOfFuel
  | S fu =>
      let data := dict_of (attriter (iter_attr_values (iattrs t))) in
      if (match maxlevel with None => true | Some m => level <? m end) then
        cs <- all_ok (map (export_ fu (level + 1)) (childiter (ikids t))) ;;
        Ok (D data (match cs with [] => None | _ => Some cs end))
      else Ok (D data None)
  end.
Definition export (t : itree) : result dtree := export_ (S (iheight t)) 1 t.
End Export.

(** DictImporter.__import(data, parent): attrs = dict(data); children =
    attrs.pop('children', []); node = nodecls(parent=parent, **attrs); then the
    children in order.  [ctor attrs] is the instance dictionary (without
    bookkeeping) the node class ends up with for these keyword arguments. *)
Section Import.
Variable ctor : items -> items.
Fixpoint import_ (d : dtree) : itree :=
  match d with
  | D data cs => I (ctor data) (match cs with Some l => map import_ l | None => [] end)
  end.
End Import.
(** AnyNode / a plain NodeMixin class: __dict__.update(kwargs) *)
Definition ctor_any (a : items) : items := a.
(** Node(name, parent, children, **kwargs): __dict__.update(kwargs); self.name = name *)
Definition s_name : key := [110; 97; 109; 101]%N.
Definition ctor_node (a : items) : items :=
  match find (fun kv => str_eqb (fst kv) s_name) a with
  | Some (_, v) => filter (fun kv => negb (str_eqb (fst kv) s_name)) a ++ [(s_name, v)]
  | None => a
  end.

(** JsonExporter / JsonImporter: the codec is a pair of functions (CPython's
    json under the exporter's keyword options) *)
Section Json.
Variable text : Type.
Variable dumps : dtree -> text.
Variable loads : text -> dtree.
Variable attriter : items -> items.
Variable childiter : list itree -> list itree.
(** _export: dictexporter = self.dictexporter or DictExporter();
             if self.maxlevel is not None: dictexporter.maxlevel = self.maxlevel *)
Definition json_effective_maxlevel (exporter_ml json_ml : option Z) : option Z :=
  match json_ml with Some m => Some m | None => exporter_ml end.
Definition json_export (exporter_ml json_ml : option Z) (t : itree) : result text :=
  d <- export attriter childiter (json_effective_maxlevel exporter_ml json_ml) t ;; Ok (dumps d).
(** write(node, filehandle): json.dump of the same data with the same options *)
Definition json_write := json_export.
Definition json_import (ctor : items -> items) (s : text) : itree := import_ ctor (loads s).
Definition json_read := json_import.
End Json.
