(** Transcription of anytree/render.py (RenderTree.__next, __item, _is_last,
    __str__, by_attr, _format_row_any) and of the Node / AnyNode reprs
    (node/util.py _repr). *)
Require Import AT.Model.Base AT.Model.Rose AT.Generated.Extracted.
Local Open Scope Z_scope.

Definition row := (str * str * id)%type.

(** _is_last(iterable): (item, is_last) pairs *)
Fixpoint is_last_pairs {A} (l : list A) : list (A * bool) :=
  match l with
  | [] => []
  | x :: r => match r with [] => [(x, true)] | _ => (x, false) :: is_last_pairs r end
  end.

Fixpoint all_ok {A} (l : list (result A)) : result (list A) :=
  match l with
  | [] => Ok []
  | x :: r => a <- x ;; b <- all_ok r ;; Ok (a :: b)
  end.

Section R.
Variable childiter : list tree -> list tree.
Variables (vertical cont end_ : str).       (* the style *)
Variable maxlevel : option Z.

(** AbstractStyle.empty = ' ' * len(self.end) *)
Definition empty : str := repeat style_empty_char (length end_).

(** __item(node, continues, style) *)
Definition item (continues : list bool) (n : id) : row :=
  match continues with
  | [] => ([], [], n)
  | _ =>
      let items := map (fun c : bool => if c then vertical else empty) continues in
      let indent := concat (removelast items) in
      let branch := if last continues false then cont else end_ in
      (indent ++ branch, concat items, n)
  end.

(** __next(node, continues, level=0) *)
Fixpoint next (fuel : nat) (t : tree) (continues : list bool) (level : Z) : result (list row) :=
  match fuel with
  | O => OutOfFuel
  | S fu =>
      let level' := level + 1 in
      rest <-
        (if (match maxlevel with None => true | Some m => level' <? m end) then
           match kids t with
           | [] => Ok []
           | cs =>
               rs <- all_ok (map (fun ci => next fu (fst ci) (continues ++ [negb (snd ci)]) level')
                                 (is_last_pairs (childiter cs))) ;;
               Ok (concat rs)
           end
         else Ok []) ;;
      Ok (item continues (label t) :: rest)
  end.
Definition render_rows (t : tree) : result (list row) := next (S (theight t)) t [] 0.
End R.

(** lines = X.splitlines() or [''] (or the list/tuple itself, or ['']);
    first line after pre, further lines after fill *)
Definition or_blank (lines : list str) : list str := match lines with [] => [[]] | _ => lines end.
Definition format_row (r : row) (lines : list str) : list str :=
  let '(pre, fill, _) := r in
  let ls := or_blank lines in
  (pre ++ hd [] ls) :: map (fun l => fill ++ l) (tl ls).
Fixpoint join (sep : str) (parts : list str) : str :=
  match parts with
  | [] => []
  | [x] => x
  | x :: r => x ++ sep ++ join sep r
  end.
(** '\n'.join(get()) of __str__ / by_attr: [lines_of n] = the lines of the
    node's repr / attribute value as Python split them *)
Definition render_text (rows : list row) (lines_of : id -> list str) : str :=
  join [10%N] (flat_map (fun r => format_row r (lines_of (snd r))) rows).

(** _repr(node, args, nameblacklist): classname(args..., key=repr(value) for the
    public, non-blacklisted instance attributes sorted by key) *)
Fixpoint str_leb (a b : str) : bool :=
  match a, b with
  | [], _ => true
  | _ :: _, [] => false
  | x :: a', y :: b' => if N.ltb x y then true else if N.eqb x y then str_leb a' b' else false
  end.
Fixpoint insert_by_key (kv : str * str) (l : list (str * str)) : list (str * str) :=
  match l with
  | [] => [kv]
  | x :: r => if str_leb (fst kv) (fst x) then kv :: l else x :: insert_by_key kv r
  end.
Definition sort_by_key (l : list (str * str)) : list (str * str) := fold_right insert_by_key [] l.
Definition repr_args (classname : str) (args : list str) (blacklist : list str) (dict_items : list (str * str)) : str :=
  let public := filter (fun kv => negb (match fst kv with 95%N :: _ => true | _ => false end)
                                  && negb (existsb (str_eqb (fst kv)) blacklist)) (sort_by_key dict_items) in
  classname ++ [40%N] ++ join [44; 32]%N (args ++ map (fun kv => fst kv ++ [61%N] ++ snd kv) public) ++ [41%N].
(** Node.__repr__: args = ['%r' % separator.join([''] + [str(node.name) for node in path])];
    for names whose repr is the plainly quoted text *)
Definition node_repr (classname sep : str) (path_names : list str) (dict_items : list (str * str)) : str :=
  repr_args classname [[39%N] ++ join sep ([] :: path_names) ++ [39%N]] [[110; 97; 109; 101]%N] dict_items.
Definition anynode_repr (classname : str) (dict_items : list (str * str)) : str :=
  repr_args classname [] [] dict_items.
