(** Transcription of anytree/search.py and anytree/cachedsearch.py. *)
Require Import AT.Model.Base AT.Model.Rose AT.Model.Iter.
Local Open Scope Z_scope.

(** _findall(node, filter_, stop, maxlevel, mincount, maxcount):
      result = tuple(PreOrderIter(node, filter_, stop, maxlevel))
      resultlen = len(result)
      if mincount is not None and resultlen < mincount: raise CountError("at least", mincount, resultlen)
      if maxcount is not None and resultlen > maxcount: raise CountError("at maximum", maxcount, resultlen)
      return result *)
Definition findall (f stop : id -> bool) (ml lo hi : option Z) (t : tree) : result (list id) :=
  let r := PreOrderIter f stop ml t in
  let len := Z.of_nat (length r) in
  match lo with
  | Some m => if len <? m then Err (CountAtLeast m len) else
      match hi with
      | Some M => if M <? len then Err (CountAtMost M len) else Ok r
      | None => Ok r
      end
  | None =>
      match hi with
      | Some M => if M <? len then Err (CountAtMost M len) else Ok r
      | None => Ok r
      end
  end.

(** _find: items = _findall(..., maxcount=1); return items[0] if items else None *)
Definition find (f stop : id -> bool) (ml : option Z) (t : tree) : result (option id) :=
  items <- findall f stop ml None (Some 1) t ;; Ok (hd_error items).

(** _filter_by_name(node, name, value):
      try: return getattr(node, name) == value
      except AttributeError: return False
    [attr n] is the value of attribute [name] on node [n], [None] when the
    node lacks it; values are compared with a decidable equality. *)
Section ByAttr.
Variable val : Type.
Variable val_eqb : val -> val -> bool.
Variable attr : id -> option val.
Definition filter_by_name (value : val) (n : id) : bool :=
  match attr n with Some v => val_eqb v value | None => false end.
Definition findall_by_attr (value : val) (ml lo hi : option Z) (t : tree) :=
  findall (filter_by_name value) (fun _ => false) ml lo hi t.
Definition find_by_attr (value : val) (ml : option Z) (t : tree) :=
  find (filter_by_name value) (fun _ => false) ml t.
End ByAttr.

(** anytree.cachedsearch: with fastcache absent every wrapper forwards all of
    its arguments by keyword to the anytree.search function of the same name. *)
Definition cached_findall := findall.
Definition cached_find := find.
Definition cached_findall_by_attr := findall_by_attr.
Definition cached_find_by_attr := find_by_attr.
