(** Attribute access through links when classes define attributes themselves:
    [cls x] lists the class-level attributes visible on object x that are not
    stored in any instance dictionary - a plain class attribute of a
    SymlinkNode subclass (found by normal lookup before __getattr__ forwards),
    or a read-only property of an ordinary node class (reads return its value,
    assignment raises AttributeError - also when it arrives through a link).
    With no class-level attributes this is Model/Symlink.v (Proofs/SymlinkXProofs.v). *)
Require Import AT.Model.Base AT.Model.Symlink AT.Generated.Extracted.

Section X.
Variable cls : id -> list (name * aval).

Fixpoint getattr_c (fuel : nat) (s : objs) (x : id) (k : name) : result aval :=
  match fuel with
  | O => Err RecursionError
  | S fu =>
      match dget (cls x) k with
      | Some v => Ok v
      | None =>
          match dget (odict (oget s x)) k with
          | Some v => Ok v
          | None =>
              match okind_of (oget s x) with
              | Plain => Err AttributeError
              | Link t => if in_names symlink_get_local k || str_eqb k s_setstate then Err AttributeError
                          else getattr_c fu s t k
              end
          end
      end
  end.

Fixpoint setattr_c (fuel : nat) (s : objs) (x : id) (k : name) (v : aval) : result objs :=
  match fuel with
  | O => Err RecursionError
  | S fu =>
      match okind_of (oget s x) with
      | Link t => if in_names symlink_set_local k
                  then Ok (oupd s x {| okind_of := Link t; odict := dset (odict (oget s x)) k v |})
                  else setattr_c fu s t k v
      | Plain => match dget (cls x) k with
                 | Some _ => Err AttributeError          (* a read-only property of the class *)
                 | None => Ok (oupd s x {| okind_of := Plain; odict := dset (odict (oget s x)) k v |})
                 end
      end
  end.

Fixpoint set_all_c (fuel : nat) (s : objs) (x : id) (kw : list (name * aval)) : result objs :=
  match kw with
  | [] => Ok s
  | (k, v) :: r => s' <- setattr_c fuel s x k v ;; set_all_c fuel s' x r
  end.
Definition new_link_c (fuel : nat) (s : objs) (t : id) (kw : list (name * aval)) : result objs :=
  set_all_c fuel (s ++ [{| okind_of := Link t; odict := [] |}]) t kw.

Definition run_aop_c (s : objs) (o : aop) : aout * objs :=
  match o with
  | AGet x k => (match getattr_c (chain_fuel s) s x k with Ok v => OVal v | Err e => OErr e | OutOfFuel => OErr OtherError end, s)
  | ASet x k v => match setattr_c (chain_fuel s) s x k v with Ok s' => (ODone, s') | Err e => (OErr e, s) | OutOfFuel => (OErr OtherError, s) end
  | ANewLink t kw => match new_link_c (chain_fuel s) s t kw with Ok s' => (ODone, s') | Err e => (OErr e, s) | OutOfFuel => (OErr OtherError, s) end
  | ANewPlain kw => (ODone, new_plain s kw)
  end.
Fixpoint run_aops_c (s : objs) (ops : list aop) : list aout * objs :=
  match ops with
  | [] => ([], s)
  | o :: r => let '(a, s1) := run_aop_c s o in let '(l, s2) := run_aops_c s1 r in (a :: l, s2)
  end.
End X.

Definition no_cls : id -> list (name * aval) := fun _ => [].
