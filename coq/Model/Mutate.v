(** Transcription of the structural setters of NodeMixin / LightNodeMixin
    (parent setter, __check_loop, __detach, __attach, children setter with its
    try/except rollback, children deleter) and of the node constructors, as a
    state-and-exception monad over (heap, hook counter, event log). *)
Require Import AT.Model.Base AT.Model.Heap.

Inductive hookkind :=
| PreDetach | PostDetach | PreAttach | PostAttach
| PreDetachChildren | PostDetachChildren | PreAttachChildren | PostAttachChildren.
Definition hookkind_eqb (a b : hookkind) : bool :=
  match a, b with
  | PreDetach, PreDetach | PostDetach, PostDetach | PreAttach, PreAttach | PostAttach, PostAttach
  | PreDetachChildren, PreDetachChildren | PostDetachChildren, PostDetachChildren
  | PreAttachChildren, PreAttachChildren | PostAttachChildren, PostAttachChildren => true
  | _, _ => false
  end.
Definition is_pre (k : hookkind) : bool :=
  match k with PreDetach | PreAttach | PreDetachChildren | PreAttachChildren => true | _ => false end.

(** a hook invocation: kind, the node it is called on, its argument (the
    parent, or the children tuple) and the link state it observes *)
Inductive event := Ev (k : hookkind) (n : id) (args : list id) (snap : heap).

Record st := { heap_of : heap; cnt : nat; log : list event }.
Definition M (A : Type) := st -> result A * st.
Definition ret {A} (a : A) : M A := fun s => (Ok a, s).
Definition raise {A} (e : exn) : M A := fun s => (Err e, s).
Definition mbind {A B} (m : M A) (k : A -> M B) : M B :=
  fun s => match m s with
           | (Ok a, s') => k a s'
           | (Err e, s') => (Err e, s')
           | (OutOfFuel, s') => (OutOfFuel, s')
           end.
Notation "x <-- m ;;; k" := (mbind m (fun x => k)) (at level 61, m at next level, right associativity).
Notation "m ;;; k" := (mbind m (fun _ => k)) (at level 61, right associativity).
Definition get_heap : M heap := fun s => (Ok (heap_of s), s).
Definition put_heap (h : heap) : M unit :=
  fun s => (Ok tt, {| heap_of := h; cnt := cnt s; log := log s |}).
Definition lift {A} (r : result A) : M A := fun s => (r, s).
(** try: m except Exception as e: handler e *)
Definition try_except {A} (m : M A) (handler : exn -> M A) : M A :=
  fun s => match m s with
           | (Err e, s') => handler e s'
           | r => r
           end.
Fixpoint for_each {A} (l : list A) (body : A -> M unit) : M unit :=
  match l with
  | [] => ret tt
  | x :: r => body x ;;; for_each r body
  end.

(** values a caller may pass where a node is expected *)
Inductive value := VNone | VNode (n : id) | VOther.
(** argument of the children setter: an iterable of values, or not iterable *)
Inductive carg := CList (xs : list value) | CNotIterable.

Section Mut.
(** [typed]: NodeMixin (isinstance checks) vs LightNodeMixin (none);
    [asrt]: ANYTREE_ASSERTIONS; [faults i k n]: does the i-th hook invocation
    of this call (kind k, on node n) raise? *)
Variables (typed asrt : bool) (faults : nat -> hookkind -> id -> bool).

Definition hook (k : hookkind) (n : id) (args : list id) : M unit :=
  fun s =>
    let i := cnt s in
    let s' := {| heap_of := heap_of s; cnt := S i; log := log s ++ [Ev k n args (heap_of s)] |} in
    if faults i k n then (Err (HookExn i), s') else (Ok tt, s').

Definition massert (b : bool) : M unit :=
  if asrt && negb b then raise AssertionError else ret tt.

(** __check_loop(node):
      if node is not None:
          if node is self: raise LoopError
          if any(child is self for child in node.iter_path_reverse()): raise LoopError *)
Definition check_loop (n : id) (v : option id) : M unit :=
  match v with
  | None => ret tt
  | Some p =>
      if Nat.eqb p n then raise LoopError else
      h <-- get_heap ;;;
      l <-- lift (path_rev (walk_fuel h) h p) ;;;
      if mem l n then raise LoopError else ret tt
  end.

(** __detach(parent) *)
Definition detach (n : id) (p : option id) : M unit :=
  match p with
  | None => ret tt
  | Some p =>
      hook PreDetach n [p] ;;;
      h <-- get_heap ;;;
      massert (mem (children h p) n) ;;;
      put_heap (detach_links h n p) ;;;
      hook PostDetach n [p]
  end.

(** __attach(parent) *)
Definition attach (n : id) (v : option id) : M unit :=
  match v with
  | None => ret tt
  | Some p =>
      hook PreAttach n [p] ;;;
      h <-- get_heap ;;;
      massert (negb (mem (children h p) n)) ;;;
      put_heap (attach_links h n p) ;;;
      hook PostAttach n [p]
  end.

(** parent setter.  A non-node value: NodeMixin raises TreeError; LightNodeMixin
    has no check and fails with AttributeError inside __check_loop
    (value.iter_path_reverse) before anything is changed. *)
Definition set_parent (n : id) (v : value) : M unit :=
  match v with
  | VOther => if typed then raise TreeError else raise AttributeError
  | _ =>
      let v' := match v with VNode p => Some p | _ => None end in
      h <-- get_heap ;;;
      let p := parent h n in
      if option_eqb Nat.eqb p v' then ret tt
      else check_loop n v' ;;; detach n p ;;; attach n v'
  end.

(** children deleter:
      children = self.children
      self._pre_detach_children(children)
      for child in self.children: child.parent = None
      if ASSERTIONS: assert len(self.children) == 0
      self._post_detach_children(children) *)
Definition del_children (n : id) : M unit :=
  h <-- get_heap ;;;
  let cs := children h n in
  hook PreDetachChildren n cs ;;;
  for_each cs (fun c => set_parent c VNone) ;;;
  h' <-- get_heap ;;;
  massert (Nat.eqb (length (children h' n)) 0) ;;;
  hook PostDetachChildren n cs.

(** __check_children: in order; non-node (NodeMixin only) -> TreeError,
    an id seen before -> TreeError *)
Fixpoint check_children (seen : list id) (xs : list value) : M unit :=
  match xs with
  | [] => ret tt
  | VNode c :: r => if mem seen c then raise TreeError else check_children (c :: seen) r
  | _ :: r => if typed then raise TreeError else check_children seen r
  end.

Definition value_ids (xs : list value) : list id :=
  flat_map (fun v => match v with VNode c => [c] | _ => [] end) xs.

(** [child.parent = self] for an element of the children tuple: a non-node has
    no [parent] attribute to assign (LightNodeMixin only; NodeMixin refused it
    in __check_children) *)
Definition assign_parent_of (x : value) (n : id) : M unit :=
  match x with
  | VNode c => set_parent c (VNode n)
  | _ => raise AttributeError
  end.

(** children setter.  The recursive call in the except branch consumes one
    unit of [fuel]; exhaustion is Python's RecursionError. *)
Fixpoint set_children (fuel : nat) (n : id) (a : carg) : M unit :=
  match fuel with
  | O => raise RecursionError
  | S fu =>
      match a with
      | CNotIterable => raise TypeError
      | CList xs =>
          check_children [] xs ;;;
          h <-- get_heap ;;;
          let old := children h n in
          del_children n ;;;
          try_except
            (hook PreAttachChildren n (value_ids xs) ;;;
             for_each xs (fun x => assign_parent_of x n) ;;;
             hook PostAttachChildren n (value_ids xs) ;;;
             h' <-- get_heap ;;;
             massert (Nat.eqb (length (children h' n)) (length xs)))
            (fun e => set_children fu n (CList (map VNode old)) ;;; raise e)
      end
  end.

(** Node/AnyNode/SymlinkNode/__init__(parent=None, children=None):
      self.parent = parent
      if children: self.children = children *)
Definition truthy (c : option carg) : bool :=
  match c with
  | None => false
  | Some (CList []) => false
  | Some _ => true
  end.
Definition construct (fuel : nat) (p : value) (c : option carg) : M id :=
  h <-- get_heap ;;;
  let '(h1, n) := alloc h in
  put_heap h1 ;;;
  set_parent n p ;;;
  (if truthy c then
     match c with Some a => set_children fuel n a | None => ret tt end
   else ret tt) ;;;
  ret n.

Inductive op :=
| SetParent (n : id) (v : value)
| SetChildren (n : id) (a : carg)
| DelChildren (n : id)
| Construct (p : value) (c : option carg).

Definition run_op (fuel : nat) (o : op) : M unit :=
  match o with
  | SetParent n v => set_parent n v
  | SetChildren n a => set_children fuel n a
  | DelChildren n => del_children n
  | Construct p c => construct fuel p c ;;; ret tt
  end.
End Mut.

Definition start (h : heap) : st := {| heap_of := h; cnt := 0; log := [] |}.
Definition no_faults : nat -> hookkind -> id -> bool := fun _ _ _ => false.
(** re-entrancy fuel used when the model is run *)
Definition reentry_fuel : nat := 40.
