(** Ordered rose trees: [T n cs] is "the node [n] whose [.children] is [cs]",
    i.e. the object graph below a node unfolded along [children]. *)
Require Import AT.Model.Base.

Inductive tree : Type := T : id -> list tree -> tree.
Definition label (t : tree) : id := match t with T n _ => n end.
Definition kids (t : tree) : list tree := match t with T _ cs => cs end.

Section ind.
  Variable P : tree -> Prop.
  Hypothesis H : forall n cs, Forall P cs -> P (T n cs).
  Fixpoint tree_ind' (t : tree) : P t :=
    match t with
    | T n cs => H n cs ((fix go (l : list tree) : Forall P l :=
        match l with
        | [] => Forall_nil _
        | x :: r => Forall_cons _ (tree_ind' x) (go r)
        end) cs)
    end.
End ind.

Fixpoint tree_eqb (a b : tree) : bool :=
  match a, b with
  | T n cs, T m ds => Nat.eqb n m &&
      (fix go (l r : list tree) : bool :=
         match l, r with
         | [], [] => true
         | x :: l', y :: r' => tree_eqb x y && go l' r'
         | _, _ => false
         end) cs ds
  end.

(** positions: child indices from the root of a tree *)
Notation pos := (list nat) (only parsing).

Fixpoint subtree_at (t : tree) (p : pos) : option tree :=
  match p with
  | [] => Some t
  | i :: p' => match nth_error (kids t) i with
               | Some c => subtree_at c p'
               | None => None
               end
  end.

(** number of nodes and height (edges on the longest downward path) *)
Fixpoint tsize (t : tree) : nat :=
  match t with T _ cs => S (fold_right (fun c acc => tsize c + acc) 0 cs) end.
Fixpoint theight (t : tree) : nat :=
  match t with T _ cs => fold_right (fun c acc => Nat.max (S (theight c)) acc) 0 cs end.
