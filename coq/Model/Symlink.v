(** Transcription of SymlinkNodeMixin.__getattr__ / __setattr__ and of the
    SymlinkNode constructor (node/symlinknodemixin.py, node/symlinknode.py).
    An object is Plain or a Link with a target; it has its own instance
    dictionary of DATA attributes (names that no node class defines).  Tree
    position (parent / children) lives in the link heap of Model/Mutate.v and
    is untouched by everything here. *)
Require Import AT.Model.Base AT.Generated.Extracted.

Definition name := str.
Definition aval := Z.
Inductive okind := Plain | Link (target : id).
Record obj := { okind_of : okind; odict : list (name * aval) }.
Definition objs := list obj.
Definition empty_obj := {| okind_of := Plain; odict := [] |}.
Definition oget (s : objs) (x : id) : obj := nth x s empty_obj.
Fixpoint oupd (s : objs) (x : id) (o : obj) : objs :=
  match s, x with
  | [], _ => []
  | _ :: r, O => o :: r
  | y :: r, S k => y :: oupd r k o
  end.

Fixpoint dget (d : list (name * aval)) (k : name) : option aval :=
  match d with [] => None | (k', v) :: r => if str_eqb k' k then Some v else dget r k end.
Fixpoint dset (d : list (name * aval)) (k : name) (v : aval) : list (name * aval) :=
  match d with
  | [] => [(k, v)]
  | (k', v') :: r => if str_eqb k' k then (k', v) :: r else (k', v') :: dset r k v
  end.

Definition in_names (l : list str) (k : name) : bool := existsb (str_eqb k) l.
Definition s_setstate : name := [95; 95; 115; 101; 116; 115; 116; 97; 116; 101; 95; 95]%N.

(** getattr(x, name) for a data attribute name: the instance dictionary first;
    then, for a link, __getattr__: the refused names raise AttributeError,
    everything else is read from the target *)
Fixpoint getattr (fuel : nat) (s : objs) (x : id) (k : name) : result aval :=
  match fuel with
  | O => Err RecursionError
  | S fu =>
      match dget (odict (oget s x)) k with
      | Some v => Ok v
      | None =>
          match okind_of (oget s x) with
          | Plain => Err AttributeError
          | Link t => if in_names symlink_get_local k || str_eqb k s_setstate then Err AttributeError
                      else getattr fu s t k
          end
      end
  end.

(** setattr(x, name, value): a link stores only its own bookkeeping names
    locally and forwards everything else to the target *)
Fixpoint setattr (fuel : nat) (s : objs) (x : id) (k : name) (v : aval) : result objs :=
  match fuel with
  | O => Err RecursionError
  | S fu =>
      match okind_of (oget s x) with
      | Link t => if in_names symlink_set_local k
                  then Ok (oupd s x {| okind_of := Link t; odict := dset (odict (oget s x)) k v |})
                  else setattr fu s t k v
      | Plain => Ok (oupd s x {| okind_of := Plain; odict := dset (odict (oget s x)) k v |})
      end
  end.

(** SymlinkNode(target, **kwargs): the new link, then each keyword attribute
    assigned on the target (after the repair acc44ab: with setattr) *)
Fixpoint set_all (fuel : nat) (s : objs) (x : id) (kw : list (name * aval)) : result objs :=
  match kw with
  | [] => Ok s
  | (k, v) :: r => s' <- setattr fuel s x k v ;; set_all fuel s' x r
  end.
Definition new_link (fuel : nat) (s : objs) (t : id) (kw : list (name * aval)) : result objs :=
  set_all fuel (s ++ [{| okind_of := Link t; odict := [] |}]) t kw.
Definition new_plain (s : objs) (kw : list (name * aval)) : objs :=
  s ++ [{| okind_of := Plain; odict := fold_left (fun d kv => dset d (fst kv) (snd kv)) kw [] |}].

Definition chain_fuel (s : objs) : nat := S (length s).

Inductive aop :=
| AGet (x : id) (k : name)
| ASet (x : id) (k : name) (v : aval)
| ANewLink (t : id) (kw : list (name * aval))
| ANewPlain (kw : list (name * aval)).

Inductive aout := OVal (v : aval) | OErr (e : exn) | ODone.
Definition run_aop (s : objs) (o : aop) : aout * objs :=
  match o with
  | AGet x k => (match getattr (chain_fuel s) s x k with Ok v => OVal v | Err e => OErr e | OutOfFuel => OErr OtherError end, s)
  | ASet x k v => match setattr (chain_fuel s) s x k v with Ok s' => (ODone, s') | Err e => (OErr e, s) | OutOfFuel => (OErr OtherError, s) end
  | ANewLink t kw => match new_link (chain_fuel s) s t kw with Ok s' => (ODone, s') | Err e => (OErr e, s) | OutOfFuel => (OErr OtherError, s) end
  | ANewPlain kw => (ODone, new_plain s kw)
  end.
Fixpoint run_aops (s : objs) (ops : list aop) : list aout * objs :=
  match ops with
  | [] => ([], s)
  | o :: r => let '(a, s1) := run_aop s o in let '(l, s2) := run_aops s1 r in (a :: l, s2)
  end.
