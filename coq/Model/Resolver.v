(** Transcription of anytree/resolver.py (Resolver.get, Resolver.glob and
    their helpers) over a root tree and positions.  [nm n] is
    str(getattr(node, pathattr, None)) of the node labelled [n]. *)
Require Import AT.Model.Base AT.Model.Rose AT.Model.Nav AT.Generated.Types AT.Generated.Extracted.

(** ---- str.split / str.startswith for a non-empty separator ---- *)
Fixpoint starts_with (pre s : str) : bool :=
  match pre, s with
  | [], _ => true
  | c :: pre', x :: s' => N.eqb c x && starts_with pre' s'
  | _ :: _, [] => false
  end.
Fixpoint split_aux (fuel : nat) (sep cur s : str) : list str :=
  match fuel with
  | O => [rev cur ++ s]
  | S fu =>
      match s with
      | [] => [rev cur]
      | c :: r => if starts_with sep s then rev cur :: split_aux fu sep [] (skipn (length sep) s)
                  else split_aux fu sep (c :: cur) r
      end
  end.
Definition split (sep s : str) : list str := split_aux (S (length s)) sep [] s.

(** ASCII upper-casing (stated restriction: names are ASCII when ignorecase) *)
Definition upper_c (c : N) : N := if (N.leb 97 c && N.leb c 122)%bool then (c - 32)%N else c.
Definition upper (s : str) : str := map upper_c s.

(** ---- the translated pattern: the fragment of `re` that __translate emits ---- *)
Inductive token := TStar | TAny | TLit (c : N).
Definition frag_tokens (frag : str) : list token :=
  if str_eqb frag [46; 42]%N then [TStar] else if str_eqb frag [46]%N then [TAny] else map TLit frag.
Definition tok_of_char (c : N) : list token :=
  if N.eqb c 42 then frag_tokens tr_star
  else if N.eqb c 63 then frag_tokens tr_qm
  else match tr_else with
       | TE_escape => [TLit c]                              (* re.escape(char) matches char itself *)
       | TE_verbatim => if N.eqb c 46 then [TAny] else [TLit c]
       end.
(** '(?ms)' + re_pat + '\Z': with the end anchor the whole name must match;
    without it re.match accepts any continuation *)
Definition anchored : bool := str_eqb tr_suffix [92; 90]%N.
Definition dotall : bool := existsb (N.eqb 115) tr_prefix.
Definition translate (pat : str) : list token :=
  flat_map tok_of_char pat ++ (if anchored then [] else [TStar]).

Section RMatch.
Variable icase : bool.
Definition ceq (a b : N) : bool := if icase then N.eqb (upper_c a) (upper_c b) else N.eqb a b.
Definition any_ok (c : N) : bool := dotall || negb (N.eqb c 10).
Fixpoint rmatch (ts : list token) (s : str) : bool :=
  match ts with
  | [] => match s with [] => true | _ => false end
  | TLit c :: r => match s with x :: s' => ceq c x && rmatch r s' | [] => false end
  | TAny :: r => match s with x :: s' => any_ok x && rmatch r s' | [] => false end
  | TStar :: r =>
      (fix star (s : str) : bool :=
         rmatch r s || match s with x :: s' => any_ok x && star s' | [] => false end) s
  end.
End RMatch.

(** ---- the shared compiled-pattern cache of Resolver.__match ---- *)
Definition ckey := (option str * option bool)%type.
Definition mk_key (pat : str) (ic : bool) : ckey :=
  (if existsb (fun k => match k with KF_pat => true | _ => false end) cache_key then Some pat else None,
   if existsb (fun k => match k with KF_ignorecase => true | _ => false end) cache_key then Some ic else None).
Definition ckey_eqb (a b : ckey) : bool :=
  option_eqb str_eqb (fst a) (fst b) && option_eqb Bool.eqb (snd a) (snd b).
(** a compiled pattern: the tokens and the IGNORECASE flag it was compiled with *)
Definition compiled := (list token * bool)%type.
Definition cache := list (ckey * compiled).
Fixpoint cache_find (c : cache) (k : ckey) : option compiled :=
  match c with [] => None | (k', v) :: r => if ckey_eqb k' k then Some v else cache_find r k end.
Definition cache_full (c : cache) : bool :=
  match cache_clear with CC_ge => Nat.leb maxcache (length c) | CC_gt => Nat.ltb maxcache (length c) end.
(** __match(name, pat) of a resolver with flag [ic], in cache state [c] *)
Definition match_cached (c : cache) (ic : bool) (name pat : str) : bool * cache :=
  let k := mk_key pat ic in
  match cache_find c k with
  | Some (ts, fl) => (rmatch fl ts name, c)
  | None =>
      let c1 := if cache_full c then [] else c in
      let v := (translate pat, ic) in
      (rmatch ic (translate pat) name, (k, v) :: c1)
  end.

Section Res.
Variable nm : id -> str.
Variables (ignorecase relax : bool) (sep : str).
Variable t : tree.

Definition name_at (p : pos) : str := nm (label_at t p).

(** __cmp *)
Definition cmp (name pat : str) : bool :=
  if ignorecase then str_eqb (upper name) (upper pat) else str_eqb name pat.
(** __match with a transparent cache (see C08_cache_transparent) *)
Definition wmatch (name pat : str) : bool := rmatch ignorecase (translate pat) name.

Definition is_lit (lits : list str) (s : str) : bool := existsb (str_eqb s) lits.
Definition is_wildcard (pat : str) : bool :=
  existsb (fun w => match w with [c] => existsb (N.eqb c) pat | _ => false end) wildcard_chars.

(** __start(node, path, cmp_) -> (node, parts); [None] = the relaxed (None, None) *)
Definition start_ (cmp_ : str -> str -> bool) (p : pos) (path : str) : result (option (pos * list str)) :=
  let parts := split sep path in
  if starts_with sep path then
    let rootpart := name_at [] in
    match tl parts with
    | [] => Err OtherError                     (* cannot happen: a path starting with sep splits in >= 2 parts *)
    | first :: rest =>
        match first with
        | [] => if relax then Ok None else Err ResolverError          (* root node missing *)
        | _ => if cmp_ rootpart first then Ok (Some ([], rest))
               else if relax then Ok None else Err ResolverError       (* unknown root node *)
        end
    end
  else Ok (Some (p, parts)).

(** __get(node, name): first child whose path attribute compares equal *)
Definition get_child (p : pos) (name : str) : result (option pos) :=
  match find (fun c => cmp (name_at c) name) (children_pos t p) with
  | Some c => Ok (Some c)
  | None => if relax then Ok None else Err ChildResolverError
  end.

(** the component loop of get (with the repair of D5: a relaxed miss returns None at once) *)
Fixpoint get_loop (parts : list str) (p : pos) : result (option pos) :=
  match parts with
  | [] => Ok (Some p)
  | part :: rest =>
      if is_lit lit_get_eq part then
        match parent_pos p with
        | None => if relax then Ok None else Err RootResolverError
        | Some q => get_loop rest q
        end
      else if is_lit lit_get_stay part then get_loop rest p
      else
        r <- get_child p part ;;
        match r with None => Ok None | Some c => get_loop rest c end
  end.
Definition get (p : pos) (path : str) : result (option pos) :=
  r <- start_ cmp p path ;;
  match r with
  | None => Ok None
  | Some (node, parts) => get_loop parts node
  end.

(** PreOrderIter(node) as positions *)
Fixpoint pre_positions_t (s : tree) (p : pos) : list pos :=
  match s with
  | T _ cs =>
      p :: (fix go (l : list tree) (i : nat) : list pos :=
              match l with
              | [] => []
              | c :: r => pre_positions_t c (p ++ [i]) ++ go r (S i)
              end) cs 0
  end.
Definition pre_positions (p : pos) : list pos := pre_positions_t (sub t p) p.

Definition mem_pos (l : list pos) (p : pos) : bool := existsb (pos_eqb p) l.
(** for match in ...: if match not in matches: matches.append(match) *)
Definition add_new (matches ms : list pos) : list pos :=
  fold_left (fun acc m => if mem_pos acc m then acc else acc ++ [m]) ms matches.

Definition dotdot : str := [46; 46]%N.
Definition starstar : str := [42; 42]%N.

(** __glob(node, parts) with __find inlined *)
Fixpoint glob_rec (parts : list str) (p : pos) : result (list pos) :=
  match parts with
  | [] => Ok [p]
  | name :: remainder =>
      if str_eqb name dotdot then
        match parent_pos p with
        | None => if relax then Ok [] else Err RootResolverError
        | Some q => glob_rec remainder q
        end
      else if is_lit lit_glob_stay name then glob_rec remainder p
      else if str_eqb name starstar then
        (* for subnode in PreOrderIter(node): try: ... except ChildResolverError: pass *)
        fold_left (fun acc sub =>
                     matches <- acc ;;
                     match glob_rec remainder sub with
                     | Ok ms => Ok (add_new matches ms)
                     | Err ChildResolverError => Ok matches
                     | Err e => Err e
                     | OutOfFuel => OutOfFuel
                     end) (pre_positions p) (Ok [])
      else
        (* __find(node, pat, remainder) *)
        let found :=
          fold_left (fun acc child =>
                       matches <- acc ;;
                       if wmatch (name_at child) name then
                         match remainder with
                         | [] => Ok (matches ++ [child])
                         | _ =>
                             match glob_rec remainder child with
                             | Ok ms => Ok (matches ++ ms)
                             | Err e => if is_wildcard name then Ok matches else Err e
                             | OutOfFuel => OutOfFuel
                             end
                         end
                       else Ok matches) (children_pos t p) (Ok []) in
        matches <- found ;;
        match matches with
        | [] => if negb (is_wildcard name) && negb relax then Err ChildResolverError else Ok []
        | _ => Ok matches
        end
  end.
Definition glob (p : pos) (path : str) : result (list pos) :=
  r <- start_ wmatch p path ;;
  match r with
  | None => Ok []
  | Some (node, parts) => glob_rec parts node
  end.
End Res.
