(** Transcription of DotExporter / UniqueDotExporter / RenderTreeGraph
    (exporter/dotexporter.py, dotexport.py) and MermaidExporter
    (exporter/mermaidexporter.py): the lines they yield, as strings. *)
Require Import AT.Model.Base AT.Model.Rose AT.Model.Iter AT.Generated.Extracted.

(** PreOrderIter yielding the node objects (each with its real children) *)
Section Nodes.
Variables (f stop : id -> bool).
Fixpoint pre_nodes_t (ml : option Z) (t : tree) : list tree :=
  match t with
  | T n cs =>
      if stop n then [] else
      (if f n then [t] else []) ++
      (if negb (abort_at_level 2 ml) then flat_map (pre_nodes_t (dec_ml ml)) cs else [])
  end.
Definition pre_nodes (ml : option Z) (t : tree) : list tree :=
  flat_map (pre_nodes_t ml) (init_children stop ml t).
End Nodes.

(** maxlevel of the edge iterator:  self.maxlevel - 1 if self.maxlevel is not None else None *)
Definition edge_ml (ml : option Z) : option Z :=
  match ml with Some m => Some (m - 1)%Z | None => None end.

Definition memN (l : list N) (c : N) : bool := existsb (N.eqb c) l.
(** esc(value) = _RE_ESC.sub(lambda m: prefix + m.group(0), text): every
    character of the class is preceded by the prefix *)
Definition esc_with (cls : list N) (prefix : str) (s : str) : str :=
  flat_map (fun c => if memN cls c then prefix ++ [c] else [c]) s.
Definition dot_esc := esc_with dot_esc_class dot_esc_prefix.
Definition mermaid_esc := esc_with mermaid_esc_class mermaid_esc_prefix.

Definition s_quote : str := [34%N].
Definition s_space : str := [32%N].
Definition s_semi : str := [59%N].
Definition spaces (n : nat) : str := repeat 32%N n.
(** ' [%s]' % attr if attr is not None else '' *)
Definition attr_suffix (a : option str) : str :=
  match a with Some x => [32; 91]%N ++ x ++ [93%N] | None => [] end.

Section Dot.
Variables (f stop : id -> bool) (ml : option Z).
Variables (graph name : str) (options : list str) (indent : nat).
Variable nodename : id -> str.               (* str(nodenamefunc(node)) *)
Variable nodeattr : id -> option str.        (* nodeattrfunc(node) *)
Variable edgeattr : id -> id -> option str.  (* edgeattrfunc(node, child) *)
Variable edgetype : id -> id -> str.         (* edgetypefunc(node, child) *)

Definition dot_header : str := graph ++ s_space ++ name ++ [32; 123]%N.   (* "{graph} {name} {" *)
Definition dot_options : list str := map (fun o => spaces indent ++ o) options.
Definition dot_node_line (n : id) : str :=
  spaces indent ++ s_quote ++ dot_esc (nodename n) ++ s_quote ++ attr_suffix (nodeattr n) ++ s_semi.
Definition dot_edge_line (n c : id) : str :=
  spaces indent ++ s_quote ++ dot_esc (nodename n) ++ s_quote ++ s_space ++ edgetype n c ++ s_space
  ++ s_quote ++ dot_esc (nodename c) ++ s_quote ++ attr_suffix (edgeattr n c) ++ s_semi.

(** __iter_nodes: PreOrderIter(node, filter_, stop, maxlevel) *)
Definition dot_nodes (t : tree) : list id := PreOrderIter f stop ml t.
(** __iter_edges: maxlevel = self.maxlevel - 1 if self.maxlevel is not None else None;
    for node in PreOrderIter(..., maxlevel): for child in node.children:
        if not filter_(child): continue   -- stop is NOT consulted *)
Definition dot_edges (t : tree) : list (id * id) :=
  flat_map (fun nd => flat_map (fun c => if f (label c) then [(label nd, label c)] else []) (kids nd))
           (pre_nodes f stop (edge_ml ml) t).
Definition dot_lines (t : tree) : list str :=
  [dot_header] ++ dot_options ++ map dot_node_line (dot_nodes t)
  ++ map (fun e => dot_edge_line (fst e) (snd e)) (dot_edges t) ++ [[125%N]].
End Dot.

(** UniqueDotExporter._default_nodenamefunc: hex(counter) per id(node), in
    first-use order; the table persists across iterations of one exporter *)
Definition hex_digit (d : nat) : N :=
  if Nat.ltb d 10 then N.of_nat (48 + d) else N.of_nat (87 + d).
Fixpoint hex_digits (fuel n : nat) : str :=
  match fuel with
  | O => []
  | S fu => if Nat.ltb n 16 then [hex_digit n] else hex_digits fu (n / 16) ++ [hex_digit (n mod 16)]
  end.
Definition hex (n : nat) : str := [48; 120]%N ++ hex_digits (S n) n.
Fixpoint dec_digits (fuel n : nat) : str :=
  match fuel with
  | O => []
  | S fu => if Nat.ltb n 10 then [N.of_nat (48 + n)] else dec_digits fu (n / 10) ++ [N.of_nat (48 + n mod 10)]
  end.
Definition dec (n : nat) : str := dec_digits (S n) n.

Definition idtable := list (id * nat).
Fixpoint tbl_find (tb : idtable) (n : id) : option nat :=
  match tb with [] => None | (k, v) :: r => if Nat.eqb k n then Some v else tbl_find r n end.
(** the number a node gets: the existing one, or the next counter value *)
Definition tbl_use (tb : idtable) (n : id) : nat * idtable :=
  match tbl_find tb n with Some v => (v, tb) | None => (length tb, tb ++ [(n, length tb)]) end.
(** the table after the nodes and then the edge endpoints were named in order *)
Definition tbl_after (tb : idtable) (uses : list id) : idtable :=
  fold_left (fun tb n => snd (tbl_use tb n)) uses tb.
Definition edge_uses (es : list (id * id)) : list id := flat_map (fun e => [fst e; snd e]) es.
Definition tbl_name (render : nat -> str) (tb : idtable) (n : id) : str :=
  match tbl_find tb n with Some v => render v | None => [] end.

Section Unique.
Variables (f stop : id -> bool) (ml : option Z).
Variables (graph name : str) (options : list str) (indent : nat).
Variable rawname : id -> str.      (* str(node.name), for the default label="%s" attribute *)
Variable edgeattr : id -> id -> option str.
Variable edgetype : id -> id -> str.
(** one iteration of a UniqueDotExporter with default name/attr functions,
    starting from table [tb]: the lines and the table afterwards *)
Definition unique_lines (tb : idtable) (t : tree) : list str * idtable :=
  let ns := dot_nodes f stop ml t in
  let es := dot_edges f stop ml t in
  let tb' := tbl_after tb (ns ++ edge_uses es) in
  (dot_lines f stop ml graph name options indent (tbl_name hex tb')
     (fun n => Some ([108; 97; 98; 101; 108; 61; 34]%N ++ rawname n ++ [34%N])) edgeattr edgetype t, tb').
End Unique.

Section Mermaid.
Variables (f stop : id -> bool) (ml : option Z).
Variables (graph name : str) (options : list str) (indent : nat).
Variable nodename : id -> str.      (* nodenamefunc(node) *)
Variable nodetext : id -> str.      (* nodefunc(node) *)
Variable edgetext : id -> id -> str.
Definition mermaid_header : str := graph ++ s_space ++ name.
Definition mermaid_node_line (n : id) : str := spaces indent ++ nodename n ++ nodetext n.
Definition mermaid_edge_line (n c : id) : str := spaces indent ++ nodename n ++ edgetext n c ++ nodename c.
(** __iter_edges: children re-checked with filter_ AND stop *)
Definition mermaid_edges (t : tree) : list (id * id) :=
  flat_map (fun nd => flat_map (fun c => if f (label c) && negb (stop (label c)) then [(label nd, label c)] else []) (kids nd))
           (pre_nodes f stop (edge_ml ml) t).
Definition mermaid_lines (t : tree) : list str :=
  [mermaid_header] ++ map (fun o => spaces indent ++ o) options
  ++ map mermaid_node_line (PreOrderIter f stop ml t)
  ++ map (fun e => mermaid_edge_line (fst e) (snd e)) (mermaid_edges t).
(** default functions: ids "N<k>" from the per-exporter table; label ["<esc name>"]; "-->" *)
Definition mermaid_default_text (rawname : id -> str) (n : id) : str :=
  [91; 34]%N ++ mermaid_esc (rawname n) ++ [34; 93]%N.
End Mermaid.
Definition mermaid_default_lines f stop ml graph name options indent (rawname : id -> str) (tb : idtable) (t : tree)
  : list str * idtable :=
  let ns := PreOrderIter f stop ml t in
  let es := mermaid_edges f stop ml t in
  let tb' := tbl_after tb (ns ++ edge_uses es) in
  (mermaid_lines f stop ml graph name options indent
     (tbl_name (fun v => 78%N :: dec v) tb') (mermaid_default_text rawname) (fun _ _ => [45; 45; 62]%N) t, tb').
