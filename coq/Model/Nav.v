(** Transcription of the read-only navigation attributes of NodeMixin, of
    anytree.util and of Walker, over a root tree and POSITIONS: a node is
    (root tree, list of child indices from the root).  [node.parent] is the
    position without its last index, [node.children] are the position's
    extensions, and Python's [is] on nodes of one tree is position equality. *)
Require Import AT.Model.Base AT.Model.Rose AT.Model.Iter.

Definition pos_eqb : pos -> pos -> bool := list_eqb Nat.eqb.
Definition sub (t : tree) (p : pos) : tree :=
  match subtree_at t p with Some s => s | None => T 0 [] end.
Definition label_at (t : tree) (p : pos) : id := label (sub t p).

(** node.parent *)
Definition parent_pos (p : pos) : option pos :=
  match p with [] => None | _ => Some (removelast p) end.
(** node.children (as positions) *)
Definition children_pos (t : tree) (p : pos) : list pos :=
  map (fun i => p ++ [i]) (seq 0 (length (kids (sub t p)))).

(** iter_path_reverse:  node = self; while node is not None: yield node; node = node.parent *)
Fixpoint iter_path_reverse (fuel : nat) (p : pos) : result (list pos) :=
  match fuel with
  | O => OutOfFuel
  | S fu =>
      match parent_pos p with
      | None => Ok [p]
      | Some q => r <- iter_path_reverse fu q ;; Ok (p :: r)
      end
  end.
Definition up_fuel (p : pos) : nat := S (length p).

(** path = tuple(reversed(list(self.iter_path_reverse()))) *)
Definition path_pos (p : pos) : result (list pos) :=
  r <- iter_path_reverse (up_fuel p) p ;; Ok (rev r).
Definition path (t : tree) (p : pos) : result (list id) :=
  r <- path_pos p ;; Ok (map (label_at t) r).

(** ancestors: () if parent is None else parent.path *)
Definition ancestors (t : tree) (p : pos) : result (list id) :=
  match parent_pos p with None => Ok [] | Some q => path t q end.

(** root: node = self; while node.parent is not None: node = node.parent *)
Fixpoint root_pos (fuel : nat) (p : pos) : result pos :=
  match fuel with
  | O => OutOfFuel
  | S fu => match parent_pos p with None => Ok p | Some q => root_pos fu q end
  end.
Definition root (t : tree) (p : pos) : result id :=
  r <- root_pos (up_fuel p) p ;; Ok (label_at t r).

(** depth: for depth, _ in enumerate(self.iter_path_reverse()): continue; return depth *)
Definition depth (p : pos) : result nat :=
  r <- iter_path_reverse (up_fuel p) p ;; Ok (length r - 1).

(** siblings: () if parent is None else tuple(node for node in parent.children if node is not self) *)
Definition siblings (t : tree) (p : pos) : list id :=
  match parent_pos p with
  | None => []
  | Some q => map (label_at t) (filter (fun c => negb (pos_eqb c p)) (children_pos t q))
  end.

Definition is_root (p : pos) : bool := match parent_pos p with None => true | Some _ => false end.
(** is_leaf: len(self.__children_or_empty) == 0 *)
Definition is_leaf_t (s : tree) : bool := Nat.eqb (length (kids s)) 0.

(** descendants = tuple(PreOrderIter(self))[1:] *)
Definition descendants (s : tree) : list id :=
  tl (PreOrderIter (fun _ => true) (fun _ => false) None s).

(** leaves = tuple(PreOrderIter(self, filter_=lambda node: node.is_leaf)): the
    generator with default stop and maxlevel and the filter evaluated on the
    node object *)
Fixpoint pre_iter_nodes (f : tree -> bool) (t : tree) : list id :=
  match t with T n cs => (if f t then [n] else []) ++ flat_map (pre_iter_nodes f) cs end.
Definition leaves (s : tree) : list id := pre_iter_nodes is_leaf_t s.

(** size: for size, _ in enumerate(PreOrderIter(self), 1): continue; return size *)
Definition size (s : tree) : nat := length (PreOrderIter (fun _ => true) (fun _ => false) None s).

(** height: max(child.height for child in children) + 1 if children else 0 *)
Fixpoint height (s : tree) : nat :=
  match s with
  | T _ [] => 0
  | T _ cs => S (fold_right (fun c acc => Nat.max (height c) acc) 0 cs)
  end.

(** util.commonancestors( *nodes ):
      ancestors = [node.ancestors for node in nodes]
      for parentnodes in zip( *ancestors ):
          if all(parentnode is p for p in parentnodes[1:]): common.append(parentnode) else: break *)
Definition ancestors_pos (p : pos) : result (list pos) :=
  match parent_pos p with None => Ok [] | Some q => path_pos q end.
Fixpoint zip_all (ls : list (list pos)) (fuel : nat) : list (list pos) :=
  (* zip( *ls ): tuples until the shortest list ends; zip() of nothing is empty *)
  match fuel with
  | O => []
  | S fu =>
      match ls with
      | [] => []
      | _ => if forallb (fun l => match l with [] => false | _ => true end) ls
             then map (fun l => hd [] l) ls :: zip_all (map (@tl pos) ls) fu
             else []
      end
  end.
Fixpoint take_common (rows : list (list pos)) : list pos :=
  match rows with
  | [] => []
  | row :: r =>
      match row with
      | [] => []
      | x :: others => if forallb (pos_eqb x) others then x :: take_common r else []
      end
  end.
Fixpoint all_ok {A} (l : list (result A)) : result (list A) :=
  match l with
  | [] => Ok []
  | x :: r => a <- x ;; b <- all_ok r ;; Ok (a :: b)
  end.
Definition commonancestors (t : tree) (ps : list pos) : result (list id) :=
  anc <- all_ok (map ancestors_pos ps) ;;
  let fuel := S (fold_right (fun l acc => Nat.max (length l) acc) 0 anc) in
  Ok (map (label_at t) (take_common (zip_all anc fuel))).

(** util.leftsibling / rightsibling for a plain node class (default __eq__ is
    identity, a node is truthy):
      if node.parent: pchildren = node.parent.children; idx = pchildren.index(node)
         left: if idx: return pchildren[idx - 1]  ... return None
         right: try: return pchildren[idx + 1] except IndexError: return None *)
Fixpoint index_of (p : pos) (l : list pos) : option nat :=
  match l with
  | [] => None
  | x :: r => if pos_eqb x p then Some 0 else match index_of p r with Some i => Some (S i) | None => None end
  end.
Definition leftsibling (t : tree) (p : pos) : option id :=
  match parent_pos p with
  | None => None
  | Some q =>
      let pc := children_pos t q in
      match index_of p pc with
      | Some (S i) => match nth_error pc i with Some c => Some (label_at t c) | None => None end
      | _ => None
      end
  end.
Definition rightsibling (t : tree) (p : pos) : option id :=
  match parent_pos p with
  | None => None
  | Some q =>
      let pc := children_pos t q in
      match index_of p pc with
      | Some i => match nth_error pc (S i) with Some c => Some (label_at t c) | None => None end
      | None => None
      end
  end.

(** Walker.walk(start, end) inside a forest: nodes are (tree index, position) *)
Definition calc_common (a b : list pos) : list pos :=
  map fst (filter (fun xy => pos_eqb (fst xy) (snd xy)) (combine a b)).
Definition walk (ts : list tree) (a : nat * pos) (b : nat * pos)
  : result (list id * id * list id) :=
  let '(ia, pa) := a in let '(ib, pb) := b in
  sp <- path_pos pa ;; ep <- path_pos pb ;;
  if negb (Nat.eqb ia ib) then Err WalkError else
  let t := nth ia ts (T 0 []) in
  let common := calc_common sp ep in
  let lc := length common in
  let top := last common [] in
  let upwards := if pos_eqb pa top then [] else rev (skipn lc sp) in
  let down := if pos_eqb pb top then [] else skipn lc ep in
  Ok (map (label_at t) upwards, label_at t top, map (label_at t) down).
