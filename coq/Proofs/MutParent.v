(** The parent setter in full: exact outcome, final state and hook log of a
    fault-free call (C02, C16), atomicity of refused / vetoed calls with the
    exact boundary (C03), post-hook faults (C16). *)
Require Import AT.Model.Base AT.Model.Heap AT.Model.Mutate AT.Spec.MutSpec.
Require Import AT.Proofs.ListLemmas AT.Proofs.HeapLemmas AT.Proofs.MutInv.

(** ---- heap extensionality and the pointwise heaps of the Spec ---- *)
Lemma nth_ext_eq {A} (d : A) : forall (a b : list A), length a = length b ->
  (forall m, m < length a -> nth m a d = nth m b d) -> a = b.
Proof.
  induction a as [|x a IH]; intros [|y b] L H; simpl in *; try lia; auto.
  f_equal.
  - apply (H 0). lia.
  - apply IH; [lia|]. intros m Hm. apply (H (S m)). lia.
Qed.
Lemma heap_ext (a b : heap) : length a = length b ->
  (forall m, m < length a -> parent a m = parent b m /\ children a m = children b m) -> a = b.
Proof.
  intros L H. apply (nth_ext_eq empty_cell); auto. intros m Hm. destruct (H m Hm) as [P C].
  unfold parent, children, get in *. destruct (nth m a empty_cell), (nth m b empty_cell). simpl in *. congruence.
Qed.
Lemma build_heap_length len par chi : length (build_heap len par chi) = len.
Proof. unfold build_heap. rewrite map_length, seq_length. auto. Qed.
Lemma build_heap_get len par chi m : m < len ->
  parent (build_heap len par chi) m = par m /\ children (build_heap len par chi) m = chi m.
Proof.
  intros H. unfold parent, children, get, build_heap.
  rewrite nth_indep with (d' := {| cparent := par 0; cchildren := chi 0 |}) by (rewrite map_length, seq_length; auto).
  change {| cparent := par 0; cchildren := chi 0 |} with ((fun m => {| cparent := par m; cchildren := chi m |}) 0).
  rewrite map_nth, seq_nth by auto. simpl. auto.
Qed.

Lemma oid_eqb_spec (a b : option id) : oid_eqb a b = true <-> a = b.
Proof.
  destruct a as [x|], b as [y|]; simpl; split; try congruence; try discriminate.
  - intros H. apply Nat.eqb_eq in H. congruence.
  - intros [= ->]. apply Nat.eqb_refl.
Qed.
Lemma oid_eqb_some p m : oid_eqb (Some p) (Some m) = Nat.eqb p m.
Proof. reflexivity. Qed.

Ltac by_cells L :=
  match goal with
  | |- build_heap ?len ?par ?chi = _ =>
      apply heap_ext; [rewrite build_heap_length; L|];
      let m := fresh "m" in let Hm := fresh "Hm" in let A := fresh "A" in let B := fresh "B" in
      intros m Hm; rewrite build_heap_length in Hm;
      destruct (build_heap_get len par chi m Hm) as [A B]; rewrite A, B; clear A B
  end.

Lemma eff_detach h n : n < length h -> (forall p, parent h n = Some p -> p < length h) ->
  eff_set_parent h n None = after_detach h n.
Proof.
  intros Bn Bp. unfold eff_set_parent, after_detach. destruct (parent h n) as [p|] eqn:P; simpl; auto.
  specialize (Bp p eq_refl).
  by_cells ltac:(rewrite length_detach; auto).
  rewrite parent_detach, children_detach, app_nil_r by auto. split; auto.
  rewrite (Nat.eqb_sym p m). destruct (Nat.eqb_spec m p) as [->|]; auto.
Qed.

Lemma eff_attach h n q : n < length h -> q < length h -> parent h n = None ->
  eff_set_parent h n (Some q) = attach_links h n q.
Proof.
  intros Bn Bq P. unfold eff_set_parent. rewrite P. simpl.
  by_cells ltac:(rewrite length_attach; auto).
  rewrite parent_attach, children_attach by auto. split; auto.
  rewrite (Nat.eqb_sym q m). destruct (Nat.eqb_spec m q) as [->|]; auto. apply app_nil_r.
Qed.

Lemma eff_move h n p q : n < length h -> p < length h -> q < length h -> parent h n = Some p -> p <> q ->
  eff_set_parent h n (Some q) = attach_links (detach_links h n p) n q.
Proof.
  intros Bn Bp Bq P N. unfold eff_set_parent. rewrite P. simpl.
  destruct (Nat.eqb_spec p q) as [|_]; [contradiction|].
  by_cells ltac:(rewrite length_attach, length_detach; auto).
  rewrite parent_attach, children_attach by (rewrite length_detach; auto).
  rewrite parent_detach, !children_detach by auto. split.
  - destruct (Nat.eqb m n); auto.
  - rewrite (Nat.eqb_sym q m), (Nat.eqb_sym p m).
    destruct (Nat.eqb_spec m q) as [->|]; destruct (Nat.eqb_spec q p) as [->|]; try congruence; auto.
    destruct (Nat.eqb_spec m p) as [->|]; apply app_nil_r.
Qed.

(** ---- exact run of a fault-free parent assignment ---- *)
Definition st_after (s : st) (h' : heap) (evs : list event) : st :=
  {| heap_of := h'; cnt := length evs + cnt s; log := log s ++ evs |}.
Lemma st_after_nil s : st_after s (heap_of s) [] = s.
Proof. destruct s. unfold st_after. simpl. rewrite app_nil_r. reflexivity. Qed.
Lemma st_after_comp s h1 e1 h2 e2 : st_after (st_after s h1 e1) h2 e2 = st_after s h2 (e1 ++ e2).
Proof. unfold st_after. simpl. rewrite app_length, app_assoc. f_equal. lia. Qed.

Lemma massert_true asrt s : massert asrt true s = (Ok tt, s).
Proof. unfold massert. rewrite andb_false_r. reflexivity. Qed.

Definition opt_value (v : option id) : value := match v with Some q => VNode q | None => VNone end.
Definition loop_refused (h : heap) (n : id) (v : option id) : bool :=
  negb (oid_eqb (parent h n) v) &&
  match v with Some q => Nat.eqb q n || mem (ancestors_of h q) n | None => false end.

Section Run.
Variables (typed asrt : bool).

Theorem set_parent_run n v s : let h := heap_of s in
  Inv h -> n < length h -> (match v with Some q => q < length h | None => True end) ->
  set_parent typed asrt no_faults n (opt_value v) s =
  if loop_refused h n v then (Err LoopError, s)
  else (Ok tt, st_after s (eff_set_parent h n v) (log_set_parent h n v)).
Proof.
  intros h I Bn Bv. unfold loop_refused.
  assert (E : set_parent typed asrt no_faults n (opt_value v) s =
     (hh <-- get_heap ;;;
        (let p := parent hh n in
         if option_eqb Nat.eqb p v then ret tt
         else check_loop n v ;;; detach asrt no_faults n p ;;; attach asrt no_faults n v)) s).
  { destruct v; reflexivity. }
  rewrite E. clear E. unfold mbind at 1. unfold get_heap. cbn [fst snd]. fold h.
  change (oid_eqb (parent h n) v) with (option_eqb Nat.eqb (parent h n) v).
  destruct (option_eqb Nat.eqb (parent h n) v) eqn:EQ; cbn [negb andb].
  { unfold ret, log_set_parent, eff_set_parent, oid_eqb. rewrite EQ. rewrite st_after_nil. reflexivity. }
  (* check_loop *)
  assert (CL : check_loop n v s = if (match v with Some q => Nat.eqb q n || mem (ancestors_of h q) n | None => false end)
                                 then (Err LoopError, s) else (Ok tt, s)).
  { unfold check_loop. destruct v as [q|]; [|reflexivity].
    destruct (Nat.eqb q n) eqn:QN; [reflexivity|]. cbn [orb].
    unfold mbind, get_heap, lift. cbn [fst snd]. fold h.
    destruct (path_rev_inv h q I) as [lq [Cq Pq]]. rewrite Pq.
    unfold ancestors_of. rewrite Pq.
    assert (M : mem (q :: lq) n = mem lq n).
    { unfold mem. simpl. rewrite (Nat.eqb_sym n q), QN. reflexivity. }
    rewrite M. destruct (mem lq n); reflexivity. }
  unfold mbind at 1. rewrite CL.
  destruct (match v with Some q => Nat.eqb q n || mem (ancestors_of h q) n | None => false end) eqn:LR; [reflexivity|].
  (* detach *)
  set (h1 := after_detach h n).
  set (l1 := match parent h n with Some p => [Ev PreDetach n [p] h; Ev PostDetach n [p] h1] | None => [] end).
  assert (DE : detach asrt no_faults n (parent h n) s = (Ok tt, st_after s h1 l1)).
  { unfold l1, h1, after_detach. destruct (parent h n) as [p|] eqn:P.
    - unfold detach, mbind, hook, no_faults, get_heap, put_heap. cbn [fst snd heap_of cnt log].
      assert (MM : mem (children h p) n = true) by (apply mem_In; apply (inv_link _ I); auto).
      fold h. rewrite MM, massert_true. unfold st_after. cbn [heap_of cnt log length].
      rewrite <- app_assoc. reflexivity.
    - simpl. unfold ret. fold h. rewrite st_after_nil. reflexivity. }
  unfold mbind at 1. rewrite DE.
  assert (Bp : forall p, parent h n = Some p -> p < length h) by (intros p P; apply (inv_bound_p _ I _ _ P)).
  assert (E1 : eff_set_parent h n None = h1) by (apply eff_detach; auto).
  assert (P1 : parent h1 n = None) by (apply (after_detach_parent (length h)); [split; auto|auto]).
  assert (L1 : length h1 = length h).
  { unfold h1, after_detach. destruct (parent h n); auto. apply length_detach. }
  assert (I1 : Inv h1) by (apply (after_detach_IL (length h)); split; auto).
  (* attach *)
  destruct v as [q|].
  - set (h2 := attach_links h1 n q).
    assert (A1 : attach asrt no_faults n (Some q) (st_after s h1 l1)
                 = (Ok tt, st_after (st_after s h1 l1) h2 [Ev PreAttach n [q] h1; Ev PostAttach n [q] h2])).
    { unfold attach, mbind, hook, no_faults, get_heap, put_heap. cbn [fst snd heap_of cnt log st_after].
      assert (MM : mem (children h1 q) n = false).
      { destruct (mem (children h1 q) n) eqn:M; auto. apply mem_In in M.
        apply (inv_link _ I1) in M. congruence. }
      rewrite MM. cbn [negb]. rewrite massert_true. cbn [heap_of cnt log].
      unfold st_after, h2. cbn [heap_of cnt log length]. rewrite <- !app_assoc. reflexivity. }
    rewrite A1, st_after_comp.
    assert (HEQ : eff_set_parent h n (Some q) = h2).
    { unfold h2, h1, after_detach. destruct (parent h n) as [p|] eqn:P.
      - apply eff_move; auto. intros ->. simpl in EQ. rewrite Nat.eqb_refl in EQ. discriminate.
      - apply eff_attach; auto. }
    assert (H2' : eff_set_parent h1 n (Some q) = h2) by (apply eff_attach; auto; lia).
    assert (LEQ : log_set_parent h n (Some q) = l1 ++ [Ev PreAttach n [q] h1; Ev PostAttach n [q] h2]).
    { unfold log_set_parent, oid_eqb. rewrite EQ, E1, H2'. reflexivity. }
    rewrite HEQ, LEQ. reflexivity.
  - cbn [attach]. unfold ret.
    assert (LEQ : log_set_parent h n None = l1).
    { unfold log_set_parent, oid_eqb. rewrite EQ, E1. rewrite app_nil_r. reflexivity. }
    rewrite E1, LEQ. reflexivity.
Qed.
End Run.

(** ---- parent assignment under arbitrary hook faults ---- *)
Definition kind_at (l : list event) (i : nat) : option hookkind :=
  match nth_error l i with Some (Ev k _ _ _) => Some k | None => None end.

Lemma path_rev_no_err h : forall fuel x e, path_rev fuel h x <> Err e.
Proof.
  induction fuel as [|fu IH]; intros x e; simpl; [discriminate|].
  destruct (parent h x) as [p|]; [|discriminate].
  destruct (path_rev fu h p) as [r|e'|] eqn:E; simpl; try discriminate. exfalso. eapply IH; eauto.
Qed.

Lemma check_loop_err n v s e : fst (check_loop n v s) = Err e -> e = LoopError.
Proof.
  unfold check_loop. destruct v as [q|]; [|discriminate].
  destruct (Nat.eqb q n); [intros [= <-]; reflexivity|].
  unfold mbind, get_heap, lift, raise, ret. cbn [fst snd].
  destruct (path_rev (walk_fuel (heap_of s)) (heap_of s) q) as [l|e'|] eqn:E; cbn [fst snd].
  - destruct (mem l n); cbn; [intros [= <-]; reflexivity|discriminate].
  - exfalso. eapply path_rev_no_err; eauto.
  - discriminate.
Qed.

Section Faulty.
Variables (typed asrt : bool) (faults : nat -> hookkind -> id -> bool).

Ltac exec H :=
  unfold detach, attach, mbind, hook, get_heap, put_heap, massert, raise, ret in H;
  cbn [fst snd heap_of cnt log start app] in H.

Ltac veto D := destruct D as [D|[D|[D|[?i [D ?K]]]]]; try discriminate D.

(** the parent setter unfolded for a node-or-None value *)
Lemma set_parent_unfold n v s :
  set_parent typed asrt faults n (opt_value v) s =
  (hh <-- get_heap ;;; (let p := parent hh n in
     if option_eqb Nat.eqb p v then ret tt
     else check_loop n v ;;; detach asrt faults n p ;;; attach asrt faults n v)) s.
Proof. destruct v; reflexivity. Qed.

(** all ways a parent assignment can end, with the state and log it leaves *)
Inductive sp_end (h : heap) (n : id) (v : option id) : result unit -> heap -> list event -> Prop :=
| sp_noop : sp_end h n v (Ok tt) h []
| sp_loop : sp_end h n v (Err LoopError) h []
| sp_fuel : sp_end h n v OutOfFuel h []
| sp_predetach p : parent h n = Some p ->
    sp_end h n v (Err (HookExn 0)) h [Ev PreDetach n [p] h]
| sp_assert1 p : parent h n = Some p ->
    sp_end h n v (Err AssertionError) h [Ev PreDetach n [p] h]
| sp_postdetach p : parent h n = Some p ->
    sp_end h n v (Err (HookExn 1)) (detach_links h n p)
      [Ev PreDetach n [p] h; Ev PostDetach n [p] (detach_links h n p)]
| sp_detached p : parent h n = Some p -> v = None ->
    sp_end h n v (Ok tt) (detach_links h n p)
      [Ev PreDetach n [p] h; Ev PostDetach n [p] (detach_links h n p)]
| sp_preattach q : v = Some q ->
    let h1 := after_detach h n in
    let l1 := match parent h n with
              | Some p => [Ev PreDetach n [p] h; Ev PostDetach n [p] h1] | None => [] end in
    sp_end h n v (Err (HookExn (length l1))) h1 (l1 ++ [Ev PreAttach n [q] h1])
| sp_assert2 q : v = Some q ->
    let h1 := after_detach h n in
    let l1 := match parent h n with
              | Some p => [Ev PreDetach n [p] h; Ev PostDetach n [p] h1] | None => [] end in
    sp_end h n v (Err AssertionError) h1 (l1 ++ [Ev PreAttach n [q] h1])
| sp_postattach q : v = Some q ->
    let h1 := after_detach h n in
    let l1 := match parent h n with
              | Some p => [Ev PreDetach n [p] h; Ev PostDetach n [p] h1] | None => [] end in
    sp_end h n v (Err (HookExn (S (length l1)))) (attach_links h1 n q)
      (l1 ++ [Ev PreAttach n [q] h1; Ev PostAttach n [q] (attach_links h1 n q)])
| sp_attached q : v = Some q ->
    let h1 := after_detach h n in
    let l1 := match parent h n with
              | Some p => [Ev PreDetach n [p] h; Ev PostDetach n [p] h1] | None => [] end in
    sp_end h n v (Ok tt) (attach_links h1 n q)
      (l1 ++ [Ev PreAttach n [q] h1; Ev PostAttach n [q] (attach_links h1 n q)]).

Theorem set_parent_ends n v h r s' :
  set_parent typed asrt faults n (opt_value v) (start h) = (r, s') ->
  sp_end h n v r (heap_of s') (log s').
Proof.
  rewrite set_parent_unfold. intros H.
  unfold mbind at 1 in H. unfold get_heap in H. cbn [fst snd heap_of start] in H.
  destruct (option_eqb Nat.eqb (parent h n) v) eqn:EQ.
  { injection H as <- <-. constructor. }
  unfold mbind at 1 in H.
  destruct (check_loop_spec n v (start h)) as [CS _].
  pose proof (check_loop_err n v (start h)) as CE.
  destruct (check_loop n v (start h)) as [[[]|e0|] s1]; cbn [fst snd] in CS, CE; subst s1.
  2:{ injection H as <- <-. rewrite (CE e0 eq_refl). constructor. }
  2:{ injection H as <- <-. constructor. }
  destruct (parent h n) as [p|] eqn:P.
  - exec H.
    destruct (faults 0 PreDetach n); cbn [fst snd heap_of log cnt] in H.
    { injection H as <- <-. eapply sp_predetach; eauto. }
    destruct (asrt && negb (mem (children h p) n)); cbn [fst snd heap_of log cnt] in H.
    { injection H as <- <-. eapply sp_assert1; eauto. }
    destruct (faults 1 PostDetach n); cbn [fst snd heap_of log cnt] in H.
    { injection H as <- <-. eapply sp_postdetach; eauto. }
    destruct v as [q|].
    + pose proof (sp_preattach h n (Some q) q eq_refl) as C1.
      pose proof (sp_assert2 h n (Some q) q eq_refl) as C2.
      pose proof (sp_postattach h n (Some q) q eq_refl) as C3.
      pose proof (sp_attached h n (Some q) q eq_refl) as C4.
      unfold after_detach in C1, C2, C3, C4. rewrite P in C1, C2, C3, C4. cbv zeta in C1, C2, C3, C4.
      exec H.
      destruct (faults 2 PreAttach n); cbn [fst snd heap_of log cnt] in H.
      { injection H as <- <-. exact C1. }
      destruct (asrt && negb (negb (mem (children (detach_links h n p) q) n))); cbn [fst snd heap_of log cnt] in H.
      { injection H as <- <-. exact C2. }
      destruct (faults 3 PostAttach n); cbn [fst snd heap_of log cnt] in H.
      { injection H as <- <-. exact C3. }
      injection H as <- <-. exact C4.
    + cbn in H. injection H as <- <-. eapply sp_detached; eauto.
  - destruct v as [q|]; [|simpl in EQ; discriminate EQ].
    pose proof (sp_preattach h n (Some q) q eq_refl) as C1.
    pose proof (sp_assert2 h n (Some q) q eq_refl) as C2.
    pose proof (sp_postattach h n (Some q) q eq_refl) as C3.
    pose proof (sp_attached h n (Some q) q eq_refl) as C4.
    unfold after_detach in C1, C2, C3, C4. rewrite P in C1, C2, C3, C4. cbv zeta in C1, C2, C3, C4.
    exec H.
    destruct (faults 0 PreAttach n); cbn [fst snd heap_of log cnt] in H.
    { injection H as <- <-. exact C1. }
    destruct (asrt && negb (negb (mem (children h q) n))); cbn [fst snd heap_of log cnt] in H.
    { injection H as <- <-. exact C2. }
    destruct (faults 1 PostAttach n); cbn [fst snd heap_of log cnt] in H.
    { injection H as <- <-. exact C3. }
    injection H as <- <-. exact C4.
Qed.

(** C03 for the parent setter, with the exact boundary: a refusal, a
    _pre_detach veto, or a _pre_attach veto of a node that had no parent leaves
    every link as it was *)
Theorem set_parent_atomic n v h r s' :
  set_parent typed asrt faults n v (start h) = (r, s') ->
  forall e, r = Err e ->
    (e = TreeError \/ e = LoopError \/ e = AttributeError \/
     exists i, e = HookExn i /\
       (kind_at (log s') i = Some PreDetach \/ (kind_at (log s') i = Some PreAttach /\ parent h n = None))) ->
    heap_of s' = h.
Proof.
  intros H e -> D.
  assert (VO : v = VOther \/ exists v', v = opt_value v').
  { destruct v as [|q|]; [right; exists None|right; exists (Some q)|left]; reflexivity. }
  destruct VO as [->|[v' ->]].
  { unfold set_parent in H. destruct typed; injection H as _ <-; reflexivity. }
  pose proof (set_parent_ends _ _ _ _ _ H) as E.
  inversion E; subst; try reflexivity.
  - (* post-detach fault *)
    veto D. injection D as <-. match goal with L : _ = log s' |- _ => rewrite <- L in K end.
    cbn in K. destruct K as [K|[K _]]; discriminate K.
  - (* pre-attach veto *)
    veto D. injection D as <-. match goal with L : _ = log s' |- _ => rewrite <- L in K end.
    subst h1 l1. unfold after_detach in *. destruct (parent h n) as [p|] eqn:P.
    + cbn in K. destruct K as [K|[_ K]]; discriminate K.
    + reflexivity.
  - veto D.
  - veto D. injection D as <-. match goal with L : _ = log s' |- _ => rewrite <- L in K end.
    subst h1 l1. unfold after_detach in *.
    destruct (parent h n) as [p|] eqn:P; cbn in K; destruct K as [K|[K _]]; discriminate K.
Qed.

(** C16: an exception from a post hook propagates without undoing the step
    that preceded it *)
Theorem set_parent_post_fault n v h r s' :
  set_parent typed asrt faults n (opt_value v) (start h) = (r, s') ->
  forall i, r = Err (HookExn i) ->
    (kind_at (log s') i = Some PostDetach -> heap_of s' = after_detach h n) /\
    (kind_at (log s') i = Some PostAttach ->
       exists q, v = Some q /\ heap_of s' = attach_links (after_detach h n) n q).
Proof.
  intros H i ->.
  pose proof (set_parent_ends _ _ _ _ _ H) as E.
  inversion E; subst.
  - cbn. split; intros K; discriminate K.
  - unfold after_detach. match goal with P : parent _ n = Some _ |- _ => rewrite P end.
    cbn. split; [reflexivity|intros K; discriminate K].
  - subst h1 l1. destruct (parent h n) as [p|] eqn:P; cbn; split; intros K; discriminate K.
  - subst h1 l1. destruct (parent h n) as [p|] eqn:P; cbn; (split; [intros K; discriminate K|intros _; eauto]).
Qed.
End Faulty.

(** ---- what the hooks of a parent change observe (C16) ---- *)
Lemma set_parent_noop typed asrt faults n v s :
  parent (heap_of s) n = v -> set_parent typed asrt faults n (opt_value v) s = (Ok tt, s).
Proof.
  intros E. rewrite set_parent_unfold. unfold mbind, get_heap. cbn [fst snd].
  assert (R : option_eqb Nat.eqb (parent (heap_of s) n) v = true) by (apply oid_eqb_spec; auto).
  rewrite R. reflexivity.
Qed.

Theorem snapshots h n q : Inv h -> n < length h -> q < length h ->
  let h1 := eff_set_parent h n None in
  let h2 := eff_set_parent h1 n (Some q) in
  (* _post_detach / _pre_attach: n is a root and in neither children list *)
  (parent h1 n = None /\ forall m, ~ In n (children h1 m)) /\
  (* _post_attach: n is the last child of its new parent *)
  (parent h2 n = Some q /\ last (children h2 q) n = n /\ In n (children h2 q)) /\
  (* _pre_detach: still a child of the old parent *)
  (forall p, parent h n = Some p -> In n (children h p)).
Proof.
  intros I Bn Bq. cbv zeta.
  assert (Bp : forall p, parent h n = Some p -> p < length h) by (intros p P; apply (inv_bound_p _ I _ _ P)).
  rewrite (eff_detach h n Bn Bp).
  assert (IL1 : IL (length h) (after_detach h n)) by (apply after_detach_IL; split; auto).
  destruct IL1 as [I1 L1].
  assert (P1 : parent (after_detach h n) n = None) by (apply (after_detach_parent (length h)); [split; auto|auto]).
  rewrite (eff_attach (after_detach h n) n q) by (auto; lia).
  repeat split.
  - exact P1.
  - intros m Hin. apply (inv_link _ I1) in Hin. congruence.
  - rewrite parent_attach by lia. rewrite Nat.eqb_refl. reflexivity.
  - rewrite children_attach by lia. rewrite Nat.eqb_refl. apply last_last.
  - rewrite children_attach by lia. rewrite Nat.eqb_refl. apply in_or_app. right. simpl. auto.
  - intros p P. apply (inv_link _ I). exact P.
Qed.
