(** C01 / C16 for hooks that detach other nodes while the parent setter runs. *)
Require Import AT.Model.Base AT.Model.Heap AT.Model.Mutate AT.Model.Reentry AT.Spec.MutSpec.
Require Import AT.Proofs.ListLemmas AT.Proofs.HeapLemmas AT.Proofs.MutInv AT.Proofs.MutHistory AT.Proofs.MutParent.

(** with hooks that do nothing, it is the parent setter of Model/Mutate.v *)
Theorem set_parent_r_plain typed n v s :
  set_parent_r no_acts n v s = set_parent typed false no_faults n (opt_value v) s.
Proof.
  rewrite set_parent_unfold. unfold set_parent_r. unfold mbind at 1 4. unfold get_heap. cbn [fst snd].
  destruct (option_eqb Nat.eqb (parent (heap_of s) n) v); [reflexivity|].
  unfold mbind at 1 3. destruct (check_loop n v s) as [[[]|e|] s1]; reflexivity.
Qed.

(** ---- cutting other nodes loose ---- *)
Definition cuts (xs : list id) (h : heap) : heap := fold_left after_detach xs h.

Lemma parent_after_detach h x m : x < length h ->
  parent (after_detach h x) m = if Nat.eqb m x then None else parent h m.
Proof.
  intros B. unfold after_detach. destruct (parent h x) as [p|] eqn:P.
  - apply parent_detach. exact B.
  - destruct (Nat.eqb_spec m x) as [->|]; auto.
Qed.
Lemma length_after_detach h x : length (after_detach h x) = length h.
Proof. unfold after_detach. destruct (parent h x); [apply length_detach|reflexivity]. Qed.

Lemma cuts_IL L xs : forall h, IL L h -> IL L (cuts xs h).
Proof. induction xs as [|x xs IH]; intros h H; cbn; [exact H|]. apply IH. apply after_detach_IL. exact H. Qed.
Lemma cuts_parent L n xs : ~ In n xs -> (forall x, In x xs -> x < L) -> forall h, IL L h ->
  parent (cuts xs h) n = parent h n.
Proof.
  induction xs as [|x xs IH]; intros Hn Hb h HI; cbn; [reflexivity|].
  rewrite IH.
  - rewrite parent_after_detach by (destruct HI as [_ <-]; apply Hb; left; reflexivity).
    destruct (Nat.eqb_spec n x) as [->|]; [exfalso; apply Hn; left; reflexivity|reflexivity].
  - intros H. apply Hn. right. exact H.
  - intros y Hy. apply Hb. right. exact Hy.
  - apply after_detach_IL. exact HI.
Qed.

(** the root path of a node only gets shorter *)
Lemma cut_chain h x q l : x < length h -> chain h q l -> exists l', chain (after_detach h x) q l' /\ incl l' l.
Proof.
  intros B C. induction C as [q Pq|q p l Pq C IH].
  - exists []. split; [|intros y []]. constructor. rewrite parent_after_detach by exact B.
    destruct (Nat.eqb q x); auto.
  - destruct (Nat.eqb_spec q x) as [->|Nq].
    + exists []. split; [|intros y []]. constructor. rewrite parent_after_detach by exact B. rewrite Nat.eqb_refl. reflexivity.
    + destruct IH as [l' [C' I']]. exists (p :: l'). split.
      * eapply chain_step; [|exact C']. rewrite parent_after_detach by exact B.
        destruct (Nat.eqb_spec q x); congruence.
      * intros y [<-|Hy]; [left; reflexivity|right; apply I'; exact Hy].
Qed.
Lemma cuts_chain L xs q : (forall x, In x xs -> x < L) -> forall h l, IL L h -> chain h q l ->
  exists l', chain (cuts xs h) q l' /\ incl l' l.
Proof.
  induction xs as [|x xs IH]; intros Hb h l HI C; cbn.
  - exists l. split; [exact C|apply incl_refl].
  - destruct (cut_chain h x q l) as [l1 [C1 I1]]; [destruct HI as [_ ->]; apply Hb; left; reflexivity|exact C|].
    destruct (IH (fun y Hy => Hb y (or_intror Hy)) (after_detach h x) l1) as [l2 [C2 I2]];
      [apply after_detach_IL; exact HI|exact C1|].
    exists l2. split; [exact C2|]. intros y Hy. apply I1, I2, Hy.
Qed.

(** a node that is the last child stays the last child when others are cut loose *)
Lemma children_after_detach h x m : Inv h -> x < length h ->
  children (after_detach h x) m = if oid_eqb (parent h x) (Some m) then remove_id x (children h m) else children h m.
Proof.
  intros I B. unfold after_detach. destruct (parent h x) as [p|] eqn:P; [|reflexivity].
  destruct (inv_bound_p _ I _ _ P) as [_ Bp]. rewrite children_detach by exact Bp.
  rewrite oid_eqb_some. destruct (Nat.eqb_spec m p) as [->|Nm]; [rewrite Nat.eqb_refl; reflexivity|].
  destruct (Nat.eqb_spec p m); [congruence|reflexivity].
Qed.
Lemma remove_id_snoc x l n : x <> n -> remove_id x (l ++ [n]) = remove_id x l ++ [n].
Proof.
  intros N. unfold remove_id. rewrite filter_app. cbn [filter].
  destruct (Nat.eqb_spec n x); [congruence|reflexivity].
Qed.
Lemma cuts_last L n q xs : ~ In n xs -> (forall x, In x xs -> x < L) -> forall h, IL L h ->
  (exists l, children h q = l ++ [n]) -> exists l, children (cuts xs h) q = l ++ [n].
Proof.
  induction xs as [|x xs IH]; intros Hn Hb h HI [l E]; cbn; [eauto|].
  apply IH.
  - intros H. apply Hn. right. exact H.
  - intros y Hy. apply Hb. right. exact Hy.
  - apply after_detach_IL. exact HI.
  - destruct HI as [I Len]. rewrite children_after_detach; [|exact I|rewrite Len; apply Hb; left; reflexivity].
    destruct (oid_eqb (parent h x) (Some q)); [|eauto].
    rewrite E, remove_id_snoc; [eauto|]. intros ->. apply Hn. left. reflexivity.
Qed.

Section R.
Variable acts : nat -> hookkind -> id -> list id.
Variables (L : nat) (n : id).
(** the hooks of the moving node never detach that node itself, and name existing nodes *)
Hypothesis acts_not_self : forall i k, ~ In n (acts i k n).
Hypothesis acts_bound : forall i k x, In x (acts i k n) -> x < L.

(** what a hook must observe (C16) *)
Definition observes (k : hookkind) (a : id) (h : heap) : Prop :=
  match k with
  | PreDetach => parent h n = Some a /\ In n (children h a)
  | PostDetach | PreAttach => parent h n = None /\ forall m, ~ In n (children h m)
  | PostAttach => parent h n = Some a /\ exists l, children h a = l ++ [n]
  | _ => True
  end.
Definition event_ok (e : event) : Prop :=
  match e with Ev k m [a] h => m = n /\ observes k a h | _ => False end.

Lemma root_in_no_list h : Inv h -> parent h n = None -> forall m, ~ In n (children h m).
Proof. intros I P m H. apply (inv_link _ I) in H. congruence. Qed.

(** __detach with re-entrant hooks *)
Lemma detach_part p0 s : IL L (heap_of s) -> n < L -> parent (heap_of s) n = Some p0 ->
  let r := detach_r acts n (Some p0) s in
  fst r = Ok tt /\ IL L (heap_of (snd r)) /\ parent (heap_of (snd r)) n = None /\
  (forall q lq, q <> n -> chain (heap_of s) q lq -> ~ In n lq ->
                exists l', chain (heap_of (snd r)) q l' /\ incl l' lq) /\
  exists evs, log (snd r) = log s ++ evs /\ Forall event_ok evs.
Proof.
  intros HI Bn P. cbv zeta.
  set (h1 := cuts (acts (cnt s) PreDetach n) (heap_of s)).
  set (h2 := detach_links h1 n p0).
  set (h3 := cuts (acts (S (cnt s)) PostDetach n) h2).
  assert (E : detach_r acts n (Some p0) s
              = (Ok tt, {| heap_of := h3; cnt := S (S (cnt s));
                           log := (log s ++ [Ev PreDetach n [p0] (heap_of s)]) ++ [Ev PostDetach n [p0] h2] |})) by reflexivity.
  rewrite E. cbn [fst snd heap_of log].
  assert (I1 : IL L h1) by (apply cuts_IL; exact HI).
  assert (P1 : parent h1 n = Some p0).
  { unfold h1. rewrite (cuts_parent L n); auto. apply acts_bound. }
  assert (A2 : h2 = after_detach h1 n) by (unfold h2, after_detach; rewrite P1; reflexivity).
  assert (I2 : IL L h2) by (rewrite A2; apply after_detach_IL; exact I1).
  assert (P2 : parent h2 n = None) by (rewrite A2; eapply after_detach_parent; eauto).
  assert (I3 : IL L h3) by (apply cuts_IL; exact I2).
  assert (P3 : parent h3 n = None).
  { unfold h3. rewrite (cuts_parent L n); auto. apply acts_bound. }
  split; [reflexivity|]. split; [exact I3|]. split; [exact P3|]. split.
  - intros q lq Nq C Nl.
    destruct (cuts_chain L (acts (cnt s) PreDetach n) q (acts_bound _ _) (heap_of s) lq HI C) as [l1 [C1 In1]].
    assert (C2 : chain h2 q l1).
    { rewrite A2. eapply after_detach_chain; [exact I1|exact Bn|exact C1|exact Nq|]. intros H. apply Nl, In1, H. }
    destruct (cuts_chain L (acts (S (cnt s)) PostDetach n) q (acts_bound _ _) h2 l1 I2 C2) as [l3 [C3 In3]].
    exists l3. split; [exact C3|]. intros y Hy. apply In1, In3, Hy.
  - exists [Ev PreDetach n [p0] (heap_of s); Ev PostDetach n [p0] h2]. split; [rewrite <- app_assoc; reflexivity|].
    constructor; [|constructor; [|constructor]]; cbn; (split; [reflexivity|]).
    + split; [exact P|]. destruct HI as [I0 _]. apply (inv_link _ I0). exact P.
    + split; [exact P2|]. apply root_in_no_list; [apply I2|exact P2].
Qed.

(** __attach with re-entrant hooks *)
Lemma attach_part q s lq : IL L (heap_of s) -> n < L -> q < L -> parent (heap_of s) n = None -> q <> n ->
  chain (heap_of s) q lq -> ~ In n lq ->
  let r := attach_r acts n (Some q) s in
  fst r = Ok tt /\ IL L (heap_of (snd r)) /\ parent (heap_of (snd r)) n = Some q /\
  (exists l, children (heap_of (snd r)) q = l ++ [n]) /\
  exists evs, log (snd r) = log s ++ evs /\ Forall event_ok evs.
Proof.
  intros HI Bn Bq P Nq C Nl. cbv zeta.
  set (h4 := cuts (acts (cnt s) PreAttach n) (heap_of s)).
  set (h5 := attach_links h4 n q).
  set (h6 := cuts (acts (S (cnt s)) PostAttach n) h5).
  assert (E : attach_r acts n (Some q) s
              = (Ok tt, {| heap_of := h6; cnt := S (S (cnt s));
                           log := (log s ++ [Ev PreAttach n [q] (heap_of s)]) ++ [Ev PostAttach n [q] h5] |})) by reflexivity.
  rewrite E. cbn [fst snd heap_of log].
  assert (I4 : IL L h4) by (apply cuts_IL; exact HI).
  assert (P4 : parent h4 n = None).
  { unfold h4. rewrite (cuts_parent L n); auto. apply acts_bound. }
  destruct (cuts_chain L (acts (cnt s) PreAttach n) q (acts_bound _ _) (heap_of s) lq HI C) as [l4 [C4 In4]].
  assert (I5 : IL L h5).
  { destruct I4 as [I4 Len4]. split; [|unfold h5; rewrite length_attach; exact Len4].
    eapply (attach_inv h4 n q l4); [exact I4|lia|lia|exact P4|exact C4|exact Nq|]. intros H. apply Nl, In4, H. }
  assert (P5 : parent h5 n = Some q).
  { unfold h5. rewrite parent_attach by (destruct I4 as [_ ->]; exact Bn). rewrite Nat.eqb_refl. reflexivity. }
  assert (C5 : children h5 q = children h4 q ++ [n]).
  { unfold h5. rewrite children_attach by (destruct I4 as [_ ->]; exact Bq). rewrite Nat.eqb_refl. reflexivity. }
  split; [reflexivity|]. split; [apply cuts_IL; exact I5|]. split.
  { unfold h6. rewrite (cuts_parent L n); auto. apply acts_bound. }
  split.
  { unfold h6. apply (cuts_last L n q); auto; [apply acts_bound|eauto]. }
  exists [Ev PreAttach n [q] (heap_of s); Ev PostAttach n [q] h5]. split; [rewrite <- app_assoc; reflexivity|].
  constructor; [|constructor; [|constructor]]; cbn; (split; [reflexivity|]).
  - split; [exact P|]. apply root_in_no_list; [apply HI|exact P].
  - split; [exact P5|eauto].
Qed.

Lemma sp_r_unfold v s : option_eqb Nat.eqb (parent (heap_of s) n) v = false ->
  set_parent_r acts n v s
  = match check_loop n v s with
    | (Ok _, s1) => (detach_r acts n (parent (heap_of s) n) ;;; attach_r acts n v) s1
    | (Err e, s1) => (Err e, s1)
    | (OutOfFuel, s1) => (OutOfFuel, s1)
    end.
Proof. intros EQ. unfold set_parent_r. unfold mbind at 1. unfold get_heap. cbn [fst snd]. rewrite EQ. reflexivity. Qed.

(** C01 + C16 with re-entrant hooks: a parent assignment that is a real change
    keeps the forest consistent, is refused without any effect or performs the
    move, and every hook observes the state the protocol promises *)
Theorem set_parent_r_ok v s : IL L (heap_of s) -> n < L -> match v with Some q => q < L | None => True end ->
  parent (heap_of s) n <> v ->
  let r := set_parent_r acts n v s in
  IL L (heap_of (snd r)) /\
  (fst r = Ok tt -> parent (heap_of (snd r)) n = v /\
                    match v with Some q => exists l, children (heap_of (snd r)) q = l ++ [n] | None => True end) /\
  (fst r <> Ok tt -> snd r = s) /\
  (exists evs, log (snd r) = log s ++ evs /\ Forall event_ok evs).
Proof.
  intros HI Bn Bv NE. cbv zeta.
  assert (EQ : option_eqb Nat.eqb (parent (heap_of s) n) v = false).
  { destruct (parent (heap_of s) n) as [a|], v as [b|]; cbn; auto; [apply Nat.eqb_neq; congruence|exfalso; apply NE; reflexivity]. }
  rewrite (sp_r_unfold v s EQ).
  destruct (check_loop_spec n v s) as [CS CO].
  destruct (check_loop n v s) as [[[]|e|] s1] eqn:CL; cbn [fst snd] in CS, CO; subst s1.
  2:{ cbn [fst snd]. split; [exact HI|]. split; [intros H; cbn in H; discriminate H|]. split; [reflexivity|].
      exists []. rewrite app_nil_r. split; auto. }
  2:{ cbn [fst snd]. split; [exact HI|]. split; [intros H; cbn in H; discriminate H|]. split; [reflexivity|].
      exists []. rewrite app_nil_r. split; auto. }
  specialize (CO eq_refl). unfold mbind.
  destruct (parent (heap_of s) n) as [p0|] eqn:P.
  - destruct (detach_part p0 s HI Bn P) as (D1 & D2 & D3 & D4 & evs1 & D5 & D6).
    destruct (detach_r acts n (Some p0) s) as [r1 s3]. cbn [fst snd] in *. subst r1.
    destruct v as [q|].
    + destruct CO as [Nq [l [PL Nl]]]. destruct HI as [I0 Len0].
      destruct (path_rev_inv (heap_of s) q I0) as [lq [Cq Pq]]. rewrite Pq in PL. injection PL as <-.
      assert (Nlq : ~ In n lq) by (intros Hin; apply Nl; right; exact Hin).
      destruct (D4 q lq Nq Cq Nlq) as [l3 [C3 In3]].
      destruct (attach_part q s3 l3 D2 Bn Bv D3 Nq C3) as (A1 & A2 & A3 & A4 & evs2 & A5 & A6).
      { intros H. apply Nlq, In3, H. }
      destruct (attach_r acts n (Some q) s3) as [r2 s6]. cbn [fst snd] in *. subst r2.
      split; [exact A2|]. split; [intros _; split; [exact A3|exact A4]|]. split; [intros H; exfalso; apply H; reflexivity|].
      exists (evs1 ++ evs2). split; [rewrite A5, D5, app_assoc; reflexivity|apply Forall_app; split; assumption].
    + cbn [attach_r ret fst snd]. split; [exact D2|]. split; [intros _; split; [exact D3|exact I]|].
      split; [intros H; exfalso; apply H; reflexivity|]. exists evs1. split; assumption.
  - destruct v as [q|]; [|exfalso; apply NE; reflexivity].
    cbn [detach_r ret fst snd].
    destruct CO as [Nq [l [PL Nl]]]. pose proof HI as [I0 Len0].
    destruct (path_rev_inv (heap_of s) q I0) as [lq [Cq Pq]]. rewrite Pq in PL. injection PL as <-.
    assert (Nlq : ~ In n lq) by (intros Hin; apply Nl; right; exact Hin).
    destruct (attach_part q s lq HI Bn Bv P Nq Cq Nlq) as (A1 & A2 & A3 & A4 & evs2 & A5 & A6).
    destruct (attach_r acts n (Some q) s) as [r2 s6]. cbn [fst snd] in *. subst r2.
    split; [exact A2|]. split; [intros _; split; [exact A3|exact A4]|]. split; [intros H; exfalso; apply H; reflexivity|].
    exists evs2. split; assumption.
Qed.
End R.
