(** C01: in a consistent forest no internal assertion ever fires - a run with
    ANYTREE_ASSERTIONS on is the same run as with it off, for every call,
    every argument, every hook-fault oracle and every re-entrancy fuel.
    Proved with a small relational Hoare logic over the setter monad:
    [agree P m1 m2 Q R] - from a state satisfying P the two computations give
    the same result and state, which satisfies Q on normal and R on exceptional
    termination. *)
Require Import AT.Model.Base AT.Model.Heap AT.Model.Mutate AT.Spec.MutSpec.
Require Import AT.Proofs.ListLemmas AT.Proofs.HeapLemmas AT.Proofs.MutInv AT.Proofs.MutHistory AT.Proofs.MutParent AT.Proofs.MutChildren.

Definition agree {A} (P : heap -> Prop) (m1 m2 : M A) (Q : A -> heap -> Prop) (R : heap -> Prop) : Prop :=
  forall s, P (heap_of s) -> m1 s = m2 s /\
    match fst (m1 s) with Ok a => Q a (heap_of (snd (m1 s))) | _ => R (heap_of (snd (m1 s))) end.

Lemma agree_bind {A B} (P : heap -> Prop) (m1 m2 : M A) (Q : A -> heap -> Prop) (R : heap -> Prop) (k1 k2 : A -> M B) (Q' : B -> heap -> Prop) :
  agree P m1 m2 Q R -> (forall a, agree (Q a) (k1 a) (k2 a) Q' R) -> agree P (mbind m1 k1) (mbind m2 k2) Q' R.
Proof.
  intros Hm Hk s Hs. destruct (Hm s Hs) as [E HQ]. unfold mbind. rewrite <- E.
  destruct (m1 s) as [[a|e|] s']; cbn [fst snd] in *; [apply Hk; exact HQ|split; auto|split; auto].
Qed.
Lemma agree_get {B} (P : heap -> Prop) (k1 k2 : heap -> M B) (Q : B -> heap -> Prop) (R : heap -> Prop) :
  (forall h0, P h0 -> agree (fun h => h = h0) (k1 h0) (k2 h0) Q R) -> agree P (mbind get_heap k1) (mbind get_heap k2) Q R.
Proof. intros H s Hs. unfold mbind, get_heap. apply (H (heap_of s) Hs s eq_refl). Qed.
Lemma agree_refl {A} (P : heap -> Prop) (m : M A) (Q : A -> heap -> Prop) (R : heap -> Prop) :
  (forall s, P (heap_of s) -> match fst (m s) with Ok a => Q a (heap_of (snd (m s))) | _ => R (heap_of (snd (m s))) end) ->
  agree P m m Q R.
Proof. intros H s Hs. split; [reflexivity|apply H; exact Hs]. Qed.
Lemma agree_conseq {A} (P P' : heap -> Prop) (m1 m2 : M A) (Q Q' : A -> heap -> Prop) (R R' : heap -> Prop) :
  agree P m1 m2 Q R -> (forall h, P' h -> P h) -> (forall a h, Q a h -> Q' a h) -> (forall h, R h -> R' h) ->
  agree P' m1 m2 Q' R'.
Proof.
  intros H HP HQ HR s Hs. destruct (H s (HP _ Hs)) as [E K]. split; auto.
  destruct (fst (m1 s)); auto.
Qed.
Lemma agree_fact {A} (F : Prop) (P : heap -> Prop) (m1 m2 : M A) (Q : A -> heap -> Prop) (R : heap -> Prop) :
  (F -> agree P m1 m2 Q R) -> agree (fun h => F /\ P h) m1 m2 Q R.
Proof. intros H s [HF Hs]. apply (H HF s Hs). Qed.
Lemma agree_frame {A} (P : heap -> Prop) (m1 m2 : M A) (Q : heap -> A -> heap -> Prop) (R : heap -> Prop) :
  (forall h0, P h0 -> agree (fun h => h = h0) m1 m2 (Q h0) R) ->
  agree P m1 m2 (fun a h' => exists h0, P h0 /\ Q h0 a h') R.
Proof.
  intros H s Hs. destruct (H (heap_of s) Hs s eq_refl) as [E K]. split; auto.
  destruct (fst (m1 s)); eauto.
Qed.
Lemma agree_for_each {A} (J : list A -> heap -> Prop) (R : heap -> Prop) l (b1 b2 : A -> M unit) :
  (forall x r, agree (J (x :: r)) (b1 x) (b2 x) (fun _ => J r) R) ->
  agree (J l) (for_each l b1) (for_each l b2) (fun _ => J []) R.
Proof.
  intros H. induction l as [|x l IH]; cbn [for_each].
  - apply agree_refl. intros s Hs. exact Hs.
  - eapply agree_bind; [apply H|]. intros ?. exact IH.
Qed.
Lemma agree_try {A} (P : heap -> Prop) (m1 m2 : M A) (Q : A -> heap -> Prop) (R1 R : heap -> Prop) (h1 h2 : exn -> M A) :
  agree P m1 m2 Q R1 -> (forall h, R1 h -> R h) -> (forall e, agree R1 (h1 e) (h2 e) Q R) ->
  agree P (try_except m1 h1) (try_except m2 h2) Q R.
Proof.
  intros Hm HR Hh s Hs. destruct (Hm s Hs) as [E K]. unfold try_except. rewrite <- E.
  destruct (m1 s) as [[a|e|] s']; cbn [fst snd] in *; [split; auto|apply Hh; exact K|split; auto].
Qed.

Section A.
Variables (typed : bool) (faults : nat -> hookkind -> id -> bool).

Lemma agree_hook (P : heap -> Prop) k n args (R : heap -> Prop) : (forall h, P h -> R h) ->
  agree P (hook faults k n args) (hook faults k n args) (fun _ => P) R.
Proof.
  intros HR. apply agree_refl. intros s Hs. unfold hook. destruct (faults (cnt s) k n); cbn [fst snd heap_of]; auto.
Qed.
Lemma agree_massert (P : heap -> Prop) b (R : heap -> Prop) : (forall h, P h -> b = true) ->
  agree P (massert true b) (massert false b) (fun _ => P) R.
Proof. intros Hb s Hs. rewrite (Hb _ Hs). unfold massert. cbn. split; auto. Qed.
Lemma agree_raise {A} (P : heap -> Prop) e (Q : A -> heap -> Prop) (R : heap -> Prop) : (forall h, P h -> R h) -> agree P (raise e) (raise e) Q R.
Proof. intros HR. apply agree_refl. intros s Hs. cbn. auto. Qed.
Lemma agree_ret {A} (P : heap -> Prop) (a : A) (Q : A -> heap -> Prop) (R : heap -> Prop) : (forall h, P h -> Q a h) -> agree P (ret a) (ret a) Q R.
Proof. intros HQ. apply agree_refl. intros s Hs. cbn. auto. Qed.

(** ---- __detach / __attach: the assertion holds ---- *)
Lemma detach_agree n h0 : Inv h0 ->
  agree (fun h => h = h0) (detach true faults n (parent h0 n)) (detach false faults n (parent h0 n))
        (fun _ h' => h' = after_detach h0 n) (fun _ => True).
Proof.
  intros I s Hs. unfold after_detach. destruct (parent h0 n) as [p|] eqn:P.
  - assert (Mem : mem (children (heap_of s) p) n = true).
    { rewrite Hs. apply mem_In. apply (inv_link _ I). exact P. }
    unfold detach, mbind, hook, get_heap, put_heap, massert, raise, ret. cbn [fst snd heap_of cnt log].
    destruct (faults (cnt s) PreDetach n); cbn [fst snd heap_of cnt log]; [split; auto|].
    rewrite Mem. cbn [negb andb fst snd heap_of cnt log].
    destruct (faults (S (cnt s)) PostDetach n); cbn [fst snd heap_of cnt log]; split; auto. rewrite Hs. reflexivity.
  - cbn. split; auto.
Qed.
Lemma attach_agree n q h1 : Inv h1 -> parent h1 n = None ->
  agree (fun h => h = h1) (attach true faults n (Some q)) (attach false faults n (Some q))
        (fun _ h' => h' = attach_links h1 n q) (fun _ => True).
Proof.
  intros I P s Hs.
  assert (Mem : mem (children (heap_of s) q) n = false).
  { rewrite Hs. destruct (mem (children h1 q) n) eqn:E; auto. apply mem_In in E. apply (inv_link _ I) in E. congruence. }
  unfold attach, mbind, hook, get_heap, put_heap, massert, raise, ret. cbn [fst snd heap_of cnt log].
  destruct (faults (cnt s) PreAttach n); cbn [fst snd heap_of cnt log]; [split; auto|].
  rewrite Mem. cbn [negb andb fst snd heap_of cnt log].
  destruct (faults (S (cnt s)) PostAttach n); cbn [fst snd heap_of cnt log]; split; auto. rewrite Hs. reflexivity.
Qed.

(** ---- the parent setter ---- *)
Definition sp_result (h : heap) (n : id) (v : option id) : heap :=
  if option_eqb Nat.eqb (parent h n) v then h else
  match v with None => after_detach h n | Some q => attach_links (after_detach h n) n q end.

Lemma sp_agree0 L n v h0 : IL L h0 -> n < L ->
  agree (fun h => h = h0) (set_parent typed true faults n (opt_value v)) (set_parent typed false faults n (opt_value v))
        (fun _ h' => h' = sp_result h0 n v) (fun _ => True).
Proof.
  intros HI Bn.
  assert (G : agree (fun h => h = h0)
     (hh <-- get_heap ;;; (let p := parent hh n in if option_eqb Nat.eqb p v then ret tt
        else check_loop n v ;;; detach true faults n p ;;; attach true faults n v))
     (hh <-- get_heap ;;; (let p := parent hh n in if option_eqb Nat.eqb p v then ret tt
        else check_loop n v ;;; detach false faults n p ;;; attach false faults n v))
     (fun _ h' => h' = sp_result h0 n v) (fun _ => True)).
  { apply agree_get. intros h ->. cbv zeta. unfold sp_result.
    destruct (option_eqb Nat.eqb (parent h0 n) v) eqn:EQ; [apply agree_ret; auto|].
    eapply agree_bind.
    { apply (agree_refl _ _ (fun _ h => h = h0) (fun _ => True)). intros s Hs.
      destruct (check_loop_spec n v s) as [CS _]. rewrite CS. destruct (fst (check_loop n v s)); auto. }
    intros ?. eapply agree_bind; [apply detach_agree; apply HI|]. intros ?.
    destruct v as [q|].
    - apply attach_agree; [apply (after_detach_IL L); auto|eapply after_detach_parent; eauto].
    - apply agree_ret. auto. }
  intros s Hs. rewrite !set_parent_unfold. apply (G s Hs).
Qed.

Lemma sp_agree L n v h0 : n < L -> match v with Some q => q < L | None => True end -> IL L h0 ->
  agree (fun h => h = h0) (set_parent typed true faults n (opt_value v)) (set_parent typed false faults n (opt_value v))
        (fun _ h' => h' = sp_result h0 n v /\ IL L h') (IL L).
Proof.
  intros Bn Bv HI s Hs. destruct (sp_agree0 L n v h0 HI Bn s Hs) as [E K]. split; auto.
  assert (V : valid_value L (opt_value v)) by (destruct v; exact Bv).
  assert (HIs : IL L (heap_of s)) by (rewrite Hs; exact HI).
  pose proof (set_parent_keeps typed true faults L n (opt_value v) Bn V s HIs) as KK.
  destruct (fst (set_parent typed true faults n (opt_value v) s)); auto.
Qed.

(** ---- the children deleter ---- *)
Lemma remove_id_head x r : ~ In x r -> remove_id x (x :: r) = r.
Proof. intros H. unfold remove_id. cbn [filter]. rewrite Nat.eqb_refl. cbn [negb]. apply remove_id_notin. exact H. Qed.

Lemma del_agree L n : n < L ->
  agree (IL L) (del_children typed true faults n) (del_children typed false faults n)
        (fun _ h' => IL L h' /\ children h' n = []) (IL L).
Proof.
  intros Bn. unfold del_children. apply agree_get. intros h0 HI0.
  eapply agree_bind; [apply (agree_hook (fun h => h = h0)) with (R := IL L); intros h ->; exact HI0|]. intros ?.
  eapply agree_bind.
  { eapply agree_conseq with (P := (fun h => IL L h /\ children h n = children h0 n));
      [apply (agree_for_each (fun rest h => IL L h /\ children h n = rest) (IL L))| | |].
    - intros x r.
      eapply agree_conseq with (R := IL L);
        [apply (agree_frame (fun h => IL L h /\ children h n = x :: r) _ _
                  (fun h1 _ h' => h' = sp_result h1 x None /\ IL L h'))| | |].
      + intros h1 [HI1 C1].
        assert (Bx : x < L). { destruct HI1 as [I1 Len]. destruct (inv_bound_c _ I1 n x); [rewrite C1; left; reflexivity|lia]. }
        apply (sp_agree L x None h1 Bx Logic.I HI1).
      + auto.
      + intros ? h' [h1 [[HI1 C1] [-> HI']]]. split; [exact HI'|].
        destruct HI1 as [I1 Len].
        assert (Px : parent h1 x = Some n). { apply (inv_link _ I1). rewrite C1. left. reflexivity. }
        unfold sp_result. rewrite Px. cbn [option_eqb]. unfold after_detach. rewrite Px.
        rewrite children_detach by lia. rewrite Nat.eqb_refl, C1. apply remove_id_head.
        pose proof (inv_nodup _ I1 n) as ND. rewrite C1 in ND. inversion ND; auto.
      + auto.
    - intros h ->. auto.
    - intros ? h K. exact K.
    - auto. }
  intros ?. apply agree_get. intros h' [HI' C'].
  eapply agree_bind.
  { apply (agree_massert (fun h => h = h')) with (R := IL L). intros ? _. rewrite C'. reflexivity. }
  intros ?. eapply agree_conseq; [apply (agree_hook (fun h => h = h')) with (R := IL L); intros h ->; exact HI'| | |]; auto.
  intros ? h ->. auto.
Qed.

(** ---- validation ---- *)
Lemma check_children_nodup : forall xs seen s, fst (check_children typed seen xs s) = Ok tt ->
  NoDup (value_ids xs) /\ (forall c, In c (value_ids xs) -> ~ In c seen).
Proof.
  induction xs as [|x xs IH]; intros seen s H; cbn [value_ids flat_map].
  - split; [constructor|intros c []].
  - cbn [check_children] in H. destruct x as [|c|].
    + destruct typed; [discriminate H|]. apply (IH seen s H).
    + destruct (mem seen c) eqn:M; [discriminate H|]. destruct (IH (c :: seen) s H) as [ND NI].
      cbn [app]. split.
      * constructor; auto. intros Hc. apply (NI c Hc). left. reflexivity.
      * intros c' [<-|Hc'].
        -- intros Hin. apply mem_In in Hin. congruence.
        -- intros Hin. apply (NI c' Hc'). right. exact Hin.
    + destruct typed; [discriminate H|]. apply (IH seen s H).
Qed.

(** ---- the children setter, any fuel ---- *)
Definition J2 (L : nat) (n : id) (total : nat) (rest : list value) (h : heap) : Prop :=
  IL L h /\ length (children h n) + length rest = total /\ valid_values L rest /\
  NoDup (value_ids rest) /\ (forall c, In c (value_ids rest) -> ~ In c (children h n)).

Lemma assign_agree L n total x r : n < L ->
  agree (J2 L n total (x :: r)) (assign_parent_of typed true faults x n) (assign_parent_of typed false faults x n)
        (fun _ => J2 L n total r) (IL L).
Proof.
  intros Bn. destruct x as [|c|]; cbn [assign_parent_of].
  - apply agree_raise. intros h K. apply K.
  - eapply agree_conseq with (R := IL L);
      [apply (agree_frame (J2 L n total (VNode c :: r)) _ _ (fun h1 _ h' => h' = sp_result h1 c (Some n) /\ IL L h'))| | |]; auto.
    + intros h1 (HI1 & Len1 & V1 & ND1 & NI1).
      assert (Bc : c < L). { inversion V1; subst. assumption. }
      apply (sp_agree L c (Some n) h1 Bc Bn HI1).
    + intros ? h' [h1 [(HI1 & Len1 & V1 & ND1 & NI1) [-> HI']]].
      destruct HI1 as [I1 LenH].
      assert (Bc : c < L). { inversion V1; subst. assumption. }
      assert (Nc : ~ In c (children h1 n)). { apply NI1. cbn. left. reflexivity. }
      assert (Pc : parent h1 c <> Some n). { intros E. apply Nc. apply (inv_link _ I1). exact E. }
      assert (Cn : children (sp_result h1 c (Some n)) n = children h1 n ++ [c]).
      { unfold sp_result. destruct (option_eqb Nat.eqb (parent h1 c) (Some n)) eqn:EQ.
        { exfalso. apply Pc. destruct (parent h1 c) as [p|]; cbn in EQ; [|discriminate EQ].
          apply Nat.eqb_eq in EQ. congruence. }
        unfold after_detach. destruct (parent h1 c) as [p|] eqn:P.
        - destruct (inv_bound_p _ I1 _ _ P) as [_ Bp].
          rewrite children_attach by (rewrite length_detach; lia). rewrite Nat.eqb_refl.
          rewrite children_detach by lia. destruct (Nat.eqb_spec n p) as [->|Np]; [congruence|reflexivity].
        - rewrite children_attach by lia. rewrite Nat.eqb_refl. reflexivity. }
      split; [exact HI'|]. rewrite Cn, app_length. cbn [length] in *. split; [lia|].
      split; [inversion V1; assumption|].
      cbn [value_ids flat_map app] in ND1. inversion ND1 as [|c0 l0 Hnc ND']; subst. split; [exact ND'|].
      intros c' Hc' Hin. apply in_app_or in Hin. destruct Hin as [Hin|[<-|[]]].
      * apply (NI1 c'); [cbn; right; exact Hc'|exact Hin].
      * apply Hnc. exact Hc'.
  - apply agree_raise. intros h K. apply K.
Qed.

Lemma sc_agree L fuel : forall n a, n < L ->
  (match a with CList xs => valid_values L xs | CNotIterable => True end) ->
  agree (IL L) (set_children typed true faults fuel n a) (set_children typed false faults fuel n a)
        (fun _ => IL L) (IL L).
Proof.
  induction fuel as [|fu IH]; intros n a Bn Va; cbn [set_children]; [apply agree_raise; auto|].
  destruct a as [xs|]; [|apply agree_raise; auto].
  eapply agree_bind.
  { apply (agree_refl (IL L) _ (fun _ h => NoDup (value_ids xs) /\ IL L h) (IL L)). intros s Hs.
    rewrite check_children_state. pose proof (check_children_nodup xs [] s) as K.
    destruct (fst (check_children typed [] xs s)) as [[]| |]; auto. split; auto. apply K. reflexivity. }
  intros ?. apply agree_fact. intros ND.
  apply agree_get. intros h0 HI0.
  eapply agree_bind.
  { eapply agree_conseq; [apply (del_agree L n Bn)| | |]; [intros h ->; exact HI0|intros ? h K; exact K|auto]. }
  intros ?.
  apply agree_try with (R1 := IL L); [|auto|].
  - eapply agree_bind.
    { apply (agree_hook (fun h => IL L h /\ children h n = [])) with (R := IL L). intros h K. apply K. }
    intros ?. eapply agree_bind.
    { eapply agree_conseq with (P := J2 L n (length xs) xs);
        [apply (agree_for_each (J2 L n (length xs)) (IL L))| | |].
      - intros x r. apply assign_agree. exact Bn.
      - intros h [HI C]. unfold J2. rewrite C. cbn [length Nat.add]. split; [exact HI|]. split; [reflexivity|].
        split; [exact Va|]. split; [exact ND|]. intros c _ [].
      - intros ? h K. exact K.
      - auto. }
    intros ?. eapply agree_bind.
    { apply (agree_hook (J2 L n (length xs) [])) with (R := IL L). intros h K. apply K. }
    intros ?. apply agree_get. intros h' (HI' & Len' & _).
    eapply agree_conseq; [apply (agree_massert (fun h => h = h')) with (R := IL L)| | |].
    + intros ? _. cbn [length] in Len'. rewrite Nat.add_0_r in Len'. rewrite Len'. apply Nat.eqb_refl.
    + auto.
    + intros ? h ->. exact HI'.
    + auto.
  - intros e. eapply agree_bind.
    + apply IH; [exact Bn|]. unfold valid_values. apply Forall_forall. intros x Hx. apply in_map_iff in Hx.
      destruct Hx as [c [<- Hc]]. cbn. destruct HI0 as [I0 Len0]. destruct (inv_bound_c _ I0 _ _ Hc). lia.
    + intros ?. apply agree_raise. auto.
Qed.

(** ---- every call ---- *)
Theorem assertions_irrelevant fuel o s : Inv (heap_of s) -> valid_op (length (heap_of s)) o ->
  run_op typed true faults fuel o s = run_op typed false faults fuel o s.
Proof.
  intros I V. set (L := length (heap_of s)) in *.
  assert (HI : IL L (heap_of s)) by (split; auto).
  destruct o as [n v|n a|n|p c]; cbn [run_op valid_op] in *.
  - destruct V as [Bn Bv]. destruct v as [|q|].
    + apply (sp_agree L n None (heap_of s) Bn Logic.I HI s eq_refl).
    + apply (sp_agree L n (Some q) (heap_of s) Bn Bv HI s eq_refl).
    + reflexivity.
  - destruct V as [Bn Va]. apply (sc_agree L fuel n a Bn Va s HI).
  - apply (del_agree L n V s HI).
  - destruct V as [Vp Vc].
    set (s1 := {| heap_of := heap_of s ++ [empty_cell]; cnt := cnt s; log := log s |}).
    set (T := fun asrt => (set_parent typed asrt faults L p ;;;
       (if truthy c then match c with Some a => set_children typed asrt faults fuel L a | None => ret tt end else ret tt) ;;;
       ret L) ;;; ret tt).
    change ((construct typed true faults fuel p c ;;; ret tt) s) with (T true s1).
    change ((construct typed false faults fuel p c ;;; ret tt) s) with (T false s1).
    assert (I1 : IL (S L) (heap_of s1)).
    { split; [apply alloc_inv; auto|]. cbn. rewrite app_length. cbn. unfold L. lia. }
    assert (VV : forall v, valid_value L v -> valid_value (S L) v) by (intros [|q|]; cbn; auto).
    assert (G : agree (IL (S L)) (T true) (T false) (fun _ _ => True) (fun _ => True)).
    { unfold T. eapply agree_bind with (Q := fun _ _ => True); [|intros ?; apply agree_ret; auto].
      eapply agree_bind with (Q := fun _ => IL (S L)) (R := fun _ => True).
      { destruct p as [|q|].
        - eapply agree_conseq; [apply (agree_frame (IL (S L)) _ _ (fun h0 _ h' => h' = sp_result h0 L None /\ IL (S L) h'));
                                intros h0 H0; apply (sp_agree (S L) L None h0 (Nat.lt_succ_diag_r L) Logic.I H0)| | |]; auto.
          intros ? h [h0 [_ [_ K]]]. exact K.
        - assert (Bq : q < S L) by (cbn in Vp; lia).
          eapply agree_conseq; [apply (agree_frame (IL (S L)) _ _ (fun h0 _ h' => h' = sp_result h0 L (Some q) /\ IL (S L) h'));
                                intros h0 H0; apply (sp_agree (S L) L (Some q) h0 (Nat.lt_succ_diag_r L) Bq H0)| | |]; auto.
          intros ? h [h0 [_ [_ K]]]. exact K.
        - apply agree_refl. intros s0 Hs. cbn [set_parent]. destruct typed; cbn; auto. }
      intros ?. eapply agree_bind with (Q := fun _ _ => True); [|intros ?; apply agree_ret; auto].
      destruct (truthy c); [|apply agree_ret; auto]. destruct c as [ca|]; [|apply agree_ret; auto].
      assert (Vca : match ca with CList xs => valid_values (S L) xs | CNotIterable => True end).
      { destruct ca as [xs|]; auto. unfold valid_values in *. eapply Forall_impl; [|exact Vc]. apply VV. }
      eapply agree_conseq; [apply (sc_agree (S L) fuel L ca (Nat.lt_succ_diag_r L) Vca)| | |]; auto. }
    apply (G s1 I1).
Qed.
End A.
