(** C03, a positive boundary for the children setter: a veto by
    _pre_attach_children (the first hook of the attach phase) - with no other
    hook raising - is rolled back completely: the call propagates the hook's
    exception and every link is as before. *)
Require Import AT.Model.Base AT.Model.Heap AT.Model.Mutate AT.Spec.MutSpec.
Require Import AT.Proofs.ListLemmas AT.Proofs.HeapLemmas AT.Proofs.MutInv AT.Proofs.MutHistory AT.Proofs.MutParent
               AT.Proofs.MutDelRun AT.Proofs.MutChildren AT.Proofs.MutSetRun AT.Proofs.FaultExt.

Lemma filter_all_in {A} (p : A -> bool) l : (forall x, In x l -> p x = true) -> filter p l = l.
Proof.
  induction l as [|x l IH]; intros H; cbn [filter]; [reflexivity|].
  rewrite (H x (or_introl eq_refl)). f_equal. apply IH. intros y Hy. apply H. right. exact Hy.
Qed.

(** detaching all children of n and re-attaching them in order restores the state *)
Lemma restore_children h n : Inv h -> n < length h ->
  eff_set_children (del_effect h n) n (children h n) = h.
Proof.
  intros I Hn.
  destruct (detach_children_state n (children h n) h I Hn eq_refl) as [I0 [L0 [K0 [P0 D0]]]].
  rewrite (detach_children_effect n h I Hn) in I0, L0, K0, P0, D0.
  set (h0 := del_effect h n) in *. set (cs := children h n) in *.
  unfold eff_set_children. apply heap_ext; [rewrite build_heap_length; exact L0|].
  intros m Hm. rewrite build_heap_length in Hm.
  destruct (build_heap_get (length h0)
              (fun m => if mem cs m then Some n else if mem (children h0 n) m then None else parent h0 m)
              (fun m => if Nat.eqb m n then cs else filter (fun c => negb (mem cs c)) (children h0 m)) m Hm) as [EP EC].
  rewrite EP, EC. split.
  - destruct (mem cs m) eqn:M.
    + apply mem_In in M. symmetry. apply (inv_link _ I). exact M.
    + rewrite K0. cbn [mem existsb]. rewrite P0, M. reflexivity.
  - destruct (Nat.eqb_spec m n) as [->|N]; [reflexivity|].
    rewrite (D0 m N). apply filter_all_in. intros c Hc. apply negb_true_iff.
    destruct (mem cs c) eqn:M; [|reflexivity]. exfalso. apply mem_In in M.
    apply (inv_link _ I) in M. apply (inv_link _ I) in Hc. congruence.
Qed.

Section V.
Variables (typed asrt : bool) (faults : nat -> hookkind -> id -> bool).

Theorem pre_attach_children_veto_restores fu n xs s : let h := heap_of s in
  Inv h -> n < length h -> NoDup xs ->
  let i0 := length (fst (log_del_children h n)) + cnt s in       (* index of the _pre_attach_children invocation *)
  (forall i k m, faults i k m = true -> i = i0) ->
  faults i0 PreAttachChildren n = true ->
  let r := set_children typed asrt faults (S (S fu)) n (CList (map VNode xs)) s in
  fst r = Err (HookExn i0) /\ heap_of (snd r) = h.
Proof.
  intros h I Hn ND i0 Hf Hv.
  set (h0 := del_effect h n). set (l0 := fst (log_del_children h n)). set (s0 := st_after s h0 l0).
  set (old := children h n).
  set (s1 := {| heap_of := h0; cnt := S i0;
                log := log s0 ++ [Ev PreAttachChildren n (value_ids (map VNode xs)) h0] |}).
  destruct (detach_children_state n (children h n) h I Hn eq_refl) as [I0 [L0 [K0 [P0 D0]]]].
  rewrite (detach_children_effect n h I Hn) in I0, L0, K0, P0, D0. fold h0 in I0, L0, K0, P0, D0.
  (* the deletion phase consults only indices below i0: it is the fault-free one *)
  assert (ED : del_children typed asrt faults n s = (Ok tt, s0)).
  { transitivity (del_children typed asrt no_faults n s); [|apply (del_children_run typed asrt n s I Hn)].
    apply (simb_del_children typed asrt faults no_faults n s).
    intros i k m Hi. rewrite (del_children_run typed asrt n s I Hn) in Hi. cbn [snd st_after cnt] in Hi.
    destruct (faults i k m) eqn:F; [|reflexivity]. apply Hf in F. unfold i0 in F. fold h in Hi. lia. }
  (* the rollback consults only indices above i0: it is the fault-free one *)
  destruct (inv_acyclic _ I n) as [ln Cn].
  assert (Cn0 : chain h0 n ln).
  { unfold h0. rewrite <- (detach_children_effect n h I Hn). apply moves_chain_stable; auto.
    intros c v Hcv. apply in_map_iff in Hcv. destruct Hcv as [c' [[= <- <-] Hc']].
    destruct (child_not_ancestor h n ln c' I Cn Hc') as [A1 A2]. split; auto.
    apply (inv_bound_c _ I _ _ Hc'). }
  assert (B0 : forall x, In x old -> x < length (heap_of s1) /\ x <> n /\ ~ In x (ancestors_of (heap_of s1) n)).
  { intros x Hx. cbn [heap_of s1]. rewrite (ancestors_of_chain _ _ _ I0 Cn0), L0.
    destruct (child_not_ancestor h n ln x I Cn Hx) as [A1 A2]. split; [|split; auto].
    apply (inv_bound_c _ I _ _ Hx). }
  assert (Hn1 : n < length (heap_of s1)) by (cbn [heap_of s1]; rewrite L0; exact Hn).
  assert (ER : set_children typed asrt faults (S fu) n (CList (map VNode old)) s1
               = (Ok tt, st_after s1 (eff_set_children h0 n old) (fst (log_set_children h0 n old)))).
  { transitivity (set_children typed asrt no_faults (S fu) n (CList (map VNode old)) s1).
    - apply (simb_set_children typed asrt faults no_faults (S fu) n (CList (map VNode old)) s1).
      intros i k m Hi. destruct (faults i k m) eqn:F; [|reflexivity]. apply Hf in F. cbn [cnt s1] in Hi. lia.
    - apply (set_children_run typed asrt fu n old s1 I0 Hn1 (inv_nodup _ I n) B0). }
  (* the call *)
  assert (E : set_children typed asrt faults (S (S fu)) n (CList (map VNode xs)) s
              = (Err (HookExn i0), st_after s1 (eff_set_children h0 n old) (fst (log_set_children h0 n old)))).
  { rewrite set_children_S. unfold mbind at 1. rewrite check_children_ok by (auto; intros x _ []).
    unfold mbind at 1. unfold get_heap. cbn [fst snd]. fold h. cbv zeta. fold old.
    unfold mbind at 1. rewrite ED.
    unfold try_except. unfold mbind at 1. unfold hook at 1.
    assert (C0 : cnt s0 = i0) by reflexivity.
    rewrite C0, Hv. cbn [fst snd heap_of log s0 st_after]. fold s0. change (log s ++ l0) with (log s0).
    fold s1. unfold mbind at 1. rewrite ER. reflexivity. }
  cbv zeta. rewrite E. cbn [fst snd st_after heap_of]. split; [reflexivity|].
  apply restore_children; assumption.
Qed.
End V.

(** the next hook of the attach phase: the _pre_attach of the FIRST new child,
    when that child has no parent at that moment (it was a root, or one of the
    former children just detached): nothing has been attached yet, the
    rollback restores every link *)
Section V2.
Variables (typed asrt : bool) (faults : nat -> hookkind -> id -> bool).

Lemma check_loop_ok h x n ln s : heap_of s = h -> Inv h -> chain h n ln -> x <> n -> ~ In x ln ->
  check_loop x (Some n) s = (Ok tt, s).
Proof.
  intros Hs I C Nx Nl. unfold check_loop.
  destruct (Nat.eqb_spec n x) as [E|_]; [congruence|].
  unfold mbind at 1. unfold get_heap. cbn [fst snd]. rewrite Hs.
  destruct (path_rev_inv h n I) as [l [Cl Pl]]. rewrite (chain_fun _ _ _ C _ Cl) in *.
  unfold mbind at 1. unfold lift. rewrite Pl. cbn [fst snd].
  assert (M : mem (n :: l) x = false).
  { destruct (mem (n :: l) x) eqn:E; [|reflexivity]. apply mem_In in E. destruct E as [E|E]; [congruence|contradiction]. }
  rewrite M. reflexivity.
Qed.

Theorem first_pre_attach_veto_restores fu n x1 rest s : let h := heap_of s in
  let xs := x1 :: rest in
  Inv h -> n < length h -> NoDup xs ->
  x1 < length h -> x1 <> n -> ~ In x1 (ancestors_of h n) ->
  (parent h x1 = None \/ parent h x1 = Some n) ->
  let i0 := length (fst (log_del_children h n)) + cnt s in
  (forall i k m, faults i k m = true -> i = S i0) ->
  faults (S i0) PreAttach x1 = true ->
  let r := set_children typed asrt faults (S (S fu)) n (CList (map VNode xs)) s in
  fst r = Err (HookExn (S i0)) /\ heap_of (snd r) = h.
Proof.
  intros h xs I Hn ND Bx Nx Ax Px i0 Hf Hv.
  set (h0 := del_effect h n). set (l0 := fst (log_del_children h n)). set (s0 := st_after s h0 l0).
  set (old := children h n).
  destruct (detach_children_state n (children h n) h I Hn eq_refl) as [I0 [L0 [K0 [P0 D0]]]].
  rewrite (detach_children_effect n h I Hn) in I0, L0, K0, P0, D0. fold h0 in I0, L0, K0, P0, D0.
  assert (ED : del_children typed asrt faults n s = (Ok tt, s0)).
  { transitivity (del_children typed asrt no_faults n s); [|apply (del_children_run typed asrt n s I Hn)].
    apply (simb_del_children typed asrt faults no_faults n s).
    intros i k m Hi. rewrite (del_children_run typed asrt n s I Hn) in Hi. cbn [snd st_after cnt] in Hi.
    destruct (faults i k m) eqn:F; [|reflexivity]. apply Hf in F. unfold i0 in F. fold h in Hi. lia. }
  destruct (inv_acyclic _ I n) as [ln Cn].
  assert (Cn0 : chain h0 n ln).
  { unfold h0. rewrite <- (detach_children_effect n h I Hn). apply moves_chain_stable; auto.
    intros c v Hcv. apply in_map_iff in Hcv. destruct Hcv as [c' [[= <- <-] Hc']].
    destruct (child_not_ancestor h n ln c' I Cn Hc') as [A1 A2]. split; auto.
    apply (inv_bound_c _ I _ _ Hc'). }
  rewrite (ancestors_of_chain _ _ _ I Cn) in Ax.
  (* the state after the _pre_attach_children hook (no fault at i0) and after the veto *)
  set (s1 := {| heap_of := h0; cnt := S i0;
                log := log s0 ++ [Ev PreAttachChildren n (value_ids (map VNode xs)) h0] |}).
  set (s2 := {| heap_of := h0; cnt := S (S i0); log := log s1 ++ [Ev PreAttach x1 [n] h0] |}).
  assert (P0x : parent h0 x1 = None).
  { rewrite P0. destruct (mem (children h n) x1) eqn:M; [reflexivity|].
    destruct Px as [Px|Px]; [exact Px|]. apply (inv_link _ I) in Px. apply mem_In in Px. congruence. }
  assert (ESP : set_parent typed asrt faults x1 (VNode n) s1 = (Err (HookExn (S i0)), s2)).
  { change (VNode n) with (opt_value (Some n)). rewrite set_parent_unfold.
    unfold mbind at 1. unfold get_heap. cbn [fst snd heap_of s1]. rewrite P0x. cbn [option_eqb].
    unfold mbind at 1. rewrite (check_loop_ok h0 x1 n ln s1 eq_refl I0 Cn0 Nx Ax).
    unfold mbind at 1. cbn [detach ret fst snd].
    unfold attach, mbind at 1. unfold hook at 1. cbn [cnt s1]. rewrite Hv. reflexivity. }
  assert (B0 : forall x, In x old -> x < length (heap_of s2) /\ x <> n /\ ~ In x (ancestors_of (heap_of s2) n)).
  { intros x Hx. cbn [heap_of s2]. rewrite (ancestors_of_chain _ _ _ I0 Cn0), L0.
    destruct (child_not_ancestor h n ln x I Cn Hx) as [A1 A2]. split; [|split; auto].
    apply (inv_bound_c _ I _ _ Hx). }
  assert (Hn2 : n < length (heap_of s2)) by (cbn [heap_of s2]; rewrite L0; exact Hn).
  assert (ER : set_children typed asrt faults (S fu) n (CList (map VNode old)) s2
               = (Ok tt, st_after s2 (eff_set_children h0 n old) (fst (log_set_children h0 n old)))).
  { transitivity (set_children typed asrt no_faults (S fu) n (CList (map VNode old)) s2).
    - apply (simb_set_children typed asrt faults no_faults (S fu) n (CList (map VNode old)) s2).
      intros i k m Hi. destruct (faults i k m) eqn:F; [|reflexivity]. apply Hf in F. cbn [cnt s2] in Hi. lia.
    - apply (set_children_run typed asrt fu n old s2 I0 Hn2 (inv_nodup _ I n) B0). }
  assert (F0 : faults i0 PreAttachChildren n = false).
  { destruct (faults i0 PreAttachChildren n) eqn:F; [|reflexivity]. apply Hf in F. lia. }
  assert (E : set_children typed asrt faults (S (S fu)) n (CList (map VNode xs)) s
              = (Err (HookExn (S i0)), st_after s2 (eff_set_children h0 n old) (fst (log_set_children h0 n old)))).
  { rewrite set_children_S. unfold mbind at 1. rewrite check_children_ok by (auto; intros x _ []).
    unfold mbind at 1. unfold get_heap. cbn [fst snd]. fold h. cbv zeta. fold old.
    unfold mbind at 1. rewrite ED.
    unfold try_except. unfold mbind at 1. unfold hook at 1.
    assert (C0 : cnt s0 = i0) by reflexivity.
    rewrite C0, F0. cbn [fst snd heap_of log s0 st_after]. fold s0. change (log s ++ l0) with (log s0). fold s1.
    unfold xs. cbn [map for_each]. unfold mbind at 1. unfold mbind at 1.
    cbn [assign_parent_of]. rewrite ESP. cbn [fst snd].
    unfold mbind at 1. rewrite ER. reflexivity. }
  cbv zeta. rewrite E. cbn [fst snd st_after heap_of]. split; [reflexivity|].
  apply restore_children; assumption.
Qed.
End V2.
