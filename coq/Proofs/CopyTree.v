(** C19: under the copier's contract (Proofs/CopyIso.v) the copy is isomorphic
    to the original as a TREE: unfolding the copy below the renamed node gives
    the renamed unfolding of the original - same shape, same child order at
    every depth.  With the naturality lemmas (Proofs/Naturality.v) every
    iterator order of the copy is then the renamed order of the original. *)
Require Import AT.Model.Base AT.Model.Heap AT.Model.Rose AT.Model.Abs AT.Model.Iter AT.Spec.MutSpec AT.Spec.IterSpec.
Require Import AT.Proofs.ListLemmas AT.Proofs.HeapLemmas AT.Proofs.AbsProofs AT.Proofs.CopyIso AT.Proofs.Naturality.

Section IsoTree.
Variables (h h' : heap) (dom : list id) (ren : id -> id).
Hypothesis I : Inv h.
Hypothesis closed_p : forall x p, In x dom -> parent h x = Some p -> In p dom.
Hypothesis closed_c : forall x c, In x dom -> In c (children h x) -> In c dom.
Hypothesis ren_bound : forall x, In x dom -> ren x < length h'.
Hypothesis ren_inj : forall x y, In x dom -> In y dom -> ren x = ren y -> x = y.
Hypothesis ren_onto : forall y, y < length h' -> exists x, In x dom /\ ren x = y.
Hypothesis same_parent : forall x, In x dom -> parent h' (ren x) = option_map ren (parent h x).
Hypothesis same_children : forall x, In x dom -> children h' (ren x) = map ren (children h x).

Let I' : Inv h' := copy_inv h h' dom ren I closed_p closed_c ren_bound ren_inj ren_onto same_parent same_children.

(** with the same fuel the two unfoldings correspond, whatever the fuel *)
Lemma abs_copy : forall fuel x, In x dom -> abs fuel h' (ren x) = map_tree ren (abs fuel h x).
Proof.
  induction fuel as [|fu IH]; intros x Hx; cbn [abs map_tree map]; [reflexivity|].
  f_equal. rewrite same_children by exact Hx. rewrite !map_map.
  apply map_ext_in. intros c Hc. apply IH. eapply closed_c; eauto.
Qed.

(** on a consistent forest any fuel beyond the universe size gives [tree_of] *)
Lemma abs_enough (g : heap) (Ig : Inv g) n f : length g < f -> abs f g n = tree_of g n.
Proof.
  intros L. unfold tree_of, abs_fuel.
  destruct (inv_acyclic _ Ig n) as [l C].
  destruct (chain_length_bound g Ig n l C) as [B|B].
  - apply (abs_stable g Ig (length g - length l) n l); auto; lia.
  - (* empty universe: no children at all *)
    assert (CE : children g n = []).
    { unfold children, get. destruct g; [destruct n; reflexivity|discriminate B]. }
    destruct f as [|f]; [lia|]. cbn [abs]. rewrite CE. reflexivity.
Qed.

Theorem tree_of_copy x : In x dom -> tree_of h' (ren x) = map_tree ren (tree_of h x).
Proof.
  intros Hx. set (f := S (Nat.max (length h) (length h'))).
  rewrite <- (abs_enough h' I' (ren x) f) by (unfold f; lia).
  rewrite <- (abs_enough h I x f) by (unfold f; lia).
  apply abs_copy; exact Hx.
Qed.

(** hence the iteration orders of the copy are the renamed orders of the original *)
Corollary preorder_copy x : In x dom -> preorder (tree_of h' (ren x)) = map ren (preorder (tree_of h x)).
Proof. intros Hx. rewrite tree_of_copy by exact Hx. apply preorder_nat. Qed.
Corollary postorder_copy x : In x dom -> postorder (tree_of h' (ren x)) = map ren (postorder (tree_of h x)).
Proof. intros Hx. rewrite tree_of_copy by exact Hx. apply postorder_nat. Qed.
End IsoTree.
