(** Under the C01 invariant the unfolding [tree_of h n] is the node's subtree:
    fuel never runs out, labels are the node identities, [children] and
    [parent] of the heap are the children / parent positions of the tree. *)
Require Import AT.Model.Base AT.Model.Heap AT.Model.Mutate AT.Model.Rose AT.Model.Abs AT.Model.Nav.
Require Import AT.Spec.MutSpec AT.Proofs.ListLemmas AT.Proofs.HeapLemmas AT.Proofs.NavProofs.

Section A.
Variable h : heap.
Hypothesis I : Inv h.

(** depth of a node = length of its ancestor chain *)
Lemma chain_length_bound n l : chain h n l -> length l < length h \/ length h = 0.
Proof.
  intros C. destruct (chain_nodup _ _ _ C) as [NI ND].
  destruct l as [|p l']; [destruct h; [right; reflexivity|left; simpl; lia]|].
  left. (* n :: p :: l' are distinct nodes below the universe size *)
  assert (NDn : NoDup (n :: p :: l')) by (constructor; auto).
  assert (B : forall y, In y (n :: p :: l') -> y < length h).
  { intros y [<-|Hy]; [|eapply chain_bound; eauto].
    inversion C; subst. match goal with P : parent h n = Some _ |- _ => apply (inv_bound_p _ I _ _ P) end. }
  pose proof (nodup_bounded_length _ _ NDn B). simpl in *. lia.
Qed.

(** with fuel beyond the remaining depth the unfolding does not depend on the fuel *)
Lemma abs_stable : forall k n l f1 f2, chain h n l -> length l + k = length h ->
  k < f1 -> k < f2 -> abs f1 h n = abs f2 h n.
Proof.
  induction k as [|k IH]; intros n l f1 f2 C E H1 H2.
  - (* depth = |h|: impossible unless the universe is empty, where there are no children *)
    destruct (chain_length_bound n l C) as [B|B]; [lia|].
    assert (CE : children h n = []).
    { unfold children, get. destruct h; [destruct n; reflexivity|discriminate B]. }
    destruct f1, f2; cbn [abs]; rewrite ?CE; reflexivity.
  - destruct f1 as [|f1]; [lia|]. destruct f2 as [|f2]; [lia|]. cbn [abs]. f_equal.
    apply map_ext_in. intros c Hc.
    assert (Pc : parent h c = Some n) by (apply (inv_link _ I); auto).
    apply (IH c (n :: l)); try lia; [eapply chain_step; eauto|cbn [length]; lia].
Qed.

(** the unfolding equation, free of fuel *)
Theorem tree_of_unfold n : tree_of h n = T n (map (tree_of h) (children h n)).
Proof.
  unfold tree_of, abs_fuel.
  change (abs (S (length h)) h n) with (T n (map (abs (length h) h) (children h n))).
  f_equal. apply map_ext_in. intros c Hc.
  assert (Pc : parent h c = Some n) by (apply (inv_link _ I); auto).
  destruct (inv_acyclic _ I c) as [lc Cc].
  assert (NE : 0 < length lc) by (inversion Cc; subst; [congruence|simpl; lia]).
  destruct (chain_length_bound c lc Cc) as [B|B].
  - apply (abs_stable (length h - length lc) c lc (length h) (S (length h))); auto; lia.
  - destruct (inv_bound_p _ I _ _ Pc). lia.
Qed.

Lemma label_tree_of n : label (tree_of h n) = n.
Proof. rewrite tree_of_unfold. reflexivity. Qed.
Lemma kids_tree_of n : kids (tree_of h n) = map (tree_of h) (children h n).
Proof. rewrite tree_of_unfold. reflexivity. Qed.

(** the node a position of [tree_of h r] stands for *)
Fixpoint node_at (n : id) (p : pos) : option id :=
  match p with
  | [] => Some n
  | i :: p' => match nth_error (children h n) i with Some c => node_at c p' | None => None end
  end.

(** positions of the tree are exactly the downward paths of the heap, and the
    subtree at a position is the unfolding of the node it stands for *)
Theorem subtree_at_tree_of p : forall n,
  subtree_at (tree_of h n) p = option_map (tree_of h) (node_at n p).
Proof.
  induction p as [|i p IH]; intros n; cbn [subtree_at node_at option_map]; [reflexivity|].
  rewrite kids_tree_of, nth_error_map. destruct (nth_error (children h n) i) as [c|]; cbn [option_map]; [apply IH|reflexivity].
Qed.

(** [node.children] in the tree view = [children] of the heap *)
Theorem children_agree r p m : node_at r p = Some m ->
  map label (kids (sub (tree_of h r) p)) = children h m.
Proof.
  intros E. unfold sub. rewrite subtree_at_tree_of, E. cbn [option_map]. rewrite kids_tree_of, map_map.
  rewrite <- (map_id (children h m)) at 2. apply map_ext. intros c. apply label_tree_of.
Qed.

(** [node.parent] in the tree view (the position without its last index) = [parent] of the heap *)
Theorem parent_agree r p i m : node_at r (p ++ [i]) = Some m ->
  exists q, node_at r p = Some q /\ parent h m = Some q.
Proof.
  revert r. induction p as [|j p IH]; intros r E; cbn [app node_at] in *.
  - destruct (nth_error (children h r) i) as [c|] eqn:N; [|discriminate]. injection E as <-.
    exists r. split; auto. apply (inv_link _ I). eapply nth_error_In; eauto.
  - destruct (nth_error (children h r) j) as [c|]; [|discriminate]. apply IH; auto.
Qed.

Lemma label_at_tree_of r p m : node_at r p = Some m -> label_at (tree_of h r) p = m.
Proof. intros E. unfold label_at, sub. rewrite subtree_at_tree_of, E. cbn [option_map]. apply label_tree_of. Qed.
End A.
