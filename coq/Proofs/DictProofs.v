(** C10 / C11: export and import are inverse to each other. *)
Require Import AT.Model.Base AT.Model.DictIO AT.Spec.DictSpec AT.Proofs.ListLemmas.
Local Open Scope Z_scope.

Section ind.
  Variable P : itree -> Prop.
  Hypothesis H : forall a cs, Forall P cs -> P (I a cs).
  Fixpoint itree_ind' (t : itree) : P t :=
    match t with
    | I a cs => H a cs ((fix go (l : list itree) : Forall P l :=
        match l with [] => Forall_nil _ | x :: r => Forall_cons _ (itree_ind' x) (go r) end) cs)
    end.
End ind.
Section dind.
  Variable P : dtree -> Prop.
  Hypothesis Hnone : forall a, P (D a None).
  Hypothesis Hsome : forall a l, Forall P l -> P (D a (Some l)).
  Fixpoint dtree_ind' (d : dtree) : P d :=
    match d with
    | D a None => Hnone a
    | D a (Some l) => Hsome a l ((fix go (l : list dtree) : Forall P l :=
                        match l with [] => Forall_nil _ | x :: r => Forall_cons _ (dtree_ind' x) (go r) end) l)
    end.
End dind.

Lemma str_eqb_eq a b : str_eqb a b = true <-> a = b.
Proof. apply list_eqb_spec. intros x y. apply N.eqb_eq. Qed.

(** a dictionary built from pairs with distinct keys is those pairs *)
Lemma dict_set_fresh d k v : ~ In k (map fst d) -> dict_set d k v = d ++ [(k, v)].
Proof.
  induction d as [|[k' v'] d IH]; simpl; auto. intros H.
  destruct (str_eqb k' k) eqn:E; [apply str_eqb_eq in E; subst; tauto|]. rewrite IH; auto.
Qed.
Lemma dict_of_nodup l : NoDup (map fst l) -> dict_of l = l.
Proof.
  unfold dict_of.
  assert (G : forall acc, NoDup (map fst (acc ++ l)) -> fold_left (fun d kv => dict_set d (fst kv) (snd kv)) l acc = acc ++ l).
  { induction l as [|[k v] l IH]; intros acc H; simpl; [rewrite app_nil_r; auto|].
    rewrite dict_set_fresh.
    - rewrite IH; rewrite <- app_assoc; auto.
    - rewrite map_app in H. simpl in H. apply NoDup_remove_2 in H. intros Hin. apply H. apply in_or_app. auto. }
  intros H. apply (G []). exact H.
Qed.

(** every node's visible attributes have distinct keys (always true of an
    instance dictionary) *)
Definition clean_items (a : items) : Prop := NoDup (map fst (iter_attr_values a)).
Inductive wf_itree : itree -> Prop :=
| wf_I a cs : clean_items a -> Forall wf_itree cs -> wf_itree (I a cs).

Lemma all_ok_map {A B} (g : A -> result B) (h : A -> B) l :
  Forall (fun x => g x = Ok (h x)) l -> all_ok (map g l) = Ok (map h l).
Proof. induction 1 as [|x l Hx _ IH]; simpl; auto. rewrite Hx, IH. reflexivity. Qed.

Lemma to_dtree_children cs :
  match map (fun c => c) cs with [] => @None (list itree) | _ => Some cs end = match cs with [] => None | _ => Some cs end.
Proof. destruct cs; reflexivity. Qed.

(** DictExporter with default attriter/childiter: the structural map of the
    tree cut at maxlevel; 'children' present iff non-empty; the fuel suffices *)
Fixpoint to_dtree (t : itree) : dtree :=
  match t with I a cs => D a (match cs with [] => None | _ => Some (map to_dtree cs) end) end.

Theorem export_structural ml : forall fuel t level, wf_itree t -> (iheight t < fuel)%nat ->
  export_ (fun l => l) (fun l => l) ml fuel level t = Ok (to_dtree (cut ml level t)).
Proof.
  induction fuel as [|fu IH]; intros t level W H; [lia|].
  destruct t as [a cs]. inversion W as [a' cs' CA WC]; subst. cbn [export_ iattrs ikids cut to_dtree].
  rewrite dict_of_nodup by exact CA.
  destruct (match ml with Some m => level <? m | None => true end).
  - rewrite (all_ok_map _ (fun c => to_dtree (cut ml (level + 1) c))).
    + cbn [bind]. f_equal. f_equal. rewrite map_map. destruct cs; reflexivity.
    + apply Forall_forall. intros c Hc. apply IH.
      * rewrite Forall_forall in WC. auto.
      * cbn [iheight] in H. assert (S (iheight c) <= fold_right (fun c acc => Nat.max (S (iheight c)) acc) 0%nat cs)%nat.
        { clear -Hc. induction cs as [|x cs IHc]; cbn [fold_right In] in *; [tauto|]. destruct Hc as [->|Hc]; [lia|]. specialize (IHc Hc). lia. }
        lia.
  - reflexivity.
Qed.

(** import_(export(t)) is the tree itself, cut at maxlevel, with every node's
    attributes (bookkeeping removed) in their order: same shape, child order
    and attributes *)
Lemma import_to_dtree u : import_ ctor_any (to_dtree u) = u.
Proof.
  induction u as [a cs IH] using itree_ind'. cbn [to_dtree import_]. unfold ctor_any. f_equal.
  destruct cs as [|c cs]; [reflexivity|]. rewrite map_map. rewrite <- (map_id (c :: cs)) at 2.
  apply map_ext_Forall. exact IH.
Qed.

Theorem import_export ml t : wf_itree t ->
  exists d, export (fun l => l) (fun l => l) ml t = Ok d /\ import_ ctor_any d = cut ml 1 t.
Proof.
  intros W. exists (to_dtree (cut ml 1 t)). split; [|apply import_to_dtree].
  unfold export. apply export_structural; auto.
Qed.

(** export(import_(d)) equals d up to empty 'children' lists *)
Inductive wf_dtree : dtree -> Prop :=
| wf_Dn a : NoDup (map fst a) -> (forall k, In k (map fst a) -> is_skipped k = false) -> wf_dtree (D a None)
| wf_Ds a l : NoDup (map fst a) -> (forall k, In k (map fst a) -> is_skipped k = false) ->
    Forall wf_dtree l -> wf_dtree (D a (Some l)).

Lemma filter_all {A} (p : A -> bool) l : (forall x, In x l -> p x = true) -> filter p l = l.
Proof. induction l as [|x l IH]; simpl; auto. intros H. rewrite H by auto. f_equal. apply IH. auto. Qed.

Lemma wf_import d : wf_dtree d -> wf_itree (import_ ctor_any d).
Proof.
  assert (CL : forall a, NoDup (map fst a) -> (forall k, In k (map fst a) -> is_skipped k = false) -> clean_items (ctor_any a)).
  { intros a ND SK. unfold clean_items, ctor_any, iter_attr_values. rewrite filter_all; auto.
    intros [k v] Hin. simpl. rewrite SK; auto. apply in_map_iff. exists (k, v). auto. }
  induction d as [a|a l IH] using dtree_ind'; intros W; inversion W as [a' ND SK|a' l' ND SK WC]; subst; cbn [import_]; constructor; auto.
  apply Forall_forall. intros x Hx. apply in_map_iff in Hx.
  destruct Hx as [y [<- Hy]]. rewrite Forall_forall in IH, WC. apply IH; auto.
Qed.

Lemma cut_none_import d : wf_dtree d -> forall level, to_dtree (cut None level (import_ ctor_any d)) = strip d.
Proof.
  induction d as [a|a l IH] using dtree_ind'; intros W level; inversion W as [a' ND SK|a' l' ND SK WC]; subst;
    cbn [import_ cut to_dtree]; unfold ctor_any, iter_attr_values;
    rewrite filter_all by (intros [k v] Hin; simpl; rewrite SK; auto; apply in_map_iff; exists (k, v); auto).
  - reflexivity.
  - destruct l as [|c l]; [reflexivity|].
    rewrite Forall_forall in IH, WC. rewrite !map_map. cbn [strip map]. f_equal. f_equal. f_equal.
    + apply IH; [simpl; auto|apply WC; simpl; auto].
    + apply map_ext_in. intros x Hx. apply IH; [simpl; auto|apply WC; simpl; auto].
Qed.

Theorem export_import d : wf_dtree d ->
  export (fun l => l) (fun l => l) None (import_ ctor_any d) = Ok (strip d).
Proof.
  intros W. unfold export. rewrite export_structural; [|apply wf_import; auto|lia].
  f_equal. apply cut_none_import. exact W.
Qed.

(** C11: with a codec that round-trips, JSON import after JSON export is dict
    import after dict export (for the maxlevel actually in force) *)
Section Json.
Variable text : Type.
Variable dumps : dtree -> text.
Variable loads : text -> dtree.
Hypothesis codec : forall d, loads (dumps d) = d.

Theorem json_roundtrip eml jml t : wf_itree t ->
  exists s, json_export text dumps (fun l => l) (fun l => l) eml jml t = Ok s /\
            json_import text loads ctor_any s = cut (json_effective_maxlevel eml jml) 1 t.
Proof.
  intros W. destruct (import_export (json_effective_maxlevel eml jml) t W) as [d [E I0]].
  exists (dumps d). unfold json_export, json_import. rewrite E. cbn [bind]. split; [reflexivity|].
  rewrite codec. exact I0.
Qed.
End Json.
