(** without class-level attributes the extended symlink model is the core one *)
Require Import AT.Model.Base AT.Model.Symlink AT.Model.SymlinkX.

Lemma getattr_c_plain fuel : forall s x k, getattr_c no_cls fuel s x k = getattr fuel s x k.
Proof.
  induction fuel as [|fu IH]; intros s x k; cbn [getattr_c getattr]; [reflexivity|].
  unfold no_cls at 1. cbn [dget]. destruct (dget (odict (oget s x)) k); [reflexivity|].
  destruct (okind_of (oget s x)) as [|t]; [reflexivity|]. rewrite IH. reflexivity.
Qed.
Lemma setattr_c_plain fuel : forall s x k v, setattr_c no_cls fuel s x k v = setattr fuel s x k v.
Proof.
  induction fuel as [|fu IH]; intros s x k v; cbn [setattr_c setattr]; [reflexivity|].
  destruct (okind_of (oget s x)) as [|t]; [reflexivity|]. rewrite IH. reflexivity.
Qed.
Lemma set_all_c_plain fuel kw : forall s x, set_all_c no_cls fuel s x kw = set_all fuel s x kw.
Proof.
  induction kw as [|[k v] r IH]; intros s x; cbn [set_all_c set_all]; [reflexivity|].
  rewrite setattr_c_plain. destruct (setattr fuel s x k v); cbn [bind]; [apply IH|reflexivity|reflexivity].
Qed.
Theorem run_aops_c_plain ops : forall s, run_aops_c no_cls s ops = run_aops s ops.
Proof.
  induction ops as [|o r IH]; intros s; cbn [run_aops_c run_aops]; [reflexivity|].
  assert (E : run_aop_c no_cls s o = run_aop s o).
  { destruct o as [x k|x k v|t kw|kw]; cbn [run_aop_c run_aop].
    - rewrite getattr_c_plain. reflexivity.
    - rewrite setattr_c_plain. reflexivity.
    - unfold new_link_c, new_link. rewrite set_all_c_plain. reflexivity.
    - reflexivity. }
  rewrite E. destruct (run_aop s o) as [a s1]. rewrite IH. reflexivity.
Qed.
