(** C18: on tree-node arguments the two mixins' setters are the same function
    ([typed] is consulted only for non-node arguments). *)
Require Import AT.Model.Base AT.Model.Heap AT.Model.Mutate.

Definition meq {A} (m m' : M A) : Prop := forall s, m s = m' s.

Lemma meq_refl {A} (m : M A) : meq m m. Proof. intros s; reflexivity. Qed.
Lemma meq_bind {A B} (m m' : M A) (k k' : A -> M B) :
  meq m m' -> (forall a, meq (k a) (k' a)) -> meq (mbind m k) (mbind m' k').
Proof. intros Hm Hk s. unfold mbind. rewrite Hm. destruct (m' s) as [[a|e|] s']; auto. apply Hk. Qed.
Lemma meq_for_each {A} (l : list A) (b b' : A -> M unit) :
  (forall x, meq (b x) (b' x)) -> meq (for_each l b) (for_each l b').
Proof. intros H. induction l as [|x l IH]; simpl; [apply meq_refl|]. apply meq_bind; auto. Qed.
Lemma meq_try {A} (m m' : M A) (h h' : exn -> M A) :
  meq m m' -> (forall e, meq (h e) (h' e)) -> meq (try_except m h) (try_except m' h').
Proof. intros Hm Hh s. unfold try_except. rewrite Hm. destruct (m' s) as [[a|e|] s']; auto. apply Hh. Qed.

Definition node_value (v : value) : Prop := match v with VOther => False | _ => True end.
Definition all_nodes (xs : list value) : Prop := Forall (fun v => exists c, v = VNode c) xs.

Section L.
Variables (asrt : bool) (faults : nat -> hookkind -> id -> bool).

Lemma set_parent_same n v : node_value v ->
  meq (set_parent true asrt faults n v) (set_parent false asrt faults n v).
Proof. intros H s. destruct v; simpl in H; try contradiction; reflexivity. Qed.

Lemma del_children_same n : meq (del_children true asrt faults n) (del_children false asrt faults n).
Proof.
  unfold del_children. apply meq_bind; [apply meq_refl|]. intros h.
  apply meq_bind; [apply meq_refl|]. intros _.
  apply meq_bind; [|intros _; apply meq_refl].
  apply meq_for_each. intros c. apply set_parent_same. exact I.
Qed.

Lemma check_children_same xs : all_nodes xs -> forall seen,
  meq (check_children true seen xs) (check_children false seen xs).
Proof.
  induction 1 as [|x xs [c ->] _ IH]; intros seen; simpl; [apply meq_refl|].
  destruct (mem seen c); [apply meq_refl|apply IH].
Qed.

Lemma all_nodes_map l : all_nodes (map VNode l).
Proof. apply Forall_forall. intros x Hx. apply in_map_iff in Hx. destruct Hx as [c [<- _]]. eauto. Qed.

Theorem set_children_same fuel : forall n xs, all_nodes xs ->
  meq (set_children true asrt faults fuel n (CList xs)) (set_children false asrt faults fuel n (CList xs)).
Proof.
  induction fuel as [|fu IH]; intros n xs A; simpl; [apply meq_refl|].
  apply meq_bind; [apply check_children_same; auto|]. intros _.
  apply meq_bind; [apply meq_refl|]. intros h.
  apply meq_bind; [apply del_children_same|]. intros _.
  apply meq_try.
  - apply meq_bind; [apply meq_refl|]. intros _.
    apply meq_bind; [|intros _; apply meq_refl].
    apply meq_for_each. intros x. unfold assign_parent_of. destruct x; apply meq_refl.
  - intros e. apply meq_bind; [|intros _; apply meq_refl]. apply IH. apply all_nodes_map.
Qed.

(** calls whose arguments are tree nodes (None allowed as a parent) *)
Definition node_op (o : op) : Prop :=
  match o with
  | SetParent _ v => node_value v
  | SetChildren _ a => match a with CList xs => all_nodes xs | CNotIterable => True end
  | DelChildren _ => True
  | Construct p c => node_value p /\ match c with Some (CList xs) => all_nodes xs | _ => True end
  end.

Theorem run_op_same fuel o : node_op o ->
  meq (run_op true asrt faults fuel o) (run_op false asrt faults fuel o).
Proof.
  destruct o as [n v|n a|n|p c]; simpl; intros H.
  - apply set_parent_same; auto.
  - destruct a as [xs|]; [apply set_children_same; auto|]. destruct fuel; apply meq_refl.
  - apply del_children_same.
  - destruct H as [Hp Hc]. apply meq_bind; [|intros _; apply meq_refl].
    unfold construct. apply meq_bind; [apply meq_refl|]. intros h.
    destruct (alloc h) as [h1 n]. apply meq_bind; [apply meq_refl|]. intros _.
    apply meq_bind; [apply set_parent_same; auto|]. intros _.
    apply meq_bind; [|intros _; apply meq_refl].
    destruct (truthy c); [|apply meq_refl]. destruct c as [[xs|]|]; try apply meq_refl.
    + apply set_children_same; auto.
    + destruct fuel; apply meq_refl.
Qed.
End L.
