(** C19: an isomorphic copy of the object graph reachable from a node of a
    consistent forest is itself a consistent forest.  The hypotheses are the
    clauses of the copier's contract that Corr/C19.v evaluates on every
    observed copy (closed domain, injective renaming onto the copy universe,
    same parent and same ordered children under the renaming). *)
Require Import AT.Model.Base AT.Model.Heap AT.Spec.MutSpec AT.Proofs.ListLemmas AT.Proofs.HeapLemmas.

Section Iso.
Variables (h h' : heap) (dom : list id) (ren : id -> id).
Hypothesis I : Inv h.
(** the copied part is closed under parent and children (it consists of whole trees) *)
Hypothesis closed_p : forall x p, In x dom -> parent h x = Some p -> In p dom.
Hypothesis closed_c : forall x c, In x dom -> In c (children h x) -> In c dom.
(** the renaming is injective on it and onto the copy universe *)
Hypothesis ren_bound : forall x, In x dom -> ren x < length h'.
Hypothesis ren_inj : forall x y, In x dom -> In y dom -> ren x = ren y -> x = y.
Hypothesis ren_onto : forall y, y < length h' -> exists x, In x dom /\ ren x = y.
(** same shape and child order *)
Hypothesis same_parent : forall x, In x dom -> parent h' (ren x) = option_map ren (parent h x).
Hypothesis same_children : forall x, In x dom -> children h' (ren x) = map ren (children h x).

Lemma parent_out' m : length h' <= m -> parent h' m = None.
Proof. intros H. unfold parent, get. rewrite nth_overflow; auto. Qed.
Lemma children_out' m : length h' <= m -> children h' m = [].
Proof. intros H. unfold children, get. rewrite nth_overflow; auto. Qed.

Lemma in_range_p n p : parent h' n = Some p -> n < length h'.
Proof. intros H. destruct (Nat.lt_ge_cases n (length h')) as [L|G]; auto. rewrite parent_out' in H by exact G. discriminate. Qed.
Lemma in_range_c p n : In n (children h' p) -> p < length h'.
Proof. intros H. destruct (Nat.lt_ge_cases p (length h')) as [L|G]; auto. rewrite children_out' in H by exact G. destruct H. Qed.

Theorem copy_inv : Inv h'.
Proof.
  constructor.
  - (* bound_p *)
    intros n p H. pose proof (in_range_p n p H) as Bn. split; [exact Bn|].
    destruct (ren_onto n Bn) as [x [Dx <-]]. rewrite (same_parent x Dx) in H.
    destruct (parent h x) as [px|] eqn:P; [|discriminate H]. cbn in H. injection H as <-.
    apply ren_bound. eapply closed_p; eauto.
  - (* bound_c *)
    intros p n H. pose proof (in_range_c p n H) as Bp. split; [|exact Bp].
    destruct (ren_onto p Bp) as [x [Dx <-]]. rewrite (same_children x Dx) in H.
    apply in_map_iff in H. destruct H as [c [<- Hc]]. apply ren_bound. eapply closed_c; eauto.
  - (* link *)
    intros n p. split.
    + intros H. pose proof (in_range_p n p H) as Bn.
      destruct (ren_onto n Bn) as [x [Dx <-]]. rewrite (same_parent x Dx) in H.
      destruct (parent h x) as [px|] eqn:P; [|discriminate H]. cbn in H. injection H as <-.
      assert (Dpx : In px dom) by (eapply closed_p; eauto).
      rewrite (same_children px Dpx). apply in_map. apply (inv_link _ I). exact P.
    + intros H. pose proof (in_range_c p n H) as Bp.
      destruct (ren_onto p Bp) as [xp [Dp <-]]. rewrite (same_children xp Dp) in H.
      apply in_map_iff in H. destruct H as [c [<- Hc]].
      assert (Dc : In c dom) by (eapply closed_c; eauto).
      rewrite (same_parent c Dc). apply (inv_link _ I) in Hc. rewrite Hc. reflexivity.
  - (* nodup *)
    intros p. destruct (Nat.lt_ge_cases p (length h')) as [Bp|G]; [|rewrite children_out' by exact G; constructor].
    destruct (ren_onto p Bp) as [xp [Dp <-]]. rewrite (same_children xp Dp).
    pose proof (inv_nodup _ I xp) as ND.
    assert (Hd : forall c, In c (children h xp) -> In c dom) by (intros c Hc; eapply closed_c; eauto).
    revert ND Hd. generalize (children h xp). induction l as [|c l IH]; intros ND Hd; cbn [map]; [constructor|].
    inversion ND as [|c' l' Nc ND']; subst. constructor.
    + intros Hin. apply in_map_iff in Hin. destruct Hin as [c2 [E Hc2]].
      apply ren_inj in E; [subst c2; contradiction| |]; apply Hd; [right; exact Hc2|left; reflexivity].
    + apply IH; [exact ND'|]. intros c2 Hc2. apply Hd. right. exact Hc2.
  - (* acyclic *)
    intros n. destruct (Nat.lt_ge_cases n (length h')) as [Bn|G].
    2:{ exists []. constructor. apply parent_out'. exact G. }
    destruct (ren_onto n Bn) as [x [Dx <-]].
    destruct (inv_acyclic _ I x) as [l C]. exists (map ren l).
    induction C as [x Px|x p l Px C IH].
    + constructor. rewrite (same_parent x Dx), Px. reflexivity.
    + cbn [map]. assert (Dp : In p dom) by (eapply closed_p; eauto).
      eapply chain_step; [rewrite (same_parent x Dx), Px; reflexivity|].
      apply IH; [apply ren_bound; exact Dp|exact Dp].
Qed.

(** ... and nothing is shared with the original when the copy universe is
    disjoint by construction: the copy is a separate heap, so mutating one
    never changes the other (the harness checks this on the implementation). *)
End Iso.
