(** C06 for PostOrderIter. *)
Require Import AT.Model.Base AT.Model.Rose AT.Model.Iter AT.Spec.IterSpec AT.Proofs.ListLemmas.
Local Open Scope Z_scope.

Section P.
Variables (f stop : id -> bool).

Lemma abort_below d ml : abort_at_level (d + 1) ml = negb (below d ml).
Proof. destruct ml as [m|]; simpl; auto. destruct (Z.ltb_spec m (d + 1)), (Z.ltb_spec d m); simpl; auto; lia. Qed.

Lemma prune_not_below ml d t : below d ml = false -> prune stop ml d t = [].
Proof. intros B. destruct t as [n cs]. simpl. rewrite B. rewrite orb_true_r. reflexivity. Qed.

Lemma prune_stopped ml d t : stop (label t) = true -> prune stop ml d t = [].
Proof. intros S. destruct t as [n cs]. simpl in *. rewrite S. reflexivity. Qed.

Lemma flat_prune_not_below ml d cs : below d ml = false -> flat_map (prune stop ml d) cs = [].
Proof. intros B. apply flat_map_all_nil. apply Forall_forall. intros t _. apply prune_not_below; auto. Qed.

Lemma post_t_spec ml t : forall d, stop (label t) = false -> below d ml = true ->
  post_t f stop ml (d + 1) t = filter f (flat_map postorder (prune stop ml d t)).
Proof.
  induction t as [n cs IH] using tree_ind'. intros d S B. simpl in S.
  cbn [post_t prune]. rewrite S, B. cbn [orb negb flat_map postorder]. rewrite app_nil_r, filter_app.
  assert (E : (if abort_at_level (d + 1 + 1) ml then []
               else flat_map (fun c => if stop (label c) then [] else post_t f stop ml (d + 1 + 1) c) cs)
              = filter f (flat_map postorder (flat_map (prune stop ml (d + 1)) cs))).
  { rewrite abort_below. destruct (below (d + 1) ml) eqn:B1; cbn [negb].
    + rewrite flat_map_flat_map, filter_flat_map. apply flat_map_ext_Forall.
      eapply Forall_impl; [|exact IH]. intros c Hc. cbv beta.
      destruct (stop (label c)) eqn:Sc.
      * rewrite prune_stopped by auto. reflexivity.
      * apply Hc; auto.
    + rewrite flat_prune_not_below by auto. reflexivity. }
  rewrite E. simpl. destruct (f n); reflexivity.
Qed.

Theorem post_spec ml t : PostOrderIter f stop ml t = spec_post f stop ml t.
Proof.
  unfold PostOrderIter, spec_post, post_next, init_children, get_children.
  change 1 with (0 + 1). rewrite abort_below.
  destruct (below 0 ml) eqn:B; cbn [negb].
  - cbn [filter]. destruct (stop (label t)) eqn:S; cbn [negb flat_map].
    + rewrite prune_stopped by auto. reflexivity.
    + rewrite app_nil_r. apply post_t_spec; auto.
  - rewrite prune_not_below by auto. reflexivity.
Qed.
End P.
