(** C07: Resolver.get = the component-wise fold; relax returns None exactly
    where strict mode raises; the spelled path of a node resolves to it. *)
Require Import AT.Model.Base AT.Model.Rose AT.Model.Nav AT.Model.Resolver AT.Spec.ResolverSpec.
Require Import AT.Generated.Extracted AT.Proofs.ListLemmas AT.Proofs.NavProofs.

Section P.
Variable nm : id -> str.
Variable ic : bool.
Variable sep : str.
Variable t : tree.

Notation getl rx := (get_loop nm ic rx t).
Notation getc rx := (get_child nm ic rx t).

Lemma get_child_relax p name :
  getc true p name = match getc false p name with Ok r => Ok r | Err _ => Ok None | OutOfFuel => OutOfFuel end.
Proof. unfold get_child. destruct (find _ _); reflexivity. Qed.
Lemma get_child_strict p name : (exists c, getc false p name = Ok (Some c)) \/ getc false p name = Err ChildResolverError.
Proof. unfold get_child. destruct (find _ _); eauto. Qed.

(** relax=True returns None exactly where strict mode raises, and never raises *)
Theorem get_loop_relax parts : forall p,
  getl true parts p = match getl false parts p with Ok r => Ok r | Err _ => Ok None | OutOfFuel => OutOfFuel end.
Proof.
  induction parts as [|part rest IH]; intros p; cbn [get_loop]; [reflexivity|].
  destruct (is_lit lit_get_eq part).
  - destruct (parent_pos p); [apply IH|reflexivity].
  - destruct (is_lit lit_get_stay part); [apply IH|].
    rewrite get_child_relax. destruct (get_child_strict p part) as [[c ->]| ->]; cbn [bind]; [apply IH|reflexivity].
Qed.
Theorem get_loop_strict_shape parts : forall p,
  (exists q, getl false parts p = Ok (Some q)) \/ (exists e, getl false parts p = Err e).
Proof.
  induction parts as [|part rest IH]; intros p; cbn [get_loop]; [eauto|].
  destruct (is_lit lit_get_eq part).
  - destruct (parent_pos p); [apply IH|eauto].
  - destruct (is_lit lit_get_stay part); [apply IH|].
    destruct (get_child_strict p part) as [[c ->]| ->]; cbn [bind]; [apply IH|eauto].
Qed.

Lemma start_relax cmp_ p path :
  start_ nm true sep t cmp_ p path
  = match start_ nm false sep t cmp_ p path with Ok r => Ok r | Err OtherError => Err OtherError | Err _ => Ok None | OutOfFuel => OutOfFuel end.
Proof.
  unfold start_. destruct (starts_with sep path); [|reflexivity].
  destruct (tl (split sep path)) as [|first rest]; [reflexivity|].
  destruct first; [reflexivity|]. destruct (cmp_ _ _); reflexivity.
Qed.

(** the literals compared against are the ones the statement names (constants
    regenerated from /repo on this run) *)
Lemma lits_ok : lit_get_eq = [s_dotdot] /\ lit_get_stay = [[]; s_dot].
Proof. split; reflexivity. Qed.

Lemma is_lit_one a s : is_lit [a] s = str_eqb s a.
Proof. unfold is_lit. simpl. apply orb_false_r. Qed.
Lemma is_lit_two a b s : is_lit [a; b] s = str_eqb s a || str_eqb s b.
Proof. unfold is_lit. simpl. rewrite orb_false_r. reflexivity. Qed.

(** strict get follows the path component by component, as the statement words it *)
Theorem get_loop_fold parts : forall p,
  getl false parts p = match follow_spec nm ic t parts p with inl q => Ok (Some q) | inr e => Err e end.
Proof.
  destruct lits_ok as [E1 E2].
  induction parts as [|part rest IH]; intros p; cbn [get_loop follow_spec]; [reflexivity|].
  unfold step_spec. rewrite E1, E2, is_lit_one, is_lit_two.
  destruct (str_eqb part s_dotdot).
  - destruct p as [|i p']; [reflexivity|]. cbn [parent_pos]. apply IH.
  - destruct (str_eqb part [] || str_eqb part s_dot); [apply IH|].
    unfold get_child. fold (eq_name ic).
    change (fun c => cmp ic (name_at nm t c) part) with (fun c => eq_name ic (nm (label_at t c)) part).
    destruct (find _ _); cbn [bind]; [apply IH|reflexivity].
Qed.

(** ---- the spelled path of a node resolves to it ---- *)
Definition plain_name (s : str) : Prop := is_lit lit_get_eq s = false /\ is_lit lit_get_stay s = false.
(** going down from [q] along [pi]: every step's name is an ordinary name that
    no other sibling's name compares equal to *)
Fixpoint path_ok (q pi : pos) : Prop :=
  match pi with
  | [] => True
  | i :: r =>
      i < length (kids (sub t q)) /\ plain_name (name_at nm t (q ++ [i])) /\
      (forall j, j < length (kids (sub t q)) -> j <> i ->
                 cmp ic (name_at nm t (q ++ [j])) (name_at nm t (q ++ [i])) = false) /\
      path_ok (q ++ [i]) r
  end.
Fixpoint down_names (q pi : pos) : list str :=
  match pi with [] => [] | i :: r => name_at nm t (q ++ [i]) :: down_names (q ++ [i]) r end.

Lemma cmp_refl s : cmp ic s s = true.
Proof. unfold cmp. destruct ic; apply list_eqb_spec; auto; intros x y; apply N.eqb_eq. Qed.

Lemma find_unique (g : nat -> bool) q i : forall off k, off <= i -> i < off + k ->
  g i = true -> (forall j, off <= j -> j < off + k -> j <> i -> g j = false) ->
  find (fun c => g (last c 0)) (map (fun j => q ++ [j]) (seq off k)) = Some (q ++ [i]).
Proof.
  intros off k; revert off. induction k as [|k IH]; intros off H1 H2 Gi Gj; [lia|]. simpl. rewrite last_last.
  destruct (Nat.eq_dec off i) as [->|N]; [rewrite Gi; reflexivity|].
  rewrite (Gj off) by lia. apply IH; try lia; auto. intros j A B C. apply Gj; lia.
Qed.

Theorem down_roundtrip pi : forall q, path_ok q pi -> getl false (down_names q pi) q = Ok (Some (q ++ pi)).
Proof.
  induction pi as [|i r IH]; intros q H; cbn [down_names get_loop]; [rewrite app_nil_r; reflexivity|].
  destruct H as [Hi [[P1 P2] [U H]]]. rewrite P1, P2.
  assert (F' : forall l, (forall c, In c l -> exists j, c = q ++ [j]) ->
     find (fun c => cmp ic (name_at nm t c) (name_at nm t (q ++ [i]))) l
     = find (fun c => cmp ic (name_at nm t (q ++ [last c 0])) (name_at nm t (q ++ [i]))) l).
  { induction l as [|c l IHl]; intros Hl; simpl; auto.
    destruct (Hl c (or_introl eq_refl)) as [j ->]. rewrite last_last.
    destruct (cmp ic _ _); auto. apply IHl. intros c' Hc'. apply Hl. simpl; auto. }
  assert (FU : find (fun c => cmp ic (name_at nm t c) (name_at nm t (q ++ [i])))
                    (map (fun j => q ++ [j]) (seq 0 (length (kids (sub t q))))) = Some (q ++ [i])).
  { rewrite F'.
    - apply (find_unique (fun j => cmp ic (name_at nm t (q ++ [j])) (name_at nm t (q ++ [i]))) q i 0 (length (kids (sub t q)))).
      + lia.
      + lia.
      + apply cmp_refl.
      + intros j _ A B. apply U; auto.
    - intros c Hc. apply in_map_iff in Hc. destruct Hc as [j [<- _]]. eauto. }
  unfold get_child, children_pos. rewrite FU. cbn [bind].
  rewrite IH by auto. rewrite <- app_assoc. reflexivity.
Qed.

(** climbing: k components '..' from a node at depth >= k reach its k-th ancestor *)
Theorem up_steps k : forall q rest, k <= length q ->
  getl false (repeat s_dotdot k ++ rest) q = getl false rest (firstn (length q - k) q).
Proof.
  destruct lits_ok as [E1 _].
  induction k as [|k IH]; intros q rest H; cbn [repeat app].
  - rewrite Nat.sub_0_r, firstn_all. reflexivity.
  - cbn [get_loop]. rewrite E1, is_lit_one.
    assert (R : str_eqb s_dotdot s_dotdot = true) by reflexivity. rewrite R.
    destruct (snoc_case q) as [->|[q' [i ->]]]; [simpl in H; lia|].
    rewrite parent_pos_snoc. rewrite IH by (rewrite app_length in H; simpl in H; lia).
    rewrite app_length. simpl. f_equal.
    replace (length q' + 1 - S k) with (length q' - k) by lia.
    rewrite firstn_app. replace (length q' - k - length q') with 0 by lia. simpl. rewrite app_nil_r. reflexivity.
Qed.

(** relative round trip: from m = c ++ u to n = c ++ d by |u| times '..' and then the names down to n *)
Theorem rel_roundtrip c u d : path_ok c d ->
  getl false (repeat s_dotdot (length u) ++ down_names c d) (c ++ u) = Ok (Some (c ++ d)).
Proof.
  intros H. rewrite up_steps by (rewrite app_length; lia).
  rewrite app_length. replace (length c + length u - length u) with (length c) by lia.
  rewrite firstn_app, firstn_all, Nat.sub_diag. simpl. rewrite app_nil_r. apply down_roundtrip. exact H.
Qed.
End P.
