(** C07: splitting the joined text at the separator gives the components back
    unless the path syntax collides with them. *)
Require Import AT.Model.Base AT.Model.Rose AT.Model.Nav AT.Model.Resolver AT.Model.Render.
Require Import AT.Proofs.ListLemmas.

Lemma starts_with_app sep rest : starts_with sep (sep ++ rest) = true.
Proof. induction sep as [|c sep IH]; simpl; auto. rewrite N.eqb_refl. exact IH. Qed.
Lemma skipn_app_exact {A} (a b : list A) : skipn (length a) (a ++ b) = b.
Proof. induction a; simpl; auto. Qed.

(** no occurrence of the separator starts inside [x] when [x] is followed by [next] *)
Definition no_early (sep x next : str) : Prop :=
  forall k, k < length x -> starts_with sep (skipn k (x ++ next)) = false.

Lemma no_early_tail sep c x next : no_early sep (c :: x) next -> no_early sep x next.
Proof. intros H k Hk. apply (H (S k)). simpl. lia. Qed.

(** scanning over a component without an early match only accumulates it *)
Lemma split_aux_scan sep : forall x cur next fuel, no_early sep x next -> length x < fuel ->
  split_aux fuel sep cur (x ++ next) = split_aux (fuel - length x) sep (rev x ++ cur) next.
Proof.
  induction x as [|c x IH]; intros cur next fuel NE Hf.
  - simpl. rewrite Nat.sub_0_r. reflexivity.
  - destruct fuel as [|fu]; [simpl in Hf; lia|]. cbn [app split_aux].
    pose proof (NE 0 ltac:(simpl; lia)) as E0. cbn [skipn app] in E0. rewrite E0.
    rewrite (IH (c :: cur) next fu (no_early_tail _ _ _ _ NE)) by (simpl in Hf; lia).
    cbn [length rev]. rewrite <- app_assoc. reflexivity.
Qed.

Fixpoint clean (sep : str) (parts : list str) : Prop :=
  match parts with
  | [] => True
  | x :: r => match r with
              | [] => no_early sep x []
              | _ => no_early sep x (sep ++ join sep r) /\ clean sep r
              end
  end.

Lemma join_cons sep x y r : join sep (x :: y :: r) = x ++ sep ++ join sep (y :: r).
Proof. reflexivity. Qed.

Theorem split_aux_join sep : sep <> [] -> forall parts cur fuel, parts <> [] -> clean sep parts ->
  length (join sep parts) < fuel ->
  split_aux fuel sep cur (join sep parts) =
  match parts with [] => [] | x :: r => (rev cur ++ x) :: r end.
Proof.
  intros NS. induction parts as [|x r IH]; intros cur fuel NE C Hf; [congruence|].
  destruct r as [|y r'].
  - cbn [join clean] in *. rewrite <- (app_nil_r x) at 1.
    rewrite split_aux_scan by (auto; lia).
    destruct (fuel - length x) as [|f'] eqn:EF; [lia|]. cbn [split_aux].
    rewrite rev_app_distr, rev_involutive. reflexivity.
  - rewrite join_cons in *. destruct C as [C1 C2].
    rewrite split_aux_scan by (auto; rewrite app_length in Hf; lia).
    rewrite app_length in Hf. rewrite app_length in Hf.
    destruct (fuel - length x) as [|f'] eqn:EF; [lia|].
    assert (NEs : exists c0 s0, sep = c0 :: s0) by (destruct sep; [congruence|eauto]).
    destruct NEs as [c0 [s0 Es]].
    assert (SW : starts_with sep (sep ++ join sep (y :: r')) = true) by apply starts_with_app.
    cbn [split_aux]. rewrite Es in *. cbn [app] in *.
    change (starts_with (c0 :: s0) (c0 :: s0 ++ join (c0 :: s0) (y :: r'))) with
      (starts_with (c0 :: s0) ((c0 :: s0) ++ join (c0 :: s0) (y :: r'))) in *.
    rewrite SW.
    change (c0 :: s0 ++ join (c0 :: s0) (y :: r')) with ((c0 :: s0) ++ join (c0 :: s0) (y :: r')).
    rewrite skipn_app_exact. rewrite rev_app_distr, rev_involutive.
    rewrite (IH [] f') by (try discriminate; auto; cbn [length] in Hf; lia).
    reflexivity.
Qed.

Theorem split_join sep parts : sep <> [] -> parts <> [] -> clean sep parts -> split sep (join sep parts) = parts.
Proof.
  intros NS NE C. unfold split. rewrite split_aux_join by (auto; lia). destruct parts; [congruence|reflexivity].
Qed.

(** ---- the absolute path of a node resolves to it, at the level of the text ---- *)
Require Import AT.Spec.ResolverSpec AT.Proofs.ResolverProofs.

Theorem abs_roundtrip nm ic sep t m pi :
  sep <> [] -> name_at nm t [] <> [] ->
  clean sep (name_at nm t [] :: down_names nm t [] pi) ->
  path_ok nm ic t [] pi ->
  get nm ic false sep t m (sep ++ join sep (name_at nm t [] :: down_names nm t [] pi)) = Ok (Some pi).
Proof.
  intros NS NR C PO. unfold get, start_.
  set (parts := name_at nm t [] :: down_names nm t [] pi).
  assert (J : sep ++ join sep parts = join sep ([] :: parts)) by reflexivity.
  rewrite J. rewrite <- J at 1. rewrite starts_with_app.
  rewrite (split_join sep ([] :: parts)); [|auto|discriminate|].
  2:{ cbn [clean]. split; [intros k Hk; simpl in Hk; lia|exact C]. }
  cbn [tl]. unfold parts at 1.
  destruct (name_at nm t []) as [|c0 r0] eqn:RN; [congruence|].
  rewrite <- RN. rewrite (cmp_refl ic). cbn [bind].
  rewrite (down_roundtrip nm ic t pi [] PO). reflexivity.
Qed.
