(** C06, "in the order of its unrestricted traversal": each order of the
    pruned tree is a subsequence of the same order of the whole tree, and with
    distinct node identities a subsequence is the filter by membership. *)
Require Import AT.Model.Base AT.Model.Rose AT.Spec.IterSpec AT.Proofs.ListLemmas AT.Proofs.IterLevel AT.Proofs.IterC05.
From Coq Require Import Permutation.

Inductive Subseq {A} : list A -> list A -> Prop :=
| sub_nil l : Subseq [] l
| sub_skip a x l : Subseq a l -> Subseq a (x :: l)
| sub_take a x l : Subseq a l -> Subseq (x :: a) (x :: l).

Lemma Subseq_refl {A} (l : list A) : Subseq l l.
Proof. induction l; [apply sub_nil|apply sub_take; auto]. Qed.
Lemma Subseq_app {A} (a1 l1 : list A) : Subseq a1 l1 -> forall a2 l2, Subseq a2 l2 -> Subseq (a1 ++ a2) (l1 ++ l2).
Proof.
  induction 1 as [l|a x l S IH|a x l S IH]; intros a2 l2 S2; simpl.
  - induction l as [|y l IHl]; simpl; auto. apply sub_skip. exact IHl.
  - apply sub_skip. apply IH; auto.
  - apply sub_take. apply IH; auto.
Qed.
Lemma Subseq_app_r {A} (a l2 : list A) : forall l1, Subseq a l2 -> Subseq a (l1 ++ l2).
Proof. induction l1; simpl; auto. intros. apply sub_skip. auto. Qed.
Lemma Subseq_app_l {A} (a l1 : list A) : Subseq a l1 -> forall l2, Subseq a (l1 ++ l2).
Proof. intros S l2. rewrite <- (app_nil_r a). apply Subseq_app; auto. apply sub_nil. Qed.
Lemma Subseq_flat_map {A B} (g h : A -> list B) l :
  Forall (fun x => Subseq (g x) (h x)) l -> Subseq (flat_map g l) (flat_map h l).
Proof. induction 1; simpl; [apply sub_nil|]. apply Subseq_app; auto. Qed.
Lemma Subseq_In {A} (a l : list A) x : Subseq a l -> In x a -> In x l.
Proof. induction 1 as [l|a y l S IH|a y l S IH]; simpl; intros Hx; auto; [destruct Hx|destruct Hx as [->|Hx]; auto]. Qed.

(** a subsequence of a duplicate-free list is that list filtered by membership *)
Lemma Subseq_filter (a l : list id) : Subseq a l -> NoDup l -> a = filter (mem a) l.
Proof.
  induction 1 as [l|a x l S IH|a x l S IH]; intros ND.
  - clear ND. induction l as [|y l IHl]; [reflexivity|]. cbn [filter]. unfold mem at 1. cbn [existsb]. exact IHl.
  - apply NoDup_cons_iff in ND. destruct ND as [Nx ND]. simpl.
    destruct (mem a x) eqn:M; [apply mem_In in M; exfalso; apply Nx; eapply Subseq_In; eauto|]. apply IH; auto.
  - apply NoDup_cons_iff in ND. destruct ND as [Nx ND]. simpl. unfold mem at 1. simpl. rewrite Nat.eqb_refl. simpl. f_equal.
    rewrite (IH ND) at 1. apply filter_ext_in. intros y Hy. unfold mem. simpl.
    destruct (Nat.eqb_spec y x) as [->|]; [contradiction|reflexivity].
Qed.

Section O.
Variables (stop : id -> bool) (ml : option Z).

Lemma prune_pre_subseq t : forall d, Subseq (flat_map preorder (prune stop ml d t)) (preorder t).
Proof.
  induction t as [n cs IH] using tree_ind'. intros d. cbn [prune].
  destruct (stop n || negb (below d ml)); [apply sub_nil|].
  cbn [flat_map preorder]. rewrite app_nil_r. apply sub_take.
  rewrite flat_map_flat_map. apply Subseq_flat_map. eapply Forall_impl; [|exact IH]. intros c Hc. apply Hc.
Qed.
Lemma prune_post_subseq t : forall d, Subseq (flat_map postorder (prune stop ml d t)) (postorder t).
Proof.
  induction t as [n cs IH] using tree_ind'. intros d. cbn [prune].
  destruct (stop n || negb (below d ml)); [apply sub_nil|].
  cbn [flat_map postorder]. rewrite app_nil_r. apply Subseq_app; [|apply Subseq_refl].
  rewrite flat_map_flat_map. apply Subseq_flat_map. eapply Forall_impl; [|exact IH]. intros c Hc. apply Hc.
Qed.

(** level-wise subsequence *)
Inductive LSub : list (list id) -> list (list id) -> Prop :=
| lsub_nil b : LSub [] b
| lsub_cons x a y b : Subseq x y -> LSub a b -> LSub (x :: a) (y :: b).

Lemma LSub_refl a : LSub a a.
Proof. induction a; constructor; auto. apply Subseq_refl. Qed.
Lemma LSub_zip_r a b2 : LSub a b2 -> forall b1, LSub a (zip_app b1 b2).
Proof.
  induction 1 as [b|x a y b S L IH]; intros b1; [constructor|].
  destruct b1 as [|z b1]; simpl; [constructor; auto|]. constructor; [apply Subseq_app_r; auto|apply IH].
Qed.
Lemma LSub_zip_l a b1 : LSub a b1 -> forall b2, LSub a (zip_app b1 b2).
Proof.
  induction 1 as [b|x a y b S L IH]; intros b2; [constructor|].
  destruct b2 as [|z b2]; simpl; [constructor; auto|]. constructor; [apply Subseq_app_l; auto|apply IH].
Qed.
Lemma LSub_zip a1 b1 : LSub a1 b1 -> forall a2 b2, LSub a2 b2 -> LSub (zip_app a1 a2) (zip_app b1 b2).
Proof.
  induction 1 as [b|x a y b S L IH]; intros a2 b2 L2.
  - simpl. apply LSub_zip_r. exact L2.
  - destruct L2 as [b2|x2 a2 y2 b2 S2 L2].
    + rewrite zip_app_nil_r. apply LSub_zip_l. constructor; auto.
    + simpl. constructor; [apply Subseq_app; auto|apply IH; auto].
Qed.

Lemma levels_forest_lsub (g : tree -> list tree) cs :
  Forall (fun c => LSub (levels_forest (g c)) (levels c)) cs ->
  LSub (levels_forest (flat_map g cs)) (levels_forest cs).
Proof.
  induction 1 as [|c cs Hc _ IH]; [constructor|]. cbn [flat_map]. rewrite levels_forest_app.
  change (levels_forest (c :: cs)) with (zip_app (levels c) (levels_forest cs)). apply LSub_zip; auto.
Qed.

Lemma prune_levels_lsub t : forall d, LSub (levels_forest (prune stop ml d t)) (levels t).
Proof.
  induction t as [n cs IH] using tree_ind'. intros d. cbn [prune].
  destruct (stop n || negb (below d ml)); [constructor|].
  unfold levels_forest at 1. cbn [fold_right levels]. rewrite zip_app_nil_r.
  constructor; [apply Subseq_refl|]. fold (levels_forest (flat_map (prune stop ml (d + 1)) cs)). fold (levels_forest cs).
  apply levels_forest_lsub. eapply Forall_impl; [|exact IH]. intros c Hc. apply Hc.
Qed.

Lemma LSub_concat a b : LSub a b -> Subseq (concat a) (concat b).
Proof. induction 1; simpl; [apply sub_nil|]. apply Subseq_app; auto. Qed.
End O.

(** with distinct node identities: every iterator yields the admitted nodes
    that pass filter_, in the order of ITS unrestricted traversal *)
Section Final.
Variables (f stop : id -> bool) (ml : option Z).
Definition admitted (t : tree) : list id := flat_map preorder (prune stop ml 0 t).

Lemma perm_mem (a b : list id) : (forall x, In x a <-> In x b) -> forall x, mem a x = mem b x.
Proof.
  intros H x. destruct (mem a x) eqn:A, (mem b x) eqn:B; auto.
  - apply mem_In in A. apply H in A. apply mem_In in A. congruence.
  - apply mem_In in B. apply H in B. apply mem_In in B. congruence.
Qed.

Lemma filter_mem_ext (a b l : list id) : (forall x, In x a <-> In x b) -> filter (mem a) l = filter (mem b) l.
Proof. intros H. apply filter_ext. intros x. apply perm_mem. exact H. Qed.

Theorem order_pre t : NoDup (preorder t) ->
  flat_map preorder (prune stop ml 0 t) = filter (mem (admitted t)) (preorder t).
Proof. intros ND. apply Subseq_filter; auto. apply prune_pre_subseq. Qed.

Theorem order_post t : NoDup (preorder t) ->
  flat_map postorder (prune stop ml 0 t) = filter (mem (admitted t)) (postorder t).
Proof.
  intros ND.
  assert (NDp : NoDup (postorder t)) by (eapply Permutation_NoDup; [apply Permutation_sym, perm_post|auto]).
  rewrite (Subseq_filter _ _ (prune_post_subseq stop ml t 0) NDp) at 1.
  apply filter_mem_ext. intros x.
  assert (P : Permutation (flat_map postorder (prune stop ml 0 t)) (admitted t)).
  { unfold admitted. apply perm_flat_map. apply Forall_forall. intros y _. apply perm_post. }
  split; intros H; [eapply Permutation_in; eauto|eapply Permutation_in; [apply Permutation_sym; eauto|auto]].
Qed.

Theorem order_level t : NoDup (preorder t) ->
  concat (levels_forest (prune stop ml 0 t)) = filter (mem (admitted t)) (levelorder t).
Proof.
  intros ND.
  assert (NDl : NoDup (levelorder t)) by (eapply Permutation_NoDup; [apply Permutation_sym, perm_level|auto]).
  assert (S : Subseq (concat (levels_forest (prune stop ml 0 t))) (levelorder t)).
  { unfold levelorder. apply LSub_concat. apply prune_levels_lsub. }
  rewrite (Subseq_filter _ _ S NDl) at 1.
  apply filter_mem_ext. intros x.
  assert (P : Permutation (concat (levels_forest (prune stop ml 0 t))) (admitted t)).
  { unfold admitted. apply perm_levels_forest. apply Forall_forall. intros y _. apply perm_level. }
  split; intros H; [eapply Permutation_in; eauto|eapply Permutation_in; [apply Permutation_sym; eauto|auto]].
Qed.
End Final.
