(** C17: the structural functions are natural in the node labels - they never
    compare, hash or test nodes.  For ANY relabelling g of the nodes (injective
    or not: two distinct nodes may get the same label, "compare equal"), the
    result on the relabelled tree is the relabelled result.  Positions (the
    identities of the nodes) do not depend on the labels at all. *)
Require Import AT.Model.Base AT.Model.Rose AT.Model.Nav AT.Model.Resolver AT.Model.Iter AT.Spec.IterSpec.
Require Import AT.Proofs.ListLemmas AT.Proofs.IterPre AT.Proofs.IterPost AT.Proofs.IterLevel.
Local Open Scope Z_scope.

Fixpoint map_tree (g : id -> id) (t : tree) : tree :=
  match t with T n cs => T (g n) (map (map_tree g) cs) end.

Section N.
Variable g : id -> id.

Lemma flat_map_map_tree {B} (F G : tree -> list B) (h : list B -> list B) cs :
  Forall (fun c => F (map_tree g c) = G c) cs -> flat_map F (map (map_tree g) cs) = flat_map G cs.
Proof. induction 1 as [|c cs Hc _ IH]; cbn; [reflexivity|]. rewrite Hc, IH. reflexivity. Qed.

Lemma preorder_nat t : preorder (map_tree g t) = map g (preorder t).
Proof.
  induction t as [n cs IH] using tree_ind'. cbn [map_tree preorder map]. f_equal.
  induction IH as [|c cs Hc _ IHcs]; cbn; [reflexivity|]. rewrite map_app, Hc, IHcs. reflexivity.
Qed.
Lemma postorder_nat t : postorder (map_tree g t) = map g (postorder t).
Proof.
  induction t as [n cs IH] using tree_ind'. cbn [map_tree postorder]. rewrite map_app. cbn [map]. f_equal.
  induction IH as [|c cs Hc _ IHcs]; cbn; [reflexivity|]. rewrite map_app, Hc, IHcs. reflexivity.
Qed.
Lemma zip_app_nat a : forall b, zip_app (map (map g) a) (map (map g) b) = map (map g) (zip_app a b).
Proof.
  induction a as [|x a IH]; intros [|y b]; cbn; try reflexivity. rewrite map_app, IH. reflexivity.
Qed.
Lemma levels_nat t : levels (map_tree g t) = map (map g) (levels t).
Proof.
  induction t as [n cs IH] using tree_ind'. cbn [map_tree levels map]. f_equal.
  induction IH as [|c cs Hc _ IHcs]; cbn; [reflexivity|]. rewrite Hc, IHcs. apply zip_app_nat.
Qed.
Lemma levels_forest_nat ts : levels_forest (map (map_tree g) ts) = map (map g) (levels_forest ts).
Proof.
  unfold levels_forest. induction ts as [|c ts IH]; cbn; [reflexivity|]. rewrite levels_nat, IH. apply zip_app_nat.
Qed.

(** restriction by stop / maxlevel: predicates see the labels through g *)
Lemma prune_nat (stop : id -> bool) ml t : forall d,
  prune stop ml d (map_tree g t) = map (map_tree g) (prune (fun n => stop (g n)) ml d t).
Proof.
  induction t as [n cs IH] using tree_ind'. intros d. cbn [map_tree prune].
  destruct (stop (g n) || negb (below d ml)); [reflexivity|]. cbn [map map_tree]. f_equal. f_equal.
  induction IH as [|c cs Hc _ IHcs]; cbn [map flat_map]; [reflexivity|]. rewrite map_app, Hc, IHcs. reflexivity.
Qed.
Lemma filter_map_nat (f : id -> bool) l : filter f (map g l) = map g (filter (fun n => f (g n)) l).
Proof. induction l as [|x l IH]; cbn; [reflexivity|]. destruct (f (g x)); cbn; rewrite IH; reflexivity. Qed.
Lemma flat_map_pre_nat ts : flat_map preorder (map (map_tree g) ts) = map g (flat_map preorder ts).
Proof. induction ts as [|c ts IH]; cbn; [reflexivity|]. rewrite map_app, preorder_nat, IH. reflexivity. Qed.
Lemma flat_map_post_nat ts : flat_map postorder (map (map_tree g) ts) = map g (flat_map postorder ts).
Proof. induction ts as [|c ts IH]; cbn; [reflexivity|]. rewrite map_app, postorder_nat, IH. reflexivity. Qed.

(** the five iterators (the transcriptions of the code, via their C06 theorems) *)
Theorem pre_iter_natural f stop ml t :
  PreOrderIter f stop ml (map_tree g t) = map g (PreOrderIter (fun n => f (g n)) (fun n => stop (g n)) ml t).
Proof. rewrite !pre_spec. unfold spec_pre. rewrite prune_nat, flat_map_pre_nat. apply filter_map_nat. Qed.
Theorem post_iter_natural f stop ml t :
  PostOrderIter f stop ml (map_tree g t) = map g (PostOrderIter (fun n => f (g n)) (fun n => stop (g n)) ml t).
Proof. rewrite !post_spec. unfold spec_post. rewrite prune_nat, flat_map_post_nat. apply filter_map_nat. Qed.
Lemma groups_nat f stop ml t :
  map (filter f) (levels_forest (prune stop ml 0 (map_tree g t)))
  = map (map g) (map (filter (fun n => f (g n))) (levels_forest (prune (fun n => stop (g n)) ml 0 t))).
Proof.
  rewrite prune_nat, levels_forest_nat, !map_map. apply map_ext. intros l. apply filter_map_nat.
Qed.
Theorem group_iter_natural f stop ml t :
  LevelOrderGroupIter f stop ml (map_tree g t)
  = match LevelOrderGroupIter (fun n => f (g n)) (fun n => stop (g n)) ml t with
    | Ok gs => Ok (map (map g) gs) | Err e => Err e | OutOfFuel => OutOfFuel end.
Proof. rewrite !group_spec. unfold spec_groups. rewrite groups_nat. reflexivity. Qed.
Theorem level_iter_natural f stop ml t :
  LevelOrderIter f stop ml (map_tree g t)
  = match LevelOrderIter (fun n => f (g n)) (fun n => stop (g n)) ml t with
    | Ok l => Ok (map g l) | Err e => Err e | OutOfFuel => OutOfFuel end.
Proof. rewrite !level_spec. unfold spec_level, spec_groups. rewrite groups_nat, concat_map. reflexivity. Qed.
Lemma zigzag_nat gs : forall odd, zigzag_spec odd (map (map g) gs) = map (map g) (zigzag_spec odd gs).
Proof.
  induction gs as [|x gs IH]; intros odd; cbn; [reflexivity|]. rewrite IH. destruct odd; [rewrite map_rev|]; reflexivity.
Qed.
Theorem zigzag_iter_natural f stop ml t :
  ZigZagGroupIter f stop ml (map_tree g t)
  = match ZigZagGroupIter (fun n => f (g n)) (fun n => stop (g n)) ml t with
    | Ok gs => Ok (map (map g) gs) | Err e => Err e | OutOfFuel => OutOfFuel end.
Proof. rewrite !zigzag_spec_thm. unfold spec_zigzag, spec_groups. rewrite groups_nat, zigzag_nat. reflexivity. Qed.

(** positions - the identities of the nodes - do not depend on the labels *)
Lemma subtree_at_nat p : forall t, subtree_at (map_tree g t) p = option_map (map_tree g) (subtree_at t p).
Proof.
  induction p as [|i p IH]; intros [n cs]; cbn [subtree_at map_tree kids]; [reflexivity|].
  rewrite nth_error_map. destruct (nth_error cs i) as [c|]; cbn; [apply IH|reflexivity].
Qed.
Theorem children_pos_label_free t p : children_pos (map_tree g t) p = children_pos t p.
Proof.
  unfold children_pos, sub. rewrite subtree_at_nat. destruct (subtree_at t p) as [[n cs]|]; cbn; [|reflexivity].
  rewrite map_length. reflexivity.
Qed.
Theorem label_at_natural t p : subtree_at t p <> None -> label_at (map_tree g t) p = g (label_at t p).
Proof.
  unfold label_at, sub. rewrite subtree_at_nat. destruct (subtree_at t p) as [[n cs]|]; [reflexivity|congruence].
Qed.
Lemma pre_positions_t_nat s : forall p, pre_positions_t (map_tree g s) p = pre_positions_t s p.
Proof.
  induction s as [n cs IH] using tree_ind'. intros p. cbn [map_tree pre_positions_t]. f_equal.
  generalize 0%nat. induction IH as [|c cs Hc _ IHcs]; intros i; cbn [map]; [reflexivity|]. rewrite Hc, IHcs. reflexivity.
Qed.
Theorem pre_positions_label_free t p : pre_positions (map_tree g t) p = pre_positions t p.
Proof.
  unfold pre_positions, sub. rewrite subtree_at_nat. destruct (subtree_at t p) as [s|]; cbn; [apply pre_positions_t_nat|reflexivity].
Qed.
End N.

(** ---- navigation attributes ---- *)
Require Import AT.Spec.NavSpec AT.Proofs.NavProofs.
Section NavNat.
Variable g : id -> id.

Lemma tl_map {A B} (f : A -> B) l : tl (map f l) = map f (tl l).
Proof. destruct l; reflexivity. Qed.

Theorem descendants_natural s : descendants (map_tree g s) = map g (descendants s).
Proof. rewrite !descendants_ok. unfold descendants_spec. rewrite preorder_nat. apply tl_map. Qed.

Lemma leaves_spec_nat s : leaves_spec (map_tree g s) = map g (leaves_spec s).
Proof.
  induction s as [n cs IH] using tree_ind'. destruct cs as [|c cs]; [reflexivity|].
  cbn [map_tree map leaves_spec]. inversion IH as [|c0 cs0 Hc Hcs]; subst.
  cbn [flat_map]. rewrite map_app, Hc. f_equal.
  clear IH Hc. induction Hcs as [|d ds Hd _ IHd]; cbn; [reflexivity|]. rewrite map_app, Hd, IHd. reflexivity.
Qed.
Theorem leaves_natural s : leaves (map_tree g s) = map g (leaves s).
Proof. rewrite !leaves_ok. apply leaves_spec_nat. Qed.

Lemma theight_nat s : theight (map_tree g s) = theight s.
Proof.
  induction s as [n cs IH] using tree_ind'. cbn [map_tree theight].
  induction IH as [|c cs Hc _ IHcs]; cbn [map fold_right]; [reflexivity|]. rewrite Hc, IHcs. reflexivity.
Qed.
Theorem height_natural s : height (map_tree g s) = height s.
Proof. rewrite !height_ok. unfold height_spec. apply theight_nat. Qed.

Lemma valid_prefix t p : forall r, subtree_at t (p ++ r) <> None -> subtree_at t p <> None.
Proof. intros r H E. apply H. rewrite subtree_at_app, E. reflexivity. Qed.
Lemma prefixes_are_prefixes p : forall q, In q (prefixes p) -> exists r, p = q ++ r.
Proof.
  induction p as [|i p IH] using rev_ind; intros q H.
  - cbn in H. destruct H as [<-|[]]. exists []. reflexivity.
  - rewrite prefixes_snoc in H. apply in_app_or in H. destruct H as [H|[<-|[]]].
    + destruct (IH q H) as [r ->]. exists (r ++ [i]). rewrite app_assoc. reflexivity.
    + exists []. rewrite app_nil_r. reflexivity.
Qed.
Theorem path_natural t p : valid t p ->
  path (map_tree g t) p = match path t p with Ok l => Ok (map g l) | Err e => Err e | OutOfFuel => OutOfFuel end.
Proof.
  intros V. rewrite !path_ok. unfold path_spec. rewrite map_map. f_equal. apply map_ext_in. intros q Hq.
  apply label_at_natural. destruct (prefixes_are_prefixes p q Hq) as [r E]. apply (valid_prefix t q r). rewrite <- E. exact V.
Qed.
End NavNat.
