(** Children setter / deleter: what is atomic, and the refutations of full
    atomicity (the known-finding classes), by computation on witnesses. *)
Require Import AT.Model.Base AT.Model.Heap AT.Model.Mutate AT.Spec.MutSpec.
Require Import AT.Proofs.ListLemmas AT.Proofs.HeapLemmas AT.Proofs.MutInv AT.Proofs.MutHistory AT.Proofs.MutParent.

Lemma check_children_state typed : forall xs seen s, snd (check_children typed seen xs s) = s.
Proof.
  induction xs as [|x xs IH]; intros seen s; simpl; [reflexivity|].
  destruct x as [|c|]; try (destruct typed; [reflexivity|apply IH]).
  destruct (mem seen c); [reflexivity|apply IH].
Qed.

Theorem set_children_validation typed asrt faults fu n a s e :
  (a = CNotIterable /\ e = TypeError) \/
  (exists xs, a = CList xs /\ fst (check_children typed [] xs s) = Err e) ->
  set_children typed asrt faults (S fu) n a s = (Err e, s).
Proof.
  intros [[-> ->]|[xs [-> H]]]; [reflexivity|].
  cbn [set_children]. unfold mbind at 1.
  pose proof (check_children_state typed xs [] s) as S1.
  destruct (check_children typed [] xs s) as [[[]|e'|] s1]; cbn [fst snd] in *; subst s1; try discriminate H.
  injection H as ->. reflexivity.
Qed.

Theorem del_children_first_hook typed asrt faults n s :
  faults (cnt s) PreDetachChildren n = true ->
  fst (del_children typed asrt faults n s) = Err (HookExn (cnt s)) /\
  heap_of (snd (del_children typed asrt faults n s)) = heap_of s.
Proof.
  intros F. unfold del_children, mbind, get_heap, hook. cbn [fst snd heap_of cnt]. rewrite F. split; reflexivity.
Qed.

(** ---- witnesses ---- *)
Definition mkh (l : list (option id * list id)) : heap :=
  map (fun c => {| cparent := fst c; cchildren := snd c |}) l.
Definition fault_at (k : nat) : nat -> hookkind -> id -> bool := fun i _ _ => Nat.eqb i k.
Definition fault_on (kn : list (hookkind * id)) : nat -> hookkind -> id -> bool :=
  fun _ k n => existsb (fun x => hookkind_eqb (fst x) k && Nat.eqb (snd x) n) kn.

Lemma heap_neq_by_eqb a b : heap_eqb a b = false -> a <> b.
Proof.
  intros H E. subst b. assert (R : heap_eqb a a = true).
  { clear H. unfold heap_eqb. induction a as [|c a IH]; simpl; auto. rewrite IH, andb_true_r.
    unfold cell_eqb. destruct c as [p cs]. simpl.
    assert (ids_eqb cs cs = true) by (apply ids_eqb_spec; reflexivity).
    rewrite H. destruct p; simpl; [rewrite Nat.eqb_refl|]; reflexivity. }
  congruence.
Qed.

(** 0 -> (1), 2 a root: [1.parent = 2] with _pre_attach (invocation 2) raising *)
Theorem parent_refuted : exists h n v faults r s',
  Inv h /\ valid_op (length h) (SetParent n v) /\
  set_parent true false faults n v (start h) = (r, s') /\
  r = Err (HookExn 2) /\ kind_at (log s') 2 = Some PreAttach /\ heap_of s' <> h.
Proof.
  exists (mkh [(None, [1]); (Some 0, []); (None, [])]), 1, (VNode 2), (fault_at 2).
  eexists. eexists. split; [apply inv_b_sound; vm_compute; reflexivity|].
  split; [simpl; lia|]. split; [vm_compute; reflexivity|].
  split; [reflexivity|]. split; [reflexivity|]. apply heap_neq_by_eqb. vm_compute. reflexivity.
Qed.

(** 0 -> (1, 2): [del 0.children] with the second child's _pre_detach raising *)
Theorem del_refuted : exists h n faults r s',
  Inv h /\ del_children true false faults n (start h) = (r, s') /\
  r = Err (HookExn 3) /\ kind_at (log s') 3 = Some PreDetach /\ heap_of s' <> h.
Proof.
  exists (mkh [(None, [1; 2]); (Some 0, []); (Some 0, [])]), 0, (fault_at 3).
  eexists. eexists. split; [apply inv_b_sound; vm_compute; reflexivity|].
  split; [vm_compute; reflexivity|].
  split; [reflexivity|]. split; [reflexivity|]. apply heap_neq_by_eqb. vm_compute. reflexivity.
Qed.

(** 0 -> (2), 1 a root: [1.children = (2, 1)]: LoopError, but 2 was stolen *)
Theorem children_stolen_refuted : exists h n xs r s',
  Inv h /\ valid_op (length h) (SetChildren n (CList xs)) /\
  set_children true false no_faults reentry_fuel n (CList xs) (start h) = (r, s') /\
  r = Err LoopError /\ heap_of s' <> h.
Proof.
  exists (mkh [(None, [2]); (None, []); (Some 0, [])]), 1, [VNode 2; VNode 1].
  eexists. eexists. split; [apply inv_b_sound; vm_compute; reflexivity|].
  split; [simpl; split; [lia|repeat constructor; simpl; lia]|].
  split; [vm_compute; reflexivity|].
  split; [reflexivity|]. apply heap_neq_by_eqb. vm_compute. reflexivity.
Qed.

(** 0 -> (1), 2 a root; _pre_attach of 2 and of 1 veto persistently:
    [0.children = (2)] fails, and so does the rollback *)
Theorem children_rollback_veto_refuted : exists h n xs faults i r s',
  Inv h /\ valid_op (length h) (SetChildren n (CList xs)) /\
  set_children true false faults reentry_fuel n (CList xs) (start h) = (r, s') /\
  r = Err (HookExn i) /\ kind_at (log s') i = Some PreAttach /\ heap_of s' <> h.
Proof.
  exists (mkh [(None, [1]); (Some 0, []); (None, [])]), 0, [VNode 2], (fault_on [(PreAttach, 2); (PreAttach, 1)]).
  eexists. eexists. eexists. split; [apply inv_b_sound; vm_compute; reflexivity|].
  split; [simpl; split; [lia|repeat constructor; simpl; lia]|].
  split; [vm_compute; reflexivity|].
  split; [reflexivity|]. split; [reflexivity|]. apply heap_neq_by_eqb. vm_compute. reflexivity.
Qed.

(** 0 -> (1); _pre_attach_children of 0 always raises; [0.children = ()] *)
Theorem children_recursion_refuted : exists h n faults,
  Inv h /\ forall fuel,
  fst (set_children true false faults fuel n (CList []) (start h)) = Err RecursionError /\
  (0 < fuel -> heap_of (snd (set_children true false faults fuel n (CList []) (start h))) <> h).
Proof.
  set (h0 := mkh [(None, [1]); (Some 0, [])]).
  set (hd := mkh [(None, []); (None, [])]).
  set (F := fault_on [(PreAttachChildren, 0)]).
  exists h0, 0, F. split; [apply inv_b_sound; vm_compute; reflexivity|].
  (* once the child is detached every nesting level is a no-op *)
  assert (A : forall fuel xs c l, (xs = [] \/ xs = [VNode 1]) ->
              fst (set_children true false F fuel 0 (CList xs) {| heap_of := hd; cnt := c; log := l |}) = Err RecursionError /\
              heap_of (snd (set_children true false F fuel 0 (CList xs) {| heap_of := hd; cnt := c; log := l |})) = hd).
  { induction fuel as [|fu IH]; intros xs c l Hx; [split; reflexivity|].
    specialize (IH []).
    destruct Hx as [-> | ->]; cbn [set_children]; cbv -[set_children] in IH |- *;
      match goal with |- context [set_children true false ?FF fu 0 (CList []) ?s1] =>
        match s1 with {| heap_of := _; cnt := ?c1; log := ?l1 |} =>
          destruct (IH c1 l1 (or_introl eq_refl)) as [R1 R2];
          destruct (set_children true false FF fu 0 (CList []) s1) as [[[]|e|] s2] end end;
      try discriminate R1; auto. }
  intros fuel. destruct fuel as [|fu]; [split; [reflexivity|lia]|].
  specialize (A fu [VNode 1]).
  cbn [set_children]; cbv -[set_children] in A |- *.
  match goal with |- context [set_children true false ?FF fu 0 (CList [VNode 1]) ?s1] =>
    match s1 with {| heap_of := _; cnt := ?c1; log := ?l1 |} =>
      destruct (A c1 l1 (or_intror eq_refl)) as [R1 R2];
      destruct (set_children true false FF fu 0 (CList [VNode 1]) s1) as [[[]|e|] s2] end end;
    try discriminate R1.
  split; [exact R1|]. intros _ E. rewrite R2 in E. discriminate E.
Qed.
