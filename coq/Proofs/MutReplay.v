(** C16: every link change is accounted for by the hook log.  Replaying the
    _post_detach / _post_attach invocations of the log from the initial state
    yields the final state - for every call, any arguments, any fault oracle,
    both assertion settings, any re-entrancy fuel, including refused, aborted
    and rolled-back calls. *)
Require Import AT.Model.Base AT.Model.Heap AT.Model.Mutate AT.Spec.MutSpec.
Require Import AT.Proofs.ListLemmas AT.Proofs.HeapLemmas.

(** the link change a hook invocation reports as done *)
Definition apply_event (h : heap) (e : event) : heap :=
  match e with
  | Ev PostDetach n [p] _ => detach_links h n p
  | Ev PostAttach n [p] _ => attach_links h n p
  | _ => h
  end.
Definition replay (h0 : heap) (l : list event) : heap := fold_left apply_event l h0.

Lemma replay_app h0 l1 l2 : replay h0 (l1 ++ l2) = replay (replay h0 l1) l2.
Proof. apply fold_left_app. Qed.

Section R.
Variables (typed asrt : bool) (faults : nat -> hookkind -> id -> bool).
Variable h0 : heap.

(** the state is what the log says *)
Definition J (s : st) : Prop := heap_of s = replay h0 (log s).

Definition keeps_st {A} (m : M A) : Prop := forall s, J s -> J (snd (m s)).

Lemma ks_ret {A} (a : A) : keeps_st (ret a).
Proof. intros s H. exact H. Qed.
Lemma ks_raise {A} e : keeps_st (@raise A e).
Proof. intros s H. exact H. Qed.
Lemma ks_lift {A} (r : result A) : keeps_st (lift r).
Proof. intros s H. exact H. Qed.
Lemma ks_massert b : keeps_st (massert asrt b).
Proof. intros s H. unfold massert. destruct (asrt && negb b); exact H. Qed.
Lemma ks_bind {A B} (m : M A) (k : A -> M B) : keeps_st m -> (forall a, keeps_st (k a)) -> keeps_st (mbind m k).
Proof.
  intros Hm Hk s Hs. unfold mbind. specialize (Hm s Hs).
  destruct (m s) as [[a|e|] s']; cbn [snd] in *; auto. apply Hk. exact Hm.
Qed.
Lemma ks_get {B} (k : heap -> M B) : (forall h, keeps_st (k h)) -> keeps_st (mbind get_heap k).
Proof. intros Hk s Hs. unfold mbind, get_heap. apply Hk. exact Hs. Qed.
Lemma ks_for_each {A} (l : list A) (body : A -> M unit) : (forall x, keeps_st (body x)) -> keeps_st (for_each l body).
Proof.
  intros H. induction l as [|x l IH]; cbn [for_each]; [apply ks_ret|].
  apply ks_bind; [apply H|]. intros _. exact IH.
Qed.
Lemma ks_try {A} (m : M A) (handler : exn -> M A) : keeps_st m -> (forall e, keeps_st (handler e)) -> keeps_st (try_except m handler).
Proof.
  intros Hm Hh s Hs. unfold try_except. specialize (Hm s Hs).
  destruct (m s) as [[a|e|] s']; cbn [snd] in *; auto. apply Hh. exact Hm.
Qed.
(** a hook that reports no link change *)
Lemma ks_hook k n args :
  (match k with PostDetach | PostAttach => False | _ => True end) -> keeps_st (hook faults k n args).
Proof.
  intros Hk s Hs. unfold hook, J in *.
  assert (E : replay h0 (log s ++ [Ev k n args (heap_of s)]) = heap_of s).
  { rewrite replay_app, <- Hs. cbn. destruct k; try reflexivity; destruct Hk. }
  destruct (faults (cnt s) k n); cbn [snd heap_of log]; symmetry; exact E.
Qed.

Lemma ks_detach n p : keeps_st (detach asrt faults n p).
Proof.
  destruct p as [p|]; [|apply ks_ret]. intros s Hs.
  unfold detach, mbind, hook, get_heap, put_heap, massert, raise, ret, J in *. cbn [fst snd heap_of cnt log].
  assert (E1 : replay h0 (log s ++ [Ev PreDetach n [p] (heap_of s)]) = heap_of s) by (rewrite replay_app, <- Hs; reflexivity).
  destruct (faults (cnt s) PreDetach n); cbn [fst snd heap_of cnt log]; [symmetry; exact E1|].
  destruct (asrt && negb (mem (children (heap_of s) p) n)); cbn [fst snd heap_of cnt log]; [symmetry; exact E1|].
  assert (E2 : replay h0 ((log s ++ [Ev PreDetach n [p] (heap_of s)]) ++ [Ev PostDetach n [p] (detach_links (heap_of s) n p)])
               = detach_links (heap_of s) n p) by (rewrite replay_app, E1; reflexivity).
  destruct (faults (S (cnt s)) PostDetach n); cbn [fst snd heap_of cnt log]; symmetry; exact E2.
Qed.
Lemma ks_attach n v : keeps_st (attach asrt faults n v).
Proof.
  destruct v as [p|]; [|apply ks_ret]. intros s Hs.
  unfold attach, mbind, hook, get_heap, put_heap, massert, raise, ret, J in *. cbn [fst snd heap_of cnt log].
  assert (E1 : replay h0 (log s ++ [Ev PreAttach n [p] (heap_of s)]) = heap_of s) by (rewrite replay_app, <- Hs; reflexivity).
  destruct (faults (cnt s) PreAttach n); cbn [fst snd heap_of cnt log]; [symmetry; exact E1|].
  destruct (asrt && negb (negb (mem (children (heap_of s) p) n))); cbn [fst snd heap_of cnt log]; [symmetry; exact E1|].
  assert (E2 : replay h0 ((log s ++ [Ev PreAttach n [p] (heap_of s)]) ++ [Ev PostAttach n [p] (attach_links (heap_of s) n p)])
               = attach_links (heap_of s) n p) by (rewrite replay_app, E1; reflexivity).
  destruct (faults (S (cnt s)) PostAttach n); cbn [fst snd heap_of cnt log]; symmetry; exact E2.
Qed.

Lemma ks_check_loop n v : keeps_st (check_loop n v).
Proof.
  unfold check_loop. destruct v as [p|]; [|apply ks_ret].
  destruct (Nat.eqb p n); [apply ks_raise|].
  apply ks_get. intros h. apply ks_bind; [apply ks_lift|]. intros l. destruct (mem l n); [apply ks_raise|apply ks_ret].
Qed.
Lemma ks_set_parent n v : keeps_st (set_parent typed asrt faults n v).
Proof.
  unfold set_parent. destruct v as [|q|]; [| |destruct typed; apply ks_raise].
  - apply ks_get. intros h. cbv zeta. destruct (option_eqb Nat.eqb (parent h n) None); [apply ks_ret|].
    apply ks_bind; [apply ks_check_loop|]. intros _. apply ks_bind; [apply ks_detach|]. intros _. apply ks_attach.
  - apply ks_get. intros h. cbv zeta. destruct (option_eqb Nat.eqb (parent h n) (Some q)); [apply ks_ret|].
    apply ks_bind; [apply ks_check_loop|]. intros _. apply ks_bind; [apply ks_detach|]. intros _. apply ks_attach.
Qed.
Lemma ks_del_children n : keeps_st (del_children typed asrt faults n).
Proof.
  unfold del_children. apply ks_get. intros h. apply ks_bind; [apply ks_hook; exact I|]. intros _.
  apply ks_bind; [apply ks_for_each; intros c; apply ks_set_parent|]. intros _.
  apply ks_get. intros h'. apply ks_bind; [apply ks_massert|]. intros _. apply ks_hook. exact I.
Qed.
Lemma ks_check_children seen xs : keeps_st (check_children typed seen xs).
Proof.
  revert seen. induction xs as [|x xs IH]; intros seen; cbn [check_children]; [apply ks_ret|].
  destruct x as [|c|]; try (destruct typed; [apply ks_raise|apply IH]).
  destruct (mem seen c); [apply ks_raise|apply IH].
Qed.
Lemma ks_set_children fuel : forall n a, keeps_st (set_children typed asrt faults fuel n a).
Proof.
  induction fuel as [|fu IH]; intros n a; cbn [set_children]; [apply ks_raise|].
  destruct a as [xs|]; [|apply ks_raise].
  apply ks_bind; [apply ks_check_children|]. intros _. apply ks_get. intros h.
  apply ks_bind; [apply ks_del_children|]. intros _.
  apply ks_try.
  - apply ks_bind; [apply ks_hook; exact I|]. intros _.
    apply ks_bind.
    + apply ks_for_each. intros x. unfold assign_parent_of. destruct x as [|c|]; try apply ks_raise. apply ks_set_parent.
    + intros _. apply ks_bind; [apply ks_hook; exact I|]. intros _. apply ks_get. intros h'. apply ks_massert.
  - intros e. apply ks_bind; [apply IH|]. intros _. apply ks_raise.
Qed.
End R.

(** every call: the final state is the initial one (with the freshly allocated
    node, for a constructor) changed exactly as the log's post hooks report *)
Definition initial_of (o : op) (h : heap) : heap :=
  match o with Construct _ _ => fst (alloc h) | _ => h end.

Theorem log_explains_state typed asrt faults fuel o h :
  let s' := snd (run_op typed asrt faults fuel o (start h)) in
  heap_of s' = replay (initial_of o h) (log s').
Proof.
  cbv zeta. destruct o as [n v|n a|n|p c]; cbn [run_op initial_of].
  - apply (ks_set_parent typed asrt faults h n v (start h)). reflexivity.
  - apply (ks_set_children typed asrt faults h fuel n a (start h)). reflexivity.
  - apply (ks_del_children typed asrt faults h n (start h)). reflexivity.
  - set (h1 := fst (alloc h)).
    set (s1 := {| heap_of := h1; cnt := 0; log := [] |}).
    set (T := (set_parent typed asrt faults (length h) p ;;;
       (if truthy c then match c with Some a => set_children typed asrt faults fuel (length h) a | None => ret tt end else ret tt) ;;;
       ret (length h)) ;;; ret tt).
    change ((construct typed asrt faults fuel p c ;;; ret tt) (start h)) with (T s1).
    assert (K : keeps_st h1 T).
    { unfold T. apply ks_bind; [|intros _; apply ks_ret].
      apply ks_bind; [apply ks_set_parent|]. intros _.
      apply ks_bind; [|intros _; apply ks_ret].
      destruct (truthy c); [|apply ks_ret]. destruct c as [a|]; [|apply ks_ret]. apply ks_set_children. }
    apply (K s1). reflexivity.
Qed.
