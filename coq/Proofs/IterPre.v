(** C06 for PreOrderIter: the transcription equals
    [filter f (preorder (prune stop ml t))] for every f, stop, maxlevel, tree. *)
Require Import AT.Model.Base AT.Model.Rose AT.Model.Iter AT.Spec.IterSpec AT.Proofs.ListLemmas.
Local Open Scope Z_scope.

Section P.
Variables (f stop : id -> bool).

(** nothing is admitted at a depth that is not below maxlevel *)
Lemma prune_at_bound m d cs : m <= d -> flat_map (prune stop (Some m) d) cs = [].
Proof.
  intros H. apply flat_map_all_nil. apply Forall_forall. intros [k ks] _. simpl.
  replace (d <? m) with false by lia. rewrite orb_true_r. reflexivity.
Qed.

(** the relation between the "remaining levels" counter of the recursive
    generator and the absolute bound: inside the recursion the remaining
    maxlevel [m] is >= 1 and the absolute one is [d + m] *)
Definition ml_rel (ml : option Z) (d : Z) (ml0 : option Z) : Prop :=
  match ml, ml0 with
  | Some m, Some m0 => m0 = d + m /\ 1 <= m
  | None, None => True
  | _, _ => False
  end.

Lemma pre_iter_t_spec t : forall ml d ml0, ml_rel ml d ml0 ->
  pre_iter_t f stop ml t = filter f (flat_map preorder (prune stop ml0 d t)).
Proof.
  induction t as [n cs IH] using tree_ind'. intros ml d ml0 R. simpl.
  assert (B : below d ml0 = true).
  { destruct ml as [m|], ml0 as [m0|]; simpl in *; try tauto. destruct R. lia. }
  rewrite B. destruct (stop n); simpl; auto.
  assert (E : (if negb (abort_at_level 2 ml) then flat_map (pre_iter_t f stop (dec_ml ml)) cs else [])
              = filter f (flat_map preorder (flat_map (prune stop ml0 (d + 1)) cs))).
  { destruct ml as [m|], ml0 as [m0|]; simpl in *; try tauto.
    - destruct R as [-> R]. destruct (Z.ltb_spec m 2) as [L|L]; simpl.
      + rewrite prune_at_bound by lia. reflexivity.
      + destruct (Z.eqb_spec m 0); [lia|].
        rewrite flat_map_flat_map, filter_flat_map. apply flat_map_ext_Forall.
        eapply Forall_impl; [|exact IH]. intros t0 Ht. apply Ht. simpl. lia.
    - rewrite flat_map_flat_map, filter_flat_map. apply flat_map_ext_Forall.
      eapply Forall_impl; [|exact IH]. intros t0 Ht. apply Ht. exact I. }
  rewrite E, app_nil_r. destruct (f n); reflexivity.
Qed.

Theorem pre_spec ml t : PreOrderIter f stop ml t = spec_pre f stop ml t.
Proof.
  unfold PreOrderIter, spec_pre, pre_iter, init_children, get_children. destruct t as [n cs].
  destruct ml as [m|]; cbn [abort_at_level].
  - destruct (Z.ltb_spec m 1) as [L|L].
    + simpl. replace (0 <? m) with false by lia. rewrite orb_true_r. reflexivity.
    + cbn [filter label]. destruct (stop n) eqn:S; cbn [negb].
      * simpl. rewrite S. reflexivity.
      * cbn [flat_map]. rewrite app_nil_r.
        apply (pre_iter_t_spec (T n cs) (Some m) 0 (Some m)). simpl. lia.
  - cbn [filter label]. destruct (stop n) eqn:S; cbn [negb].
    + simpl. rewrite S. reflexivity.
    + cbn [flat_map]. rewrite app_nil_r.
      apply (pre_iter_t_spec (T n cs) None 0 None). exact I.
Qed.
End P.
