(** C08: strict glob agrees with get on wildcard-free paths over sibling-unique
    names - same node (as a one-element list), same error class. *)
Require Import AT.Model.Base AT.Model.Rose AT.Model.Nav AT.Model.Resolver AT.Spec.ResolverSpec.
Require Import AT.Generated.Extracted AT.Proofs.ListLemmas AT.Proofs.NavProofs AT.Proofs.GlobProofs AT.Proofs.ResolverProofs.
Require Import AT.Proofs.GlobDen.

Lemma fold_left_ext_in {A B} (f g : A -> B -> A) l :
  (forall a x, In x l -> f a x = g a x) -> forall a, fold_left f l a = fold_left g l a.
Proof.
  induction l as [|x l IH]; intros H a; [reflexivity|]. cbn [fold_left].
  rewrite (H a x (or_introl eq_refl)). apply IH. intros b y Hy. apply H. right. exact Hy.
Qed.

Section G.
Variable nm : id -> str.
Variable ic : bool.
Variable t : tree.

Notation GS := (glob_rec nm ic false t).

(** a component without wildcard characters *)
Definition plain_comp (c : str) : bool := negb (existsb (N.eqb 42) c) && negb (existsb (N.eqb 63) c).

Lemma is_wildcard_plain c : plain_comp c = true -> is_wildcard c = false.
Proof.
  unfold plain_comp, is_wildcard. intros H. apply andb_prop in H. destruct H as [H1 H2].
  apply negb_true_iff in H1. apply negb_true_iff in H2. cbn. rewrite H1, H2. reflexivity.
Qed.
Lemma plain_not_starstar c : plain_comp c = true -> str_eqb c s_starstar = false.
Proof.
  intros H. destruct (str_eqb c s_starstar) eqn:E; [|reflexivity].
  apply str_eqb_spec in E. subst c. discriminate H.
Qed.

(** on a wildcard-free pattern the matcher is the comparison get uses *)
Lemma wild_plain c : forall n, plain_comp c = true -> wild_b ic c n = eq_name ic n c.
Proof.
  unfold eq_name. induction c as [|x c IH]; intros n H.
  - destruct n; destruct ic; reflexivity.
  - unfold plain_comp in H. cbn [existsb] in H. apply andb_prop in H. destruct H as [H1 H2].
    apply negb_true_iff in H1. apply negb_true_iff in H2. apply orb_false_elim in H1. apply orb_false_elim in H2.
    destruct H1 as [X1 C1]. destruct H2 as [X2 C2].
    assert (Hc : plain_comp c = true) by (unfold plain_comp; rewrite C1, C2; reflexivity).
    cbn [wild_b]. rewrite (N.eqb_sym x 42), X1, (N.eqb_sym x 63), X2.
    destruct n as [|y n]; [destruct ic; reflexivity|].
    rewrite (IH n Hc). unfold ch_eq. destruct ic; cbn [upper map str_eqb list_eqb].
    + rewrite (N.eqb_sym (upper_c x)). reflexivity.
    + rewrite (N.eqb_sym x). reflexivity.
Qed.

Lemma eq_name_trans a b c : eq_name ic a c = true -> eq_name ic b c = true -> eq_name ic a b = true.
Proof.
  unfold eq_name. destruct ic; rewrite !str_eqb_spec; congruence.
Qed.

(** no two children of one node have names that compare equal *)
Definition sibling_unique : Prop :=
  forall p c1 c2, In c1 (children_pos t p) -> In c2 (children_pos t p) ->
    eq_name ic (nm (label_at t c1)) (nm (label_at t c2)) = true -> c1 = c2.

(** the __find loop when at most one child is selected *)
Section Loop.
Variable sel : pos -> bool.
Variable R : pos -> result (list pos).
Variable isnil : bool.
Let F := fun (acc : result (list pos)) (child : pos) =>
  matches <- acc ;;
  if sel child then
    (if isnil then Ok (matches ++ [child])
     else match R child with
          | Ok ms => Ok (matches ++ ms)
          | Err e => Err e
          | OutOfFuel => OutOfFuel
          end)
  else Ok matches.

Lemma loop_none cs : (forall x, In x cs -> sel x = false) -> forall acc, fold_left F cs acc = acc.
Proof.
  induction cs as [|x cs IH]; intros H acc; [reflexivity|]. cbn [fold_left].
  rewrite IH by (intros y Hy; apply H; right; exact Hy).
  unfold F. rewrite (H x (or_introl eq_refl)). destruct acc; reflexivity.
Qed.
Lemma loop_unique cs : NoDup cs -> (forall x y, In x cs -> In y cs -> sel x = true -> sel y = true -> x = y) ->
  forall a, fold_left F cs (Ok a)
  = match find sel cs with
    | None => Ok a
    | Some c0 => if isnil then Ok (a ++ [c0])
                 else match R c0 with Ok ms => Ok (a ++ ms) | Err e => Err e | OutOfFuel => OutOfFuel end
    end.
Proof.
  induction cs as [|x cs IH]; intros ND U a; [reflexivity|]. cbn [fold_left find].
  inversion ND as [|x' cs' Nx ND']; subst.
  destruct (sel x) eqn:Sx.
  - rewrite loop_none.
    + unfold F. cbn [bind]. rewrite Sx. reflexivity.
    + intros y Hy. destruct (sel y) eqn:Sy; [|reflexivity].
      exfalso. apply Nx. rewrite (U x y (or_introl eq_refl) (or_intror Hy) Sx Sy). exact Hy.
  - unfold F at 2. cbn [bind]. rewrite Sx. apply IH; [exact ND'|].
    intros y z Hy Hz. apply U; right; assumption.
Qed.
End Loop.

Lemma children_pos_nodup p : NoDup (children_pos t p).
Proof.
  unfold children_pos. apply FinFun.Injective_map_NoDup; [|apply seq_NoDup].
  intros i j E. apply app_inv_head in E. congruence.
Qed.

Definition plain (comps : list str) : bool := forallb plain_comp comps.

Theorem glob_agrees_get : sibling_unique -> forall comps, plain comps = true -> forall p,
  GS comps p = match follow_spec nm ic t comps p with inl q => Ok [q] | inr e => Err e end.
Proof.
  intros SU. induction comps as [|name rest IH]; intros Hp p; [reflexivity|].
  cbn [plain forallb] in Hp. apply andb_prop in Hp. destruct Hp as [Hn Hr].
  cbn [glob_rec follow_spec]. unfold step_spec.
  change dotdot with s_dotdot. change starstar with s_starstar. rewrite is_lit_stay.
  destruct (str_eqb name s_dotdot).
  { destruct p as [|i p']; [reflexivity|]. cbn [parent_pos]. apply IH. exact Hr. }
  destruct (str_eqb name [] || str_eqb name s_dot); [apply IH; exact Hr|].
  rewrite (plain_not_starstar name Hn), (is_wildcard_plain name Hn). cbn [negb andb].
  set (sel := fun c => eq_name ic (nm (label_at t c)) name).
  assert (Esel : forall c, wmatch ic (name_at nm t c) name = sel c).
  { intros c. unfold wmatch, name_at. rewrite rmatch_translate. apply wild_plain. exact Hn. }
  assert (U : forall x y, In x (children_pos t p) -> In y (children_pos t p) -> sel x = true -> sel y = true -> x = y).
  { intros x y Hx Hy Sx Sy. apply (SU p x y Hx Hy). eapply eq_name_trans; eassumption. }
  destruct rest as [|r0 rest'].
  - match goal with |- context [fold_left ?F ?cs (Ok [])] =>
      assert (E : fold_left F cs (Ok []) = fold_left (fun acc child => matches <- acc ;;
                    if sel child then (if true then Ok (matches ++ [child]) else match (fun _ => Ok []) child with Ok ms => Ok (matches ++ ms) | Err e => Err e | OutOfFuel => OutOfFuel end) else Ok matches) cs (Ok []))
    end.
    { apply fold_left_ext_in. intros acc c _. rewrite Esel. reflexivity. }
    rewrite E. rewrite (loop_unique sel (fun _ => Ok []) true _ (children_pos_nodup p) U).
    destruct (find sel (children_pos t p)); reflexivity.
  - match goal with |- context [fold_left ?F ?cs (Ok [])] =>
      assert (E : fold_left F cs (Ok []) = fold_left (fun acc child => matches <- acc ;;
                    if sel child then (if false then Ok (matches ++ [child]) else match GS (r0 :: rest') child with Ok ms => Ok (matches ++ ms) | Err e => Err e | OutOfFuel => OutOfFuel end) else Ok matches) cs (Ok []))
    end.
    { apply fold_left_ext_in. intros acc c _. rewrite Esel. reflexivity. }
    rewrite E. rewrite (loop_unique sel (GS (r0 :: rest')) false _ (children_pos_nodup p) U).
    destruct (find sel (children_pos t p)) as [c0|]; [|reflexivity].
    rewrite (IH Hr c0). destruct (follow_spec nm ic t (r0 :: rest') c0); reflexivity.
Qed.

(** ... in the words of the statement: strict glob and strict get *)
Corollary glob_get_strict : sibling_unique -> forall comps, plain comps = true -> forall p,
  GS comps p = match get_loop nm ic false t comps p with
               | Ok (Some q) => Ok [q] | Ok None => Ok [] | Err e => Err e | OutOfFuel => OutOfFuel end.
Proof.
  intros SU comps Hp p. rewrite (glob_agrees_get SU comps Hp p), get_loop_fold.
  destruct (follow_spec nm ic t comps p); reflexivity.
Qed.

(** ... and for whole path strings (root component included) *)
Theorem glob_get_path sep : sibling_unique -> forall p path, plain (split sep path) = true ->
  glob nm ic false sep t p path
  = match get nm ic false sep t p path with
    | Ok (Some q) => Ok [q] | Ok None => Ok [] | Err e => Err e | OutOfFuel => OutOfFuel end.
Proof.
  intros SU p path Hp. unfold glob, get.
  assert (ES : start_ nm false sep t (wmatch ic) p path = start_ nm false sep t (cmp ic) p path).
  { unfold start_. destruct (starts_with sep path); [|reflexivity].
    destruct (split sep path) as [|x0 parts] eqn:Es; [reflexivity|]. cbn [tl].
    destruct parts as [|first rest]; [reflexivity|]. destruct first as [|f0 first']; [reflexivity|].
    cbn [plain forallb] in Hp. apply andb_prop in Hp. destruct Hp as [_ Hp]. apply andb_prop in Hp. destruct Hp as [Hf _].
    unfold wmatch. rewrite rmatch_translate, (wild_plain _ _ Hf). reflexivity. }
  rewrite ES. destruct (start_ nm false sep t (cmp ic) p path) as [[[node parts]|]|e|] eqn:E; cbn [bind]; try reflexivity.
  apply glob_get_strict; [exact SU|].
  (* the remaining components are components of the path *)
  unfold start_ in E. destruct (starts_with sep path).
  - destruct (split sep path) as [|x0 ps]; [discriminate E|]. cbn [tl] in E.
    destruct ps as [|first rest]; [discriminate E|]. destruct first as [|f0 first'].
    + discriminate E.
    + destruct (cmp ic (name_at nm t []) (f0 :: first')); [|discriminate E]. injection E as _ <-.
      cbn [plain forallb] in Hp. apply andb_prop in Hp. destruct Hp as [_ Hp]. apply andb_prop in Hp. destruct Hp as [_ Hp]. exact Hp.
  - injection E as _ <-. exact Hp.
Qed.
End G.
