(** The children deleter in full (fault-free): exact outcome, final state and
    hook log; the internal assertion holds (C02, C16, C01 for `del n.children`). *)
Require Import AT.Model.Base AT.Model.Heap AT.Model.Mutate AT.Spec.MutSpec.
Require Import AT.Proofs.ListLemmas AT.Proofs.HeapLemmas AT.Proofs.MutInv AT.Proofs.MutParent.

Lemma log_moves_app h m1 : forall m2,
  log_moves h (m1 ++ m2) =
  let '(l1, h1) := log_moves h m1 in let '(l2, h2) := log_moves h1 m2 in (l1 ++ l2, h2).
Proof.
  revert h. induction m1 as [|[c v] m1 IH]; intros h m2; cbn [app log_moves].
  - destruct (log_moves h m2); reflexivity.
  - rewrite IH. destruct (log_moves (eff_set_parent h c v) m1) as [l1 h1].
    destruct (log_moves h1 m2) as [l2 h2]. rewrite app_assoc. reflexivity.
Qed.

Section D.
Variables (typed asrt : bool).

Lemma eff_none_inv h c : Inv h -> c < length h -> Inv (eff_set_parent h c None) /\ length (eff_set_parent h c None) = length h.
Proof.
  intros I Hc. rewrite eff_detach; auto.
  - destruct (after_detach_IL (length h) h c) as [A B]; [split; auto|]. split; auto.
  - intros p P. apply (inv_bound_p _ I _ _ P).
Qed.

(** detaching a list of nodes one after the other *)
Theorem for_each_detach cs : forall s, Inv (heap_of s) -> (forall c, In c cs -> c < length (heap_of s)) ->
  for_each cs (fun c => set_parent typed asrt no_faults c VNone) s =
  (Ok tt, st_after s (snd (log_moves (heap_of s) (map (fun c => (c, None)) cs)))
                     (fst (log_moves (heap_of s) (map (fun c => (c, None)) cs)))).
Proof.
  induction cs as [|c cs IH]; intros s I B; cbn [for_each map log_moves].
  - unfold ret. cbn [fst snd]. rewrite st_after_nil. reflexivity.
  - unfold mbind.
    pose proof (set_parent_run typed asrt c None s I (B c (or_introl eq_refl)) Logic.I) as R.
    cbn [opt_value] in R. unfold loop_refused in R. rewrite andb_false_r in R. rewrite R. clear R.
    destruct (eff_none_inv (heap_of s) c I (B c (or_introl eq_refl))) as [I1 L1].
    set (s1 := st_after s (eff_set_parent (heap_of s) c None) (log_set_parent (heap_of s) c None)).
    rewrite (IH s1).
    + cbn [heap_of s1 st_after].
      destruct (log_moves (eff_set_parent (heap_of s) c None) (map (fun c0 => (c0, None)) cs)) as [l' h''].
      cbn [fst snd]. unfold s1. rewrite st_after_comp. reflexivity.
    + exact I1.
    + intros c' Hc'. cbn [heap_of s1 st_after]. rewrite L1. apply B. simpl; auto.
Qed.

(** what detaching all children of [n], front to back, leaves behind *)
Lemma detach_children_state n : forall suf h, Inv h -> n < length h -> children h n = suf ->
  let h' := snd (log_moves h (map (fun c => (c, None)) suf)) in
  Inv h' /\ length h' = length h /\ children h' n = [] /\
  (forall m, parent h' m = if mem suf m then None else parent h m) /\
  (forall m, m <> n -> children h' m = children h m).
Proof.
  induction suf as [|c r IH]; intros h I Hn E; cbn [map log_moves snd].
  - split; [exact I|split; [reflexivity|split; [exact E|split; intros; reflexivity]]].
  - assert (Pc : parent h c = Some n) by (apply (inv_link _ I); rewrite E; simpl; auto).
    destruct (inv_bound_p _ I _ _ Pc) as [Bc _].
    destruct (eff_none_inv h c I Bc) as [I1 L1].
    set (h1 := eff_set_parent h c None) in *.
    assert (E1 : h1 = detach_links h c n).
    { unfold h1. rewrite eff_detach; auto.
      - unfold after_detach. rewrite Pc. reflexivity.
      - intros p P. apply (inv_bound_p _ I _ _ P). }
    assert (ND : NoDup (c :: r)) by (rewrite <- E; apply (inv_nodup _ I)).
    assert (C1 : children h1 n = r).
    { rewrite E1, children_detach by auto. rewrite Nat.eqb_refl, E. cbn [remove_id filter].
      rewrite Nat.eqb_refl. cbn [negb]. apply remove_id_notin. inversion ND; auto. }
    destruct (log_moves h1 (map (fun c0 => (c0, None)) r)) as [l' h''] eqn:LM. cbn [snd].
    specialize (IH h1 I1 ltac:(lia) C1). rewrite LM in IH. cbn [snd] in IH.
    destruct IH as [I2 [L2 [C2 [P2 K2]]]].
    split; [exact I2|]. split; [lia|]. split; [exact C2|]. split.
    + intros m. rewrite P2. rewrite E1, parent_detach by auto.
      unfold mem. cbn [existsb]. destruct (Nat.eqb_spec m c) as [->|N].
      * rewrite orb_true_l. destruct (existsb (Nat.eqb c) r); reflexivity.
      * cbn [orb]. reflexivity.
    + intros m Hm. rewrite K2 by auto. rewrite E1, children_detach by auto.
      destruct (Nat.eqb_spec m n); [contradiction|reflexivity].
Qed.

(** the pointwise specification of the final state *)
Lemma detach_children_effect n h : Inv h -> n < length h ->
  snd (log_moves h (map (fun c => (c, None)) (children h n))) = del_effect h n.
Proof.
  intros I Hn. destruct (detach_children_state n (children h n) h I Hn eq_refl) as [I' [L' [C' [P' K']]]].
  unfold del_effect. symmetry. by_cells ltac:(symmetry; exact L').
  rewrite P'. split; [reflexivity|].
  destruct (Nat.eqb_spec m n) as [->|N]; [rewrite C'; reflexivity|]. rewrite K' by auto. reflexivity.
Qed.

(** `del n.children`, hooks not raising, from any consistent state *)
Theorem del_children_run n s : let h := heap_of s in
  Inv h -> n < length h ->
  del_children typed asrt no_faults n s =
  (Ok tt, st_after s (del_effect h n) (fst (log_del_children h n))).
Proof.
  intros h I Hn. unfold del_children. unfold mbind at 1. unfold get_heap. cbn [fst snd]. fold h.
  set (cs := children h n).
  unfold mbind at 1. unfold hook at 1. unfold no_faults at 1. cbn [fst snd heap_of cnt log]. fold h.
  set (s0 := {| heap_of := h; cnt := S (cnt s); log := log s ++ [Ev PreDetachChildren n cs h] |}).
  unfold mbind at 1.
  assert (B : forall c, In c cs -> c < length (heap_of s0)).
  { intros c Hc. apply (inv_bound_c _ I _ _ Hc). }
  rewrite (for_each_detach cs s0 I B). cbn [heap_of s0].
  destruct (detach_children_state n cs h I Hn eq_refl) as [I' [L' [C' _]]].
  pose proof (detach_children_effect n h I Hn) as EF. fold cs in EF.
  destruct (log_moves h (map (fun c => (c, None)) cs)) as [l h'] eqn:LM. cbn [fst snd] in *.
  unfold mbind at 1. unfold get_heap. cbn [fst snd heap_of st_after].
  rewrite C'. cbn [length Nat.eqb]. unfold mbind at 1. rewrite massert_true.
  unfold hook, no_faults, st_after. cbn [fst snd heap_of cnt log].
  unfold log_del_children. fold cs. rewrite LM. cbn [fst]. rewrite EF.
  f_equal. f_equal.
  - rewrite !app_length. unfold s0. cbn [length cnt]. lia.
  - unfold s0. cbn [log]. rewrite <- !app_assoc. reflexivity.
Qed.
End D.
