(** C01: every structural call - whatever its arguments, whichever hooks raise,
    however the rollback goes - keeps the link state a consistent forest. *)
Require Import AT.Model.Base AT.Model.Heap AT.Model.Mutate AT.Spec.MutSpec.
Require Import AT.Proofs.ListLemmas AT.Proofs.HeapLemmas.

Section K.
Variables (typed asrt : bool) (faults : nat -> hookkind -> id -> bool).
Implicit Type I : heap -> Prop.

(** [keeps I m]: whatever way [m] ends (normally, with an exception, out of
    fuel), the link state it leaves satisfies [I] if the initial one did *)
Definition keeps (I : heap -> Prop) {A} (m : M A) : Prop :=
  forall s, I (heap_of s) -> I (heap_of (snd (m s))).

Lemma keeps_ret I {A} (a : A) : keeps I (ret a).
Proof. intros s H. exact H. Qed.
Lemma keeps_raise I {A} e : keeps I (@raise A e).
Proof. intros s H. exact H. Qed.
Lemma keeps_lift I {A} (r : result A) : keeps I (lift r).
Proof. intros s H. exact H. Qed.
Lemma keeps_hook I k n args : keeps I (hook faults k n args).
Proof. intros s H. unfold hook. destruct (faults (cnt s) k n); exact H. Qed.
Lemma keeps_massert I b : keeps I (massert asrt b).
Proof. intros s H. unfold massert. destruct (asrt && negb b); exact H. Qed.
Lemma keeps_bind I {A B} (m : M A) (k : A -> M B) :
  keeps I m -> (forall a, keeps I (k a)) -> keeps I (mbind m k).
Proof.
  intros Hm Hk s Hs. unfold mbind. specialize (Hm s Hs).
  destruct (m s) as [[a|e|] s']; simpl in *; auto. apply Hk. exact Hm.
Qed.
(** reading the state: the continuation may rely on the value read satisfying I *)
Lemma keeps_get I {B} (k : heap -> M B) :
  (forall h, I h -> keeps I (k h)) -> keeps I (mbind get_heap k).
Proof. intros Hk s Hs. unfold mbind, get_heap. apply Hk; exact Hs. Qed.
Lemma keeps_for_each I {A} (l : list A) (body : A -> M unit) :
  (forall x, In x l -> keeps I (body x)) -> keeps I (for_each l body).
Proof.
  induction l as [|x l IH]; intros H; simpl.
  - apply keeps_ret.
  - apply keeps_bind; [apply H; simpl; auto|]. intros _. apply IH. intros y Hy. apply H. simpl; auto.
Qed.
Lemma keeps_try I {A} (m : M A) (handler : exn -> M A) :
  keeps I m -> (forall e, keeps I (handler e)) -> keeps I (try_except m handler).
Proof.
  intros Hm Hh s Hs. unfold try_except. specialize (Hm s Hs).
  destruct (m s) as [[a|e|] s']; simpl in *; auto. apply Hh. exact Hm.
Qed.

(** the invariant carried through the three assignments: a consistent forest
    over a universe of exactly [L] nodes *)
Definition IL (L : nat) (h : heap) : Prop := Inv h /\ length h = L.

(** __check_loop does not touch the state; when it passes, the new parent is
    not the node and the node is not on the new parent's root path *)
Lemma check_loop_spec n v s :
  snd (check_loop n v s) = s /\
  (fst (check_loop n v s) = Ok tt ->
   match v with
   | None => True
   | Some q => q <> n /\ exists l, path_rev (walk_fuel (heap_of s)) (heap_of s) q = Ok l /\ ~ In n l
   end).
Proof.
  unfold check_loop. destruct v as [q|]; [|split; auto].
  destruct (Nat.eqb_spec q n) as [->|N]; [split; [reflexivity|intros H; discriminate H]|].
  unfold mbind, get_heap, lift, raise, ret. cbn [fst snd].
  destruct (path_rev (walk_fuel (heap_of s)) (heap_of s) q) as [l|e|] eqn:E; cbn [fst snd];
    try (split; [reflexivity|intros H; discriminate H]).
  destruct (mem l n) eqn:M; cbn [fst snd]; (split; [reflexivity|]); intros H; try discriminate H.
  split; auto. exists l. split; auto. intros Hin. apply mem_In in Hin. congruence.
Qed.

(** __detach: the state it leaves is the old one (an exception before the
    update) or the detached one (normal end, or exception of _post_detach) *)
Lemma detach_spec n p s :
  let s' := snd (detach asrt faults n (Some p) s) in
  (heap_of s' = heap_of s \/ heap_of s' = detach_links (heap_of s) n p) /\
  (fst (detach asrt faults n (Some p) s) = Ok tt -> heap_of s' = detach_links (heap_of s) n p).
Proof.
  unfold detach, mbind, hook, get_heap, put_heap, massert, raise, ret. simpl.
  destruct (faults (cnt s) PreDetach n); simpl; [split; [auto|intros H; discriminate H]|].
  destruct (asrt && negb (mem (children (heap_of s) p) n)); simpl; [split; [auto|intros H; discriminate H]|].
  destruct (faults (S (cnt s)) PostDetach n); simpl; split; auto.
Qed.

Lemma attach_spec n p s :
  let s' := snd (attach asrt faults n (Some p) s) in
  (heap_of s' = heap_of s \/ heap_of s' = attach_links (heap_of s) n p) /\
  (fst (attach asrt faults n (Some p) s) = Ok tt -> heap_of s' = attach_links (heap_of s) n p).
Proof.
  unfold attach, mbind, hook, get_heap, put_heap, massert, raise, ret. simpl.
  destruct (faults (cnt s) PreAttach n); simpl; [split; [auto|intros H; discriminate H]|].
  destruct (asrt && negb (negb (mem (children (heap_of s) p) n))); simpl; [split; [auto|intros H; discriminate H]|].
  destruct (faults (S (cnt s)) PostAttach n); simpl; split; auto.
Qed.

Lemma option_eqb_false_neq (a b : option id) : option_eqb Nat.eqb a b = false -> a <> b.
Proof.
  destruct a as [x|], b as [y|]; simpl; try congruence.
  intros H E. injection E as ->. rewrite Nat.eqb_refl in H. discriminate.
Qed.


Lemma after_detach_IL L h n : IL L h -> IL L (after_detach h n).
Proof.
  intros [I Len]. unfold after_detach. destruct (parent h n) as [p|] eqn:P; [|split; auto].
  split; [apply detach_inv; auto|rewrite length_detach; auto].
Qed.
Lemma after_detach_parent L h n : IL L h -> n < L -> parent (after_detach h n) n = None.
Proof.
  intros [I Len] Bn. unfold after_detach. destruct (parent h n) as [p|] eqn:P; auto.
  rewrite parent_detach by lia. rewrite Nat.eqb_refl. auto.
Qed.
Lemma after_detach_chain L h n q l : IL L h -> n < L -> chain h q l -> q <> n -> ~ In n l ->
  chain (after_detach h n) q l.
Proof.
  intros [I Len] Bn C Nq Nl. unfold after_detach. destruct (parent h n) as [p|] eqn:P; auto.
  apply chain_avoid with (h := h) (n := n); auto. intros m Hm. rewrite parent_detach by lia.
  destruct (Nat.eqb_spec m n); congruence.
Qed.

(** parent setter: the final state is the initial one, the detached one, or
    the re-attached one - each a consistent forest *)
Theorem set_parent_keeps L n v : n < L -> valid_value L v -> keeps (IL L) (set_parent typed asrt faults n v).
Proof.
  intros Bn Bv s HI. unfold set_parent.
  assert (G : forall v', (match v' with Some q => q < L | None => True end) ->
     IL L (heap_of (snd ((h <-- get_heap ;;;
        (let p := parent h n in
         if option_eqb Nat.eqb p v' then ret tt
         else check_loop n v' ;;; detach asrt faults n p ;;; attach asrt faults n v')) s)))).
  { intros v' Bv'. unfold mbind at 1. unfold get_heap. simpl.
    destruct (option_eqb Nat.eqb (parent (heap_of s) n) v') eqn:EQ; [exact HI|].
    unfold mbind at 1.
    destruct (check_loop_spec n v' s) as [CS CO].
    destruct (check_loop n v' s) as [[[]|e|] s1] eqn:CL; simpl in CS; subst s1; simpl; try exact HI.
    specialize (CO eq_refl).
    set (h := heap_of s) in *.
    (* detach *)
    assert (D : forall s2 r, detach asrt faults n (parent h n) s = (r, s2) ->
                (heap_of s2 = h \/ heap_of s2 = after_detach h n) /\ (r = Ok tt -> heap_of s2 = after_detach h n)).
    { intros s2 r E. unfold after_detach. destruct (parent h n) as [p|] eqn:P.
      - pose proof (detach_spec n p s) as [D1 D2]. rewrite E in D1, D2. simpl in D1, D2. auto.
      - simpl in E. unfold ret in E. injection E as <- <-. auto. }
    unfold mbind.
    destruct (detach asrt faults n (parent h n) s) as [r s2] eqn:DE.
    destruct (D s2 r eq_refl) as [D1 D2].
    assert (IA : IL L (after_detach h n)) by (apply after_detach_IL; auto).
    destruct r as [[]|e|]; cbn [fst snd]; try (destruct D1 as [-> | ->]; auto; fail).
    specialize (D2 eq_refl).
    (* attach *)
    destruct v' as [q|]; [|simpl; rewrite D2; exact IA].
    pose proof (attach_spec n q s2) as [A1 _].
    destruct CO as [Nq [l [PL Nl]]].
    destruct HI as [I Len].
    destruct (path_rev_inv h q I) as [lq [Cq Pq]]. fold h in PL. rewrite Pq in PL. injection PL as <-.
    assert (Nlq : ~ In n lq) by (intros Hin; apply Nl; simpl; auto).
    assert (G2 : forall hf, (hf = heap_of s2 \/ hf = attach_links (heap_of s2) n q) -> IL L hf).
    { intros hf [-> | ->]; rewrite D2; auto.
      destruct IA as [IA LenA]. split; [|rewrite length_attach; auto].
      eapply attach_inv; eauto; try lia.
      - eapply after_detach_parent; eauto. split; auto.
      - eapply after_detach_chain; eauto. split; auto. }
    apply G2. exact A1. }
  destruct v as [|q|].
  - apply (G None). exact I.
  - apply (G (Some q)). exact Bv.
  - destruct typed; exact HI.
Qed.

(** children deleter *)
Theorem del_children_keeps L n : n < L -> keeps (IL L) (del_children typed asrt faults n).
Proof.
  intros Bn. unfold del_children. apply keeps_get. intros h [I Len].
  apply keeps_bind; [apply keeps_hook|]. intros _.
  apply keeps_bind.
  - apply keeps_for_each. intros c Hc. apply set_parent_keeps; [|exact Logic.I].
    destruct (inv_bound_c _ I _ _ Hc). lia.
  - intros _. apply keeps_get. intros h' _. apply keeps_bind; [apply keeps_massert|]. intros _. apply keeps_hook.
Qed.

Lemma check_children_keeps I seen xs : keeps I (check_children typed seen xs).
Proof.
  revert seen; induction xs as [|x xs IH]; intros seen; simpl; [apply keeps_ret|].
  destruct x as [|c|]; try (destruct typed; [apply keeps_raise|apply IH]).
  destruct (mem seen c); [apply keeps_raise|apply IH].
Qed.


(** children setter, for any re-entrancy fuel *)
Theorem set_children_keeps L fuel : forall n a, n < L ->
  (match a with CList xs => valid_values L xs | CNotIterable => True end) ->
  keeps (IL L) (set_children typed asrt faults fuel n a).
Proof.
  induction fuel as [|fu IH]; intros n a Bn Va; simpl; [apply keeps_raise|].
  destruct a as [xs|]; [|apply keeps_raise].
  apply keeps_bind; [apply check_children_keeps|]. intros _.
  apply keeps_get. intros h [I Len].
  apply keeps_bind; [apply del_children_keeps; auto|]. intros _.
  apply keeps_try.
  - apply keeps_bind; [apply keeps_hook|]. intros _.
    apply keeps_bind.
    + apply keeps_for_each. intros x Hx. unfold assign_parent_of.
      destruct x as [|c|]; try apply keeps_raise.
      apply set_parent_keeps; [|exact Bn]. unfold valid_values in Va. rewrite Forall_forall in Va. apply (Va _ Hx).
    + intros _. apply keeps_bind; [apply keeps_hook|]. intros _.
      apply keeps_get. intros h' _. apply keeps_massert.
  - intros e. apply keeps_bind; [|intros _; apply keeps_raise].
    apply IH; auto. unfold valid_values. apply Forall_forall. intros x Hx. apply in_map_iff in Hx.
    destruct Hx as [c [<- Hc]]. simpl. destruct (inv_bound_c _ I _ _ Hc). lia.
Qed.

(** allocation of a fresh isolated node *)
Lemma get_app_old (h : heap) c m : m < length h -> get (h ++ [c]) m = get h m.
Proof. intros H. unfold get. apply app_nth1. auto. Qed.
Lemma get_app_new (h : heap) : get (h ++ [empty_cell]) (length h) = empty_cell.
Proof. unfold get. rewrite app_nth2 by lia. rewrite Nat.sub_diag. reflexivity. Qed.
Lemma get_beyond (h : heap) m : length h <= m -> get h m = empty_cell.
Proof. intros H. unfold get. apply nth_overflow. auto. Qed.

Lemma get_alloc h m : get (h ++ [empty_cell]) m = get h m.
Proof.
  destruct (Nat.lt_ge_cases m (length h)) as [H|H].
  - apply get_app_old; auto.
  - rewrite (get_beyond h m H). destruct (Nat.eq_dec m (length h)) as [->|N].
    + apply get_app_new.
    + apply get_beyond. rewrite app_length. simpl. lia.
Qed.

Lemma alloc_inv h : Inv h -> Inv (h ++ [empty_cell]).
Proof.
  intros I.
  assert (P : forall m, parent (h ++ [empty_cell]) m = parent h m) by (intros; unfold parent; rewrite get_alloc; auto).
  assert (C : forall m, children (h ++ [empty_cell]) m = children h m) by (intros; unfold children; rewrite get_alloc; auto).
  constructor.
  - intros n p. rewrite P, app_length. simpl. intros H. destruct (inv_bound_p _ I _ _ H). lia.
  - intros p n. rewrite C, app_length. simpl. intros H. destruct (inv_bound_c _ I _ _ H). lia.
  - intros n p. rewrite P, C. apply (inv_link _ I).
  - intros p. rewrite C. apply (inv_nodup _ I).
  - intros n. destruct (inv_acyclic _ I n) as [l Ch]. exists l.
    induction Ch as [x Px|x p l Px Ch IH]; [constructor; rewrite P; auto|].
    eapply chain_step; eauto. rewrite P. auto.
Qed.

(** C01, one step: any call with arguments naming existing nodes (or
    non-nodes), under any fault oracle, both assertion settings, both mixins
    and any re-entrancy fuel, maps a consistent forest to a consistent forest *)
Theorem run_op_inv fuel o s : Inv (heap_of s) -> valid_op (length (heap_of s)) o ->
  Inv (heap_of (snd (run_op typed asrt faults fuel o s))) /\
  length (heap_of s) <= length (heap_of (snd (run_op typed asrt faults fuel o s))).
Proof.
  intros I V. set (L := length (heap_of s)) in *.
  assert (K : forall (m : M unit), keeps (IL L) m ->
              Inv (heap_of (snd (m s))) /\ L <= length (heap_of (snd (m s)))).
  { intros m Hm. destruct (Hm s) as [I' Len']; [split; auto|]. split; auto. lia. }
  destruct o as [n v|n a|n|p c]; simpl in *.
  - destruct V. apply K. apply set_parent_keeps; auto.
  - destruct V. apply K. apply set_children_keeps; auto.
  - apply K. apply del_children_keeps; auto.
  - destruct V as [Vp Vc].
    set (s1 := {| heap_of := heap_of s ++ [empty_cell]; cnt := cnt s; log := log s |}).
    set (T := (set_parent typed asrt faults L p ;;;
       (if truthy c then match c with Some a => set_children typed asrt faults fuel L a | None => ret tt end else ret tt) ;;;
       ret L) ;;; ret tt).
    assert (E : (construct typed asrt faults fuel p c ;;; ret tt) s = T s1) by reflexivity.
    rewrite E.
    assert (I1 : IL (S L) (heap_of s1)).
    { split; [apply alloc_inv; auto|]. simpl. rewrite app_length. simpl. unfold L. lia. }
    assert (VV : forall v, valid_value L v -> valid_value (S L) v) by (intros [|q|]; simpl; auto).
    assert (KK : keeps (IL (S L)) T).
    { unfold T. apply keeps_bind; [|intros _; apply keeps_ret].
      apply keeps_bind; [apply set_parent_keeps; auto|]. intros _.
      apply keeps_bind; [|intros _; apply keeps_ret].
      destruct (truthy c); [|apply keeps_ret]. destruct c as [a|]; [|apply keeps_ret].
      apply set_children_keeps; auto. destruct a as [xs|]; auto.
      unfold valid_values in *. eapply Forall_impl; [|exact Vc]. apply VV. }
    destruct (KK s1 I1) as [I2 Len2]. split; auto. lia.
Qed.
End K.
