(** C06 for the level-order family: the worklist loops equal the classic
    [levels] decomposition of the pruned tree. *)
Require Import AT.Model.Base AT.Model.Rose AT.Model.Iter AT.Spec.IterSpec AT.Proofs.ListLemmas AT.Proofs.IterPost.
Local Open Scope Z_scope.

(** ---- facts about [levels] ---- *)
Lemma zip_app_nil_r a : zip_app a [] = a. Proof. destruct a; auto. Qed.
Lemma zip_app_assoc a : forall b c, zip_app (zip_app a b) c = zip_app a (zip_app b c).
Proof. induction a as [|x a IH]; intros [|y b] [|z c]; simpl; auto. rewrite app_assoc, IH. auto. Qed.
Lemma levels_forest_app a b : levels_forest (a ++ b) = zip_app (levels_forest a) (levels_forest b).
Proof. unfold levels_forest. induction a as [|t a IH]; simpl; auto. rewrite IH, zip_app_assoc. auto. Qed.

Lemma levels_forest_step ts : ts <> [] ->
  levels_forest ts = map label ts :: levels_forest (flat_map kids ts).
Proof.
  induction ts as [|[n cs] r IH]; [congruence|]. intros _.
  change (levels_forest (T n cs :: r)) with (zip_app ([n] :: levels_forest cs) (levels_forest r)).
  destruct r as [|t r'].
  - simpl. rewrite app_nil_r. auto.
  - rewrite IH by congruence. cbn [zip_app map label flat_map kids]. rewrite !levels_forest_app. reflexivity.
Qed.

(** height in nodes, of a forest *)
Fixpoint hn (t : tree) : nat := match t with T _ cs => S (fold_right (fun c acc => Nat.max (hn c) acc) O cs) end.
Definition hf (ts : list tree) : nat := fold_right (fun c acc => Nat.max (hn c) acc) O ts.

Lemma hf_app a b : hf (a ++ b) = Nat.max (hf a) (hf b).
Proof. unfold hf. induction a as [|x a IH]; simpl; auto. rewrite IH. lia. Qed.
Lemma hf_kids ts : ts <> [] -> S (hf (flat_map kids ts)) = hf ts.
Proof.
  induction ts as [|[n cs] r IH]; [congruence|]. intros _. destruct r as [|t r'].
  - cbn [flat_map kids]. rewrite app_nil_r. change (hf [T n cs]) with (Nat.max (S (hf cs)) O). lia.
  - cbn [flat_map kids]. rewrite hf_app. specialize (IH ltac:(congruence)). cbn [flat_map kids] in IH.
    change (hf (T n cs :: t :: r')) with (Nat.max (S (hf cs)) (hf (t :: r'))). lia.
Qed.
Lemma hn_theight t : hn t = S (theight t).
Proof.
  induction t as [n cs IH] using tree_ind'. simpl. f_equal.
  induction IH as [|c cs Hc Hcs IH']; simpl; auto. rewrite Hc, IH'. reflexivity.
Qed.

Lemma concat_map_filter {A} (p : A -> bool) (l : list (list A)) :
  concat (map (filter p) l) = filter p (concat l).
Proof. induction l as [|x l IH]; simpl; auto. rewrite filter_app, IH. auto. Qed.

Section P.
Variables (f stop : id -> bool).

Definition adm (ml : option Z) (d : Z) (c : tree) : Prop := stop (label c) = false /\ below d ml = true.

(** pruning an admitted level keeps its labels and prunes the next level *)
Lemma prune_level_labels ml d cs : Forall (adm ml d) cs ->
  map label (flat_map (prune stop ml d) cs) = map label cs.
Proof.
  induction 1 as [|[n ks] cs [S B] _ IH]; simpl; auto. simpl in S. rewrite S, B. simpl. rewrite IH. auto.
Qed.
Lemma prune_level_kids ml d cs : Forall (adm ml d) cs ->
  flat_map kids (flat_map (prune stop ml d) cs) = flat_map (prune stop ml (d + 1)) (flat_map kids cs).
Proof.
  induction 1 as [|[n ks] cs [S B] _ IH]; simpl; auto. simpl in S. rewrite S, B. simpl.
  rewrite flat_map_app, IH. auto.
Qed.
Lemma prune_level_nonempty ml d cs : Forall (adm ml d) cs -> cs <> [] -> flat_map (prune stop ml d) cs <> [].
Proof.
  intros H N E. apply (f_equal (map label)) in E. rewrite prune_level_labels in E by auto.
  destruct cs; simpl in *; congruence.
Qed.
Lemma prune_get_children ml d cs :
  flat_map (prune stop ml d) (flat_map (fun c => get_children stop (kids c)) cs)
  = flat_map (prune stop ml d) (flat_map kids cs).
Proof.
  rewrite !flat_map_flat_map. apply flat_map_ext_Forall. apply Forall_forall. intros c _.
  unfold get_children. rewrite flat_map_filter. apply flat_map_ext_Forall. apply Forall_forall. intros k _.
  destruct (stop (label k)) eqn:S; simpl; auto. rewrite prune_stopped; auto.
Qed.
Lemma get_children_adm ml d cs : below d ml = true ->
  Forall (adm ml d) (flat_map (fun c => get_children stop (kids c)) cs).
Proof.
  intros B. apply Forall_forall. intros k Hk. apply in_flat_map in Hk. destruct Hk as [c [_ Hk]].
  unfold get_children in Hk. apply filter_In in Hk. destruct Hk as [_ Hk].
  split; auto. destruct (stop (label k)); simpl in *; congruence.
Qed.

Lemma hf_prune ml : forall t d, (hf (prune stop ml d t) <= hn t)%nat.
Proof.
  induction t as [n cs IH] using tree_ind'. intros d. cbn [prune].
  destruct (stop n || negb (below d ml)); [simpl; lia|].
  change (hf [T n (flat_map (prune stop ml (d + 1)) cs)])
    with (Nat.max (S (hf (flat_map (prune stop ml (d + 1)) cs))) O).
  cbn [hn]. fold (hf cs).
  assert (hf (flat_map (prune stop ml (d + 1)) cs) <= hf cs)%nat.
  { induction IH as [|c cs Hc _ IH']; simpl; auto. rewrite hf_app. specialize (Hc (d + 1)).
    change (hf (c :: cs)) with (Nat.max (hn c) (hf cs)). lia. }
  lia.
Qed.

(** LevelOrderIter's loop *)
Lemma lo_loop_spec ml fuel : forall children d, Forall (adm ml d) children ->
  (hf (flat_map (prune stop ml d) children) < fuel)%nat ->
  lo_loop f stop fuel ml (d + 1) children
  = Ok (filter f (concat (levels_forest (flat_map (prune stop ml d) children)))).
Proof.
  induction fuel as [|fu IH]; intros children d A H; [lia|].
  cbn [lo_loop]. destruct children as [|c0 cr] eqn:EC; [reflexivity|]. rewrite <- EC in *.
  assert (NE : children <> []) by (subst; congruence). clear EC c0 cr.
  pose proof (prune_level_nonempty ml d children A NE) as NP.
  rewrite (levels_forest_step _ NP), prune_level_labels, prune_level_kids by auto.
  cbn [concat]. rewrite filter_app.
  pose proof (hf_kids _ NP) as HK. rewrite prune_level_kids in HK by auto.
  rewrite abort_below.
  destruct (below (d + 1) ml) eqn:B1; cbn [negb].
  - rewrite IH.
    + cbn [bind]. rewrite prune_get_children. reflexivity.
    + apply get_children_adm; auto.
    + rewrite prune_get_children. lia.
  - rewrite IH with (children := []); [|constructor|simpl; lia].
    cbn [bind flat_map levels_forest fold_right concat filter].
    rewrite flat_prune_not_below by auto. reflexivity.
Qed.

Theorem level_spec ml t : LevelOrderIter f stop ml t = Ok (spec_level f stop ml t).
Proof.
  unfold LevelOrderIter, spec_level, spec_groups, init_children, get_children.
  rewrite concat_map_filter.
  change 1 with (0 + 1). rewrite abort_below.
  destruct (below 0 ml) eqn:B; cbn [negb].
  - cbn [filter]. destruct (stop (label t)) eqn:S; cbn [negb].
    + rewrite prune_stopped by auto. reflexivity.
    + rewrite lo_loop_spec.
      * cbn [flat_map]. rewrite app_nil_r. reflexivity.
      * constructor; [split; auto|constructor].
      * cbn [flat_map]. rewrite app_nil_r. pose proof (hf_prune ml t 0). rewrite hn_theight in *.
        unfold lo_fuel. lia.
  - rewrite prune_not_below by auto. reflexivity.
Qed.

(** LevelOrderGroupIter's loop *)
Lemma log_loop_spec ml fuel : forall children d, Forall (adm ml d) children ->
  (hf (flat_map (prune stop ml d) children) < fuel)%nat ->
  log_loop f stop fuel ml (d + 1) children
  = Ok (map (filter f) (levels_forest (flat_map (prune stop ml d) children))).
Proof.
  induction fuel as [|fu IH]; intros children d A H; [lia|].
  cbn [log_loop]. destruct children as [|c0 cr] eqn:EC; [reflexivity|]. rewrite <- EC in *.
  assert (NE : children <> []) by (subst; congruence). clear EC c0 cr.
  pose proof (prune_level_nonempty ml d children A NE) as NP.
  rewrite (levels_forest_step _ NP), prune_level_labels, prune_level_kids by auto.
  cbn [map].
  pose proof (hf_kids _ NP) as HK. rewrite prune_level_kids in HK by auto.
  rewrite abort_below.
  destruct (below (d + 1) ml) eqn:B1; cbn [negb].
  - rewrite IH.
    + cbn [bind]. rewrite prune_get_children. reflexivity.
    + apply get_children_adm; auto.
    + rewrite prune_get_children. lia.
  - rewrite flat_prune_not_below by auto. reflexivity.
Qed.

Theorem group_spec ml t : LevelOrderGroupIter f stop ml t = Ok (spec_groups f stop ml t).
Proof.
  unfold LevelOrderGroupIter, spec_groups, init_children, get_children.
  change 1 with (0 + 1). rewrite abort_below.
  destruct (below 0 ml) eqn:B; cbn [negb].
  - cbn [filter]. destruct (stop (label t)) eqn:S; cbn [negb].
    + rewrite prune_stopped by auto. reflexivity.
    + rewrite log_loop_spec.
      * cbn [flat_map]. rewrite app_nil_r. reflexivity.
      * constructor; [split; auto|constructor].
      * cbn [flat_map]. rewrite app_nil_r. pose proof (hf_prune ml t 0). rewrite hn_theight in *.
        unfold lo_fuel. lia.
  - rewrite prune_not_below by auto. reflexivity.
Qed.

Lemma zigzag_same b gs : zigzag b gs = zigzag_spec b gs.
Proof. revert b; induction gs as [|g gs IH]; intros b; simpl; try rewrite IH; auto. Qed.

Theorem zigzag_spec_thm ml t : ZigZagGroupIter f stop ml t = Ok (spec_zigzag f stop ml t).
Proof.
  unfold ZigZagGroupIter, spec_zigzag, init_children, get_children.
  change 1 with (0 + 1). rewrite abort_below.
  destruct (below 0 ml) eqn:B; cbn [negb].
  - cbn [filter]. destruct (stop (label t)) eqn:S; cbn [negb].
    + unfold spec_groups. rewrite prune_stopped by auto. reflexivity.
    + rewrite group_spec. cbn [bind]. rewrite zigzag_same. reflexivity.
  - unfold spec_groups. rewrite prune_not_below by auto. reflexivity.
Qed.
End P.
