(** C18 over whole operation histories: what a program observes of a history
    of structural calls - each call's outcome and hook log, every intermediate
    forest, the final forest - does not depend on which mixin the classes are
    built on, as long as every argument is a tree node (or None as a parent). *)
Require Import AT.Model.Base AT.Model.Heap AT.Model.Mutate.
Require Import AT.Proofs.MutLockstep AT.Proofs.MutHistory.

(** what a history shows: per call its outcome, the hook log and the forest it leaves *)
Fixpoint trace (typed : bool) (h : heap) (cs : list call) : list (result unit * list event * heap) :=
  match cs with
  | [] => []
  | c :: r =>
      let rs := run_op typed (c_asrt c) (c_faults c) (c_fuel c) (c_op c) (start h) in
      (fst rs, log (snd rs), heap_of (snd rs)) :: trace typed (heap_of (snd rs)) r
  end.

Definition node_history (cs : list call) : Prop := Forall (fun c => node_op (c_op c)) cs.

Theorem trace_same : forall cs h, node_history cs -> trace true h cs = trace false h cs.
Proof.
  induction cs as [|c cs IH]; intros h N; simpl; [reflexivity|].
  inversion N as [|c' cs' Hc Hcs]; subst.
  rewrite (run_op_same (c_asrt c) (c_faults c) (c_fuel c) (c_op c) Hc (start h)).
  f_equal. apply IH; assumption.
Qed.

Theorem history_same : forall cs h, node_history cs ->
  fold_left (step true) cs h = fold_left (step false) cs h.
Proof.
  induction cs as [|c cs IH]; intros h N; simpl; [reflexivity|].
  inversion N as [|c' cs' Hc Hcs]; subst.
  unfold step at 2 4.
  rewrite (run_op_same (c_asrt c) (c_faults c) (c_fuel c) (c_op c) Hc (start h)).
  apply IH; assumption.
Qed.

(** the trace's last forest is the history's final forest *)
Lemma last_nonempty {A} (x : A) l d d' : last (x :: l) d = last (x :: l) d'.
Proof. revert x. induction l as [|y l IH]; intros x; [reflexivity|]. change (last (y :: l) d = last (y :: l) d'). apply IH. Qed.

Lemma trace_last typed : forall cs h,
  fold_left (step typed) cs h = last (map (fun x => snd x) (trace typed h cs)) h.
Proof.
  induction cs as [|c cs IH]; intros h; [reflexivity|].
  cbn [fold_left trace map]. rewrite IH. unfold step.
  destruct (trace typed _ cs) as [|x xs] eqn:E; [reflexivity|].
  cbn [map]. symmetry. etransitivity; [|apply last_nonempty]. reflexivity.
Qed.
