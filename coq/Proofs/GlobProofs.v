(** C08: the translated pattern matches exactly the declarative wildcard
    relation; the shared compiled-pattern cache is unobservable. *)
Require Import AT.Model.Base AT.Model.Rose AT.Model.Nav AT.Model.Resolver AT.Spec.ResolverSpec.
Require Import AT.Generated.Types AT.Generated.Extracted AT.Proofs.ListLemmas.

(** the table of __translate, as extracted from /repo on this run *)
Lemma tok_of_char_spec c :
  tok_of_char c = if N.eqb c 42 then [TStar] else if N.eqb c 63 then [TAny] else [TLit c].
Proof. unfold tok_of_char. destruct (N.eqb c 42); [reflexivity|]. destruct (N.eqb c 63); reflexivity. Qed.
Lemma anchored_ok : anchored = true. Proof. reflexivity. Qed.
Lemma dotall_ok : dotall = true. Proof. reflexivity. Qed.

Lemma translate_cons c p : translate (c :: p) = tok_of_char c ++ translate p.
Proof. unfold translate. cbn [flat_map]. rewrite app_assoc. reflexivity. Qed.
Lemma translate_nil : translate [] = [].
Proof. unfold translate. rewrite anchored_ok. reflexivity. Qed.

Section M.
Variable ic : bool.

Lemma any_ok_true x : any_ok x = true.
Proof. unfold any_ok. rewrite dotall_ok. reflexivity. Qed.

(** the regex the code compiles matches a name iff the wildcard pattern does:
    '*' any run, '?' exactly one character (newline included), any other
    character - regex metacharacters included - only itself, whole name *)
Theorem rmatch_translate p : forall n, rmatch ic (translate p) n = wild_b ic p n.
Proof.
  induction p as [|c p IH]; intros n.
  - rewrite translate_nil. destruct n; reflexivity.
  - rewrite translate_cons, tok_of_char_spec. cbn [wild_b].
    destruct (N.eqb c 42).
    + cbn [app rmatch]. induction n as [|x n IHn].
      * rewrite IH. reflexivity.
      * rewrite IH, any_ok_true. cbn [andb]. rewrite IHn. reflexivity.
    + destruct (N.eqb c 63).
      * cbn [app rmatch]. destruct n as [|x n]; [reflexivity|]. rewrite any_ok_true, IH. reflexivity.
      * cbn [app rmatch]. destruct n as [|x n]; [reflexivity|]. rewrite IH. reflexivity.
Qed.

(** the boolean matcher decides the declarative relation *)
Theorem wild_b_sound p : forall n, wild_b ic p n = true -> wild ic p n.
Proof.
  induction p as [|c p IH]; intros n H; cbn [wild_b] in H.
  - destruct n; [constructor|discriminate].
  - destruct (N.eqb_spec c 42) as [->|N1].
    + induction n as [|x n IHn].
      * apply orb_true_iff in H. destruct H as [H|H]; [|discriminate]. apply wild_star_skip. apply IH; auto.
      * apply orb_true_iff in H. destruct H as [H|H].
        -- apply wild_star_skip. apply IH; auto.
        -- apply wild_star_eat. apply IHn; auto.
    + destruct (N.eqb_spec c 63) as [->|N2].
      * destruct n as [|x n]; [discriminate|]. apply wild_qm. apply IH; auto.
      * destruct n as [|x n]; [discriminate|]. apply andb_true_iff in H. destruct H as [H1 H2].
        apply wild_lit; auto.
Qed.
Theorem wild_b_complete p n : wild ic p n -> wild_b ic p n = true.
Proof.
  induction 1 as [|p n H IH|p c n H IH|p c n H IH|x p c n N1 N2 E H IH]; cbn [wild_b].
  - reflexivity.
  - rewrite N.eqb_refl. destruct n; rewrite IH; reflexivity.
  - rewrite N.eqb_refl. cbn [wild_b] in IH. rewrite N.eqb_refl in IH. rewrite IH. apply orb_true_r.
  - replace (N.eqb 63 42) with false by reflexivity. rewrite N.eqb_refl. exact IH.
  - destruct (N.eqb_spec x 42); [contradiction|]. destruct (N.eqb_spec x 63); [contradiction|].
    rewrite E, IH. reflexivity.
Qed.
End M.

(** ---- the cache ---- *)
Lemma str_eqb_spec a b : str_eqb a b = true <-> a = b.
Proof. apply list_eqb_spec. intros x y. apply N.eqb_eq. Qed.
Lemma option_eqb_spec {A} (eqb : A -> A -> bool) :
  (forall x y, eqb x y = true <-> x = y) -> forall a b, option_eqb eqb a b = true <-> a = b.
Proof.
  intros H [x|] [y|]; simpl; split; intros E; try discriminate; try reflexivity.
  - apply H in E. congruence.
  - injection E as ->. apply H. reflexivity.
Qed.
Lemma ckey_eqb_spec a b : ckey_eqb a b = true <-> a = b.
Proof.
  destruct a as [a1 a2], b as [b1 b2]. unfold ckey_eqb. cbn [fst snd]. rewrite andb_true_iff.
  rewrite (option_eqb_spec str_eqb str_eqb_spec).
  rewrite (option_eqb_spec Bool.eqb (fun x y => conj (Bool.eqb_prop x y) (fun E => eq_ind_r (fun z => Bool.eqb z y = true) (Bool.eqb_reflx y) E))).
  split; [intros [-> ->]; reflexivity|intros [= -> ->]; auto].
Qed.
(** the key as extracted from /repo: both the pattern and the ignorecase flag *)
Lemma mk_key_inj p i q j : mk_key p i = mk_key q j -> p = q /\ i = j.
Proof. unfold mk_key. simpl. intros [= -> ->]. auto. Qed.

(** every cached entry is the compilation of its own key *)
Definition CacheInv (c : cache) : Prop :=
  forall k v, cache_find c k = Some v -> exists pat ic, k = mk_key pat ic /\ v = (translate pat, ic).

Lemma cache_inv_nil : CacheInv [].
Proof. intros k v H. discriminate H. Qed.

Theorem match_cached_transparent c ic name pat : CacheInv c ->
  fst (match_cached c ic name pat) = rmatch ic (translate pat) name /\
  CacheInv (snd (match_cached c ic name pat)).
Proof.
  intros I. unfold match_cached. destruct (cache_find c (mk_key pat ic)) as [[ts fl]|] eqn:F.
  - destruct (I _ _ F) as [pat' [ic' [E1 E2]]]. apply mk_key_inj in E1. destruct E1 as [-> ->].
    injection E2 as -> ->. split; [reflexivity|exact I].
  - cbn [fst snd]. split; [reflexivity|].
    intros k v H. cbn [cache_find] in H. destruct (ckey_eqb (mk_key pat ic) k) eqn:E.
    + apply ckey_eqb_spec in E. injection H as <-. eauto.
    + destruct (cache_full c); [discriminate H|]. apply I; auto.
Qed.

(** any history of __match calls by any resolvers (each with its own
    ignorecase), eviction included, returns what a cold cache would *)
Fixpoint run_history (c : cache) (calls : list (bool * str * str)) : list bool * cache :=
  match calls with
  | [] => ([], c)
  | (ic, name, pat) :: r =>
      let '(b, c1) := match_cached c ic name pat in
      let '(bs, c2) := run_history c1 r in (b :: bs, c2)
  end.
Theorem history_independent calls : forall c, CacheInv c ->
  fst (run_history c calls) = map (fun x => let '(ic, name, pat) := x in rmatch ic (translate pat) name) calls.
Proof.
  induction calls as [|[[ic name] pat] r IH]; intros c I; [reflexivity|]. cbn [run_history map].
  destruct (match_cached_transparent c ic name pat I) as [A B].
  destruct (match_cached c ic name pat) as [b c1]. cbn [fst snd] in *.
  specialize (IH c1 B). destruct (run_history c1 r) as [bs c2]. cbn [fst] in *. congruence.
Qed.
