(** C01 over whole operation histories, the boolean form of the invariant and
    the clauses of the statement derived from [Inv]. *)
Require Import AT.Model.Base AT.Model.Heap AT.Model.Mutate AT.Spec.MutSpec.
Require Import AT.Proofs.ListLemmas AT.Proofs.HeapLemmas AT.Proofs.MutInv.

(** a history: each call comes with its own mixin flavour is fixed per universe;
    fault oracle, assertion switch and re-entrancy fuel may differ per call *)
Record call := { c_op : op; c_faults : nat -> hookkind -> id -> bool; c_asrt : bool; c_fuel : nat }.

Definition step (typed : bool) (h : heap) (c : call) : heap :=
  heap_of (snd (run_op typed (c_asrt c) (c_faults c) (c_fuel c) (c_op c) (start h))).

(** every call names nodes that exist when it is made *)
Fixpoint valid_history (typed : bool) (h : heap) (cs : list call) : Prop :=
  match cs with
  | [] => True
  | c :: r => valid_op (length h) (c_op c) /\ valid_history typed (step typed h c) r
  end.

Lemma init_inv k : Inv (init k).
Proof.
  assert (G : forall m, get (init k) m = empty_cell).
  { intros m. unfold get, init. destruct (Nat.lt_ge_cases m k).
    - apply nth_repeat.
    - apply nth_overflow. rewrite repeat_length. auto. }
  assert (P : forall m, parent (init k) m = None) by (intros; unfold parent; rewrite G; auto).
  assert (C : forall m, children (init k) m = []) by (intros; unfold children; rewrite G; auto).
  constructor.
  - intros n p. rewrite P. discriminate.
  - intros p n. rewrite C. simpl. tauto.
  - intros n p. rewrite P, C. simpl. split; [discriminate|tauto].
  - intros p. rewrite C. constructor.
  - intros n. exists []. constructor. apply P.
Qed.

Theorem history_inv typed : forall cs h, Inv h -> valid_history typed h cs ->
  Inv (fold_left (step typed) cs h).
Proof.
  induction cs as [|c cs IH]; intros h I V; simpl; auto.
  destruct V as [V1 V2]. apply IH; auto.
  unfold step. apply run_op_inv; auto.
Qed.

(** ---- the clauses of the statement ---- *)
Section Clauses.
Variable h : heap.
Hypothesis I : Inv h.

Lemma count_id_In l n : NoDup l -> (count_id l n = 1 <-> In n l).
Proof.
  unfold count_id. induction 1 as [|x l Nx ND IH]; simpl; [split; [discriminate|tauto]|].
  destruct (Nat.eqb_spec n x) as [->|N]; simpl.
  - split; auto. intros _. f_equal.
    assert (E : filter (Nat.eqb x) l = []).
    { clear IH ND. induction l as [|y l IHl]; simpl; auto.
      destruct (Nat.eqb_spec x y) as [->|]; [exfalso; apply Nx; simpl; auto|]. apply IHl. intros H; apply Nx; simpl; auto. }
    rewrite E. reflexivity.
  - rewrite IH. split; auto. intros [E|H]; auto. congruence.
Qed.

(** n appears in p.children exactly once iff n.parent is p *)
Theorem exactly_once n p : count_id (children h p) n = 1 <-> parent h n = Some p.
Proof. rewrite count_id_In by apply (inv_nodup _ I). symmetry. apply (inv_link _ I). Qed.

(** ... and in no other node's children *)
Theorem one_parent n p q : In n (children h p) -> In n (children h q) -> p = q.
Proof. intros H1 H2. apply (inv_link _ I) in H1, H2. congruence. Qed.

(** following parent reaches a root in finitely many steps; no node is its
    own ancestor *)
Theorem reaches_root n : exists l, chain h n l /\ ~ In n l /\ NoDup l /\ length l <= length h.
Proof.
  destruct (inv_acyclic _ I n) as [l C]. exists l. destruct (chain_nodup _ _ _ C) as [A B].
  repeat split; auto. apply nodup_bounded_length; auto. apply (chain_bound _ _ _ I C).
Qed.
End Clauses.

(** ---- the boolean form evaluated on observed link maps ---- *)
Lemma nodup_ids_spec l : nodup_ids l = true <-> NoDup l.
Proof.
  induction l as [|x l IH]; simpl; [split; [constructor|auto]|].
  rewrite andb_true_iff, negb_true_iff, IH. split.
  - intros [A B]. constructor; auto. intros Hin. apply mem_In in Hin. congruence.
  - intros H. inversion H; subst. split; auto. destruct (mem l x) eqn:M; auto. apply mem_In in M. tauto.
Qed.

Lemma path_rev_ok_chain h : forall fuel x l, path_rev fuel h x = Ok l -> exists l', l = x :: l' /\ chain h x l'.
Proof.
  induction fuel as [|fu IH]; intros x l H; simpl in H; [discriminate|].
  destruct (parent h x) as [p|] eqn:P.
  - destruct (path_rev fu h p) as [r|e|] eqn:E; simpl in H; try discriminate. injection H as <-.
    destruct (IH _ _ E) as [l' [-> C]]. exists (p :: l'). split; auto. eapply chain_step; eauto.
  - injection H as <-. exists []. split; auto. constructor; auto.
Qed.

Theorem inv_b_sound h : inv_b h = true -> Inv h.
Proof.
  unfold inv_b. rewrite forallb_forall. intros H.
  assert (K : forall n, n < length h ->
     (match parent h n with Some p => p < length h /\ count_id (children h p) n = 1 | None => True end) /\
     (forall c, In c (children h n) -> c < length h /\ parent h c = Some n) /\
     NoDup (children h n) /\ (exists l, chain h n l)).
  { intros n Hn. specialize (H n). rewrite in_seq in H. specialize (H ltac:(lia)).
    rewrite !andb_true_iff in H. destruct H as [[[H1 H2] H3] H4]. repeat split.
    - destruct (parent h n) as [p|]; auto. rewrite andb_true_iff in H1. destruct H1 as [A B].
      apply Nat.ltb_lt in A. apply Nat.eqb_eq in B. auto.
    - rewrite forallb_forall in H2. specialize (H2 _ H). rewrite andb_true_iff in H2. apply Nat.ltb_lt. tauto.
    - rewrite forallb_forall in H2. specialize (H2 _ H). rewrite andb_true_iff in H2. destruct H2 as [_ B].
      destruct (parent h c) as [q|]; simpl in B; try discriminate. apply Nat.eqb_eq in B. subst q. reflexivity.
    - apply nodup_ids_spec; auto.
    - destruct (path_rev (walk_fuel h) h n) as [l|e|] eqn:E; try discriminate.
      destruct (path_rev_ok_chain _ _ _ _ E) as [l' [_ C]]. eauto. }
  assert (OUT : forall n, length h <= n -> get h n = empty_cell) by (intros; apply nth_overflow; auto).
  assert (PB : forall n p, parent h n = Some p -> n < length h).
  { intros n p P. destruct (Nat.lt_ge_cases n (length h)); auto. unfold parent in P. rewrite OUT in P by auto. discriminate. }
  assert (CB : forall p n, In n (children h p) -> p < length h).
  { intros p n C. destruct (Nat.lt_ge_cases p (length h)); auto. unfold children in C. rewrite OUT in C by auto. destruct C. }
  constructor.
  - intros n p P. pose proof (PB _ _ P) as Bn. split; auto. destruct (K n Bn) as [A _]. rewrite P in A. tauto.
  - intros p n C. pose proof (CB _ _ C) as Bp. split; auto. destruct (K p Bp) as [_ [A _]]. apply A; auto.
  - intros n p. split.
    + intros P. pose proof (PB _ _ P) as Bn. destruct (K n Bn) as [A _]. rewrite P in A. destruct A as [Bp Cn].
      destruct (K p Bp) as [_ [_ [ND _]]]. apply count_id_In in Cn; auto.
    + intros C. pose proof (CB _ _ C) as Bp. destruct (K p Bp) as [_ [A _]]. apply A; auto.
  - intros p. destruct (Nat.lt_ge_cases p (length h)) as [Bp|Bp].
    + destruct (K p Bp) as [_ [_ [ND _]]]. auto.
    + unfold children. rewrite OUT by auto. constructor.
  - intros n. destruct (Nat.lt_ge_cases n (length h)) as [Bn|Bn].
    + destruct (K n Bn) as [_ [_ [_ C]]]. auto.
    + exists []. constructor. unfold parent. rewrite OUT by auto. reflexivity.
Qed.

Theorem inv_b_complete h : Inv h -> inv_b h = true.
Proof.
  intros I. unfold inv_b. apply forallb_forall. intros n Hn. apply in_seq in Hn.
  rewrite !andb_true_iff. repeat split.
  - destruct (parent h n) as [p|] eqn:P; auto. rewrite andb_true_iff. split.
    + apply Nat.ltb_lt. apply (inv_bound_p _ I _ _ P).
    + apply Nat.eqb_eq. apply exactly_once; auto.
  - apply forallb_forall. intros c Hc. rewrite andb_true_iff. split.
    + apply Nat.ltb_lt. apply (inv_bound_c _ I _ _ Hc).
    + apply (inv_link _ I) in Hc. rewrite Hc. simpl. apply Nat.eqb_refl.
  - apply nodup_ids_spec. apply (inv_nodup _ I).
  - destruct (path_rev_inv h n I) as [l [_ E]]. rewrite E. reflexivity.
Qed.
