(** C09: widths of the prefixes, and the rows as a structural function of the
    rendered tree. *)
Require Import AT.Model.Base AT.Model.Rose AT.Model.Render AT.Spec.RenderSpec AT.Generated.Extracted.
Require Import AT.Proofs.ListLemmas.
Local Open Scope Z_scope.

Lemma concat_length_const {A} (l : list (list A)) w : Forall (fun x => length x = w) l -> length (concat l) = (length l * w)%nat.
Proof. induction 1 as [|x l Hx _ IH]; simpl; auto. rewrite app_length, Hx, IH. reflexivity. Qed.

Lemma removelast_length {A} (l : list A) : length (removelast l) = (length l - 1)%nat.
Proof.
  induction l as [|x l IH]; simpl; auto. destruct l as [|y l]; simpl in *; auto. rewrite IH. lia.
Qed.

Section W.
Variables (vertical cont end_ : str) (w : nat).
Hypothesis Hv : length vertical = w.
Hypothesis Hc : length cont = w.
Hypothesis He : length end_ = w.

(** with an equal-width style, pre and fill of a node at depth d are d segments wide *)
Theorem item_widths continues n :
  let '(pre, fill, _) := item vertical cont end_ continues n in
  length pre = (length continues * w)%nat /\ length fill = (length continues * w)%nat.
Proof.
  unfold item. destruct continues as [|c cs] eqn:E; [split; reflexivity|]. rewrite <- E.
  set (items := map (fun c : bool => if c then vertical else empty end_) continues).
  assert (F : Forall (fun x => length x = w) items).
  { unfold items. apply Forall_forall. intros x Hx. apply in_map_iff in Hx. destruct Hx as [b [<- _]].
    destruct b; auto. unfold empty. rewrite repeat_length. exact He. }
  assert (L : length items = length continues) by (unfold items; apply map_length).
  assert (FR : Forall (fun x => length x = w) (removelast items)).
  { clear -F. induction items as [|x l IH]; simpl; auto. destruct l as [|y l]; [constructor|].
    inversion F; subst. constructor; auto. }
  assert (LR : length (removelast items) = (length continues - 1)%nat) by (rewrite removelast_length, L; reflexivity).
  assert (NZ : (0 < length continues)%nat) by (subst continues; simpl; lia).
  split.
  - rewrite app_length, (concat_length_const _ w FR), LR.
    assert (BL : length (if last continues false then cont else end_) = w) by (destruct (last continues false); auto).
    rewrite BL. clear -NZ. destruct (length continues); [lia|]. simpl. rewrite Nat.sub_0_r. lia.
  - rewrite (concat_length_const _ w F), L. reflexivity.
Qed.
End W.

(** the four built-in styles are equal-width (constants extracted from /repo) *)
Theorem builtin_styles_equal_width :
  Forall (fun s : str * str * str => let '(v, c, e) := s in length v = length e /\ length c = length e)
         [style_ascii; style_cont; style_contround; style_double].
Proof. repeat constructor. Qed.

(** ---- rows as a structural function of the rendered tree ---- *)
Section Rows.
Variables (vertical cont end_ : str).

Fixpoint srows (conts : list bool) (R : tree) : list row :=
  match R with
  | T n cs =>
      item vertical cont end_ conts n ::
      (fix go (l : list tree) : list row :=
         match l with
         | [] => []
         | c :: r => srows (conts ++ [negb (match r with [] => true | _ => false end)]) c ++ go r
         end) cs
  end.

Definition srows_list (conts : list bool) : list tree -> list row :=
  fix go (l : list tree) : list row :=
    match l with
    | [] => []
    | c :: r => srows (conts ++ [negb (match r with [] => true | _ => false end)]) c ++ go r
    end.
Lemma srows_unfold conts n cs : srows conts (T n cs) = item vertical cont end_ conts n :: srows_list conts cs.
Proof. reflexivity. Qed.

Variable childiter : list tree -> list tree.
Variable maxlevel : option Z.

Lemma all_ok_concat (g : tree * bool -> result (list row)) (h : tree * bool -> list row) l :
  Forall (fun x => g x = Ok (h x)) l -> (rs <- all_ok (map g l) ;; Ok (concat rs)) = Ok (concat (map h l)).
Proof.
  intros H. assert (E : all_ok (map g l) = Ok (map h l)).
  { induction H as [|x l Hx _ IH]; simpl; auto. rewrite Hx, IH. reflexivity. }
  rewrite E. reflexivity.
Qed.

Lemma srows_list_pairs conts (F : tree -> tree) l :
  srows_list conts (map F l)
  = concat (map (fun ci : tree * bool => srows (conts ++ [negb (snd ci)]) (F (fst ci))) (is_last_pairs l)).
Proof.
  induction l as [|c r IH]; [reflexivity|]. cbn [map srows_list is_last_pairs].
  destruct r as [|c' r'].
  - simpl. rewrite app_nil_r. reflexivity.
  - cbn [map concat fst snd]. f_equal. exact IH.
Qed.

(** enough fuel for the rendered tree *)
Fixpoint enough (fuel : nat) (t : tree) (level : Z) : Prop :=
  match fuel with
  | O => False
  | S fu =>
      if (match maxlevel with None => true | Some m => level + 1 <? m end)
      then match kids t with [] => True | cs => Forall (fun c => enough fu c (level + 1)) (childiter cs) end
      else True
  end.

(** the generator yields the structural rows of the rendered tree *)
Theorem next_srows fuel : forall t conts level, enough fuel t level ->
  next childiter vertical cont end_ maxlevel fuel t conts level
  = Ok (srows conts (rendered childiter maxlevel fuel t level)).
Proof.
  induction fuel as [|fu IH]; intros t conts level E; [destruct E|].
  cbn [next rendered enough] in *. rewrite srows_unfold.
  destruct (match maxlevel with None => true | Some m => level + 1 <? m end).
  - destruct (kids t) as [|k ks] eqn:K; [reflexivity|].
    rewrite (all_ok_concat _ (fun ci => srows (conts ++ [negb (snd ci)]) (rendered childiter maxlevel fu (fst ci) (level + 1)))).
    + cbn [bind]. rewrite srows_list_pairs. reflexivity.
    + apply Forall_forall. intros [c b] Hc. cbn [fst snd]. apply IH.
      rewrite Forall_forall in E. apply E.
      clear -Hc. revert Hc. generalize (childiter (k :: ks)). intros l.
      induction l as [|x r IHl]; simpl; [tauto|]. destruct r as [|y r'].
      * simpl. intros [[= <- _]|[]]. auto.
      * intros [[= <- _]|H]; auto.
  - reflexivity.
Qed.

(** a childiter that only selects / reorders the given children never needs
    more fuel than the height of the tree *)
Lemma theight_in c cs : In c cs -> (S (theight c) <= theight (T 0%nat cs))%nat.
Proof.
  cbn [theight]. induction cs as [|x cs IH]; cbn [fold_right In]; [tauto|]. intros [->|H]; [lia|]. specialize (IH H). lia.
Qed.
Theorem enough_height : (forall l c, In c (childiter l) -> In c l) ->
  forall fuel t level, (theight t < fuel)%nat -> enough fuel t level.
Proof.
  intros Sub. induction fuel as [|fu IH]; intros t level H; [lia|]. cbn [enough].
  destruct (match maxlevel with None => true | Some m => level + 1 <? m end); [|exact Logic.I].
  destruct t as [n cs]. cbn [kids]. destruct cs as [|k ks]; [exact Logic.I|].
  apply Forall_forall. intros c Hc. apply IH. apply Sub in Hc.
  pose proof (theight_in c (k :: ks) Hc) as L. cbn [theight] in *. lia.
Qed.
End Rows.

(** ---- the structural rows are the pointwise rows of the statement ---- *)
Require Import AT.Model.Nav AT.Model.Resolver AT.Proofs.NavProofs.

Section Pointwise.
Variables (vertical cont end_ : str).
Variable R : tree.

Definition conts_of (p : pos) : list bool := map (fun j => has_next R (firstn (S j) p)) (seq 0 (length p)).

Lemma conts_of_snoc p i : conts_of (p ++ [i]) = conts_of p ++ [has_next R (p ++ [i])].
Proof.
  unfold conts_of. rewrite app_length. cbn [length]. rewrite Nat.add_1_r, seq_S, map_app. cbn [map]. f_equal.
  - apply map_ext_in. intros j Hj. apply in_seq in Hj. rewrite firstn_app.
    replace (S j - length p)%nat with 0%nat by lia. cbn [firstn]. rewrite app_nil_r. reflexivity.
  - cbn [plus]. rewrite firstn_all2 by (rewrite app_length; simpl; lia). reflexivity.
Qed.

Lemma empty_is_blank : empty end_ = blank end_.
Proof. reflexivity. Qed.

Lemma removelast_map {A B} (g : A -> B) l : removelast (map g l) = map g (removelast l).
Proof. induction l as [|x l IH]; simpl; auto. destruct l; simpl in *; auto. f_equal. exact IH. Qed.
Lemma removelast_seq n : removelast (seq 0 (S n)) = seq 0 n.
Proof. rewrite seq_S. apply removelast_last. Qed.
Lemma last_map_seq (g : nat -> bool) n : last (map g (seq 0 (S n))) false = g n.
Proof. rewrite seq_S, map_app. cbn [map]. apply last_last. Qed.

Lemma pre_spec_snoc q i :
  pre_spec vertical cont end_ R (q ++ [i])
  = concat (map (seg vertical end_ R (q ++ [i])) (seq 0 (length q))) ++ (if has_next R (q ++ [i]) then cont else end_).
Proof.
  unfold pre_spec. destruct (q ++ [i]) as [|x r] eqn:EQ; [destruct q; discriminate|]. rewrite <- EQ.
  rewrite app_length. cbn [length]. replace (length q + 1 - 1)%nat with (length q) by lia. reflexivity.
Qed.

Lemma item_snoc (cs : list bool) b n :
  item vertical cont end_ (cs ++ [b]) n
  = (concat (map (fun c : bool => if c then vertical else empty end_) cs) ++ (if b then cont else end_),
     concat (map (fun c : bool => if c then vertical else empty end_) (cs ++ [b])), n).
Proof.
  unfold item. destruct (cs ++ [b]) eqn:EQ; [destruct cs; discriminate|]. rewrite <- EQ.
  rewrite map_app. cbn [map]. rewrite removelast_last, last_last. reflexivity.
Qed.

Lemma item_pointwise p n :
  item vertical cont end_ (conts_of p) n = (pre_spec vertical cont end_ R p, fill_spec vertical end_ R p, n).
Proof.
  destruct (snoc_case p) as [->|[q [i ->]]]; [reflexivity|].
  rewrite conts_of_snoc, item_snoc, pre_spec_snoc. unfold fill_spec.
  assert (IT : forall pp, map (fun c : bool => if c then vertical else empty end_) (conts_of pp)
               = map (seg vertical end_ R pp) (seq 0 (length pp))).
  { intros pp. unfold conts_of. rewrite map_map. apply map_ext. intros j. unfold seg. rewrite empty_is_blank. reflexivity. }
  rewrite <- conts_of_snoc, IT. f_equal. f_equal. f_equal.
  - (* the first |q| segments of q ++ [i] are those of q *)
    f_equal. apply map_ext_in. intros j Hj. apply in_seq in Hj. unfold seg.
    rewrite firstn_app. replace (S j - length q)%nat with 0%nat by lia. cbn [firstn]. rewrite app_nil_r. reflexivity.
  - rewrite IT. reflexivity.
Qed.

(** child i of the subtree at p is the subtree at p ++ [i] *)
Lemma sub_child p i c : valid R p -> nth_error (kids (sub R p)) i = Some c -> sub R (p ++ [i]) = c.
Proof.
  unfold valid, sub. rewrite subtree_at_app. destruct (subtree_at R p) as [s|]; [|tauto]. intros _ H.
  simpl. rewrite H. reflexivity.
Qed.
Lemma valid_child p i c : valid R p -> nth_error (kids (sub R p)) i = Some c -> valid R (p ++ [i]).
Proof.
  unfold valid, sub. rewrite subtree_at_app. destruct (subtree_at R p) as [s|]; [|tauto]. intros _ H.
  simpl. rewrite H. discriminate.
Qed.

Theorem srows_pointwise S : forall p, valid R p -> sub R p = S ->
  srows vertical cont end_ (conts_of p) S
  = map (fun q => (pre_spec vertical cont end_ R q, fill_spec vertical end_ R q, label_at R q)) (pre_positions_t S p).
Proof.
  induction S as [n cs IH] using tree_ind'. intros p V E.
  rewrite srows_unfold. cbn [pre_positions_t map]. f_equal.
  - rewrite item_pointwise. unfold label_at. rewrite E. reflexivity.
  - (* the children, left to right; [off] = how many were already consumed *)
    assert (G : forall l off, (forall k c, nth_error l k = Some c -> nth_error cs (off + k) = Some c) ->
                Forall (fun t => forall p, valid R p -> sub R p = t ->
                          srows vertical cont end_ (conts_of p) t
                          = map (fun q => (pre_spec vertical cont end_ R q, fill_spec vertical end_ R q, label_at R q))
                                (pre_positions_t t p)) l ->
                length cs = (off + length l)%nat ->
                srows_list vertical cont end_ (conts_of p) l
                = map (fun q => (pre_spec vertical cont end_ R q, fill_spec vertical end_ R q, label_at R q))
                      ((fix go (l : list tree) (i : nat) : list pos :=
                          match l with [] => [] | c :: r => pre_positions_t c (p ++ [i]) ++ go r (Datatypes.S i) end) l off)).
    { induction l as [|c r IHl]; intros off Hn F Len; [reflexivity|]. cbn [srows_list]. rewrite map_app.
      inversion F as [|c' r' Hc Hr]; subst.
      assert (NC : nth_error (kids (sub R p)) off = Some c).
      { rewrite E. cbn [kids]. specialize (Hn 0%nat c eq_refl). rewrite Nat.add_0_r in Hn. exact Hn. }
      f_equal.
      - assert (HN : has_next R (p ++ [off]) = negb (match r with [] => true | _ => false end)).
        { unfold has_next. destruct (p ++ [off]) eqn:EQ; [destruct p; discriminate|]. rewrite <- EQ.
          rewrite last_last, removelast_last, E. cbn [kids]. rewrite Len. cbn [length].
          destruct r; cbn [length negb]; [apply Nat.ltb_ge; lia|apply Nat.ltb_lt; lia]. }
        rewrite <- HN, <- conts_of_snoc. apply Hc.
        + eapply valid_child; eauto.
        + eapply sub_child; eauto.
      - apply IHl; auto.
        + intros k c0 Hk. specialize (Hn (Datatypes.S k) c0 Hk). replace (Datatypes.S off + k)%nat with (off + Datatypes.S k)%nat by lia. exact Hn.
        + cbn [length] in Len. lia. }
    apply (G cs 0%nat); auto.
Qed.

Theorem srows_root : srows vertical cont end_ [] R = rows_spec vertical cont end_ R.
Proof.
  unfold rows_spec, pre_positions. change (sub R []) with R.
  apply (srows_pointwise R []); [discriminate|reflexivity].
Qed.
End Pointwise.

(** C09_rows: the rows RenderTree yields are, in pre-order of the rendered
    tree, (pre, fill, node) with the prefixes of the statement *)
Theorem render_rows_spec childiter vertical cont end_ maxlevel t :
  (forall l c, In c (childiter l) -> In c l) ->
  render_rows childiter vertical cont end_ maxlevel t
  = Ok (rows_spec vertical cont end_ (rendered childiter maxlevel (S (theight t)) t 0)).
Proof.
  intros Sub. unfold render_rows. rewrite next_srows by (apply enough_height; [exact Sub|lia]).
  rewrite srows_root. reflexivity.
Qed.
