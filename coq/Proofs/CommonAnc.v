(** C04: util.commonancestors = the prefixes of the longest common prefix of
    the parents' positions. *)
Require Import AT.Model.Base AT.Model.Rose AT.Model.Nav AT.Spec.NavSpec AT.Proofs.ListLemmas AT.Proofs.NavProofs.

Notation nonempty := (fun l : list pos => match l with [] => false | _ => true end).
Notation head := (fun l : list pos => hd [] l).

(** the zip-and-compare loop fused *)
Fixpoint lcps (fuel : nat) (ls : list (list pos)) : list pos :=
  match fuel with
  | O => []
  | S fu =>
      match ls with
      | [] => []
      | l0 :: rest =>
          if forallb nonempty ls
          then if forallb (pos_eqb (head l0)) (map head rest) then head l0 :: lcps fu (map (@tl pos) ls) else []
          else []
      end
  end.

Lemma take_common_zip fuel : forall ls, take_common (zip_all ls fuel) = lcps fuel ls.
Proof.
  induction fuel as [|fu IH]; intros ls; [reflexivity|]. cbn [zip_all lcps].
  destruct ls as [|l0 rest]; [reflexivity|].
  destruct (forallb nonempty (l0 :: rest)); [|reflexivity].
  cbn [take_common map]. cbv beta.
  destruct (forallb (pos_eqb (hd [] l0)) (map head rest)); [|reflexivity]. rewrite IH. reflexivity.
Qed.

Lemma pos_eqb_refl p : pos_eqb p p = true.
Proof. apply pos_eqb_spec. reflexivity. Qed.
Lemma pos_eqb_cons i a b : pos_eqb (i :: a) (i :: b) = pos_eqb a b.
Proof. unfold pos_eqb. cbn [list_eqb]. rewrite Nat.eqb_refl. reflexivity. Qed.

Lemma nonempty_map_cons i Ls : forallb nonempty (map (map (cons i)) Ls) = forallb nonempty Ls.
Proof. induction Ls as [|a r IH]; simpl; auto. rewrite IH. destruct a; reflexivity. Qed.
Lemma head_map_cons i (L : list pos) : nonempty L = true -> head (map (cons i) L) = i :: head L.
Proof. destruct L; [discriminate|reflexivity]. Qed.
Lemma heads_eq_map_cons i x Ls : forallb nonempty Ls = true ->
  forallb (pos_eqb (i :: x)) (map head (map (map (cons i)) Ls)) = forallb (pos_eqb x) (map head Ls).
Proof.
  induction Ls as [|a r IH]; intros H; simpl in *; auto. apply andb_true_iff in H. destruct H as [Ha Hr].
  rewrite (head_map_cons i a Ha), pos_eqb_cons, IH by auto. reflexivity.
Qed.
Lemma tl_map_cons i Ls : map (@tl pos) (map (map (cons i)) Ls) = map (map (cons i)) (map (@tl pos) Ls).
Proof. rewrite !map_map. apply map_ext. intros a. destruct a; reflexivity. Qed.

(** all lists share the mapped head index *)
Lemma lcps_cons_same fuel : forall (i : nat) (Ls : list (list pos)),
  lcps fuel (map (map (cons i)) Ls) = map (cons i) (lcps fuel Ls).
Proof.
  induction fuel as [|fu IH]; intros i Ls; [reflexivity|].
  destruct Ls as [|L0 rest]; [reflexivity|].
  change (map (map (cons i)) (L0 :: rest)) with (map (cons i) L0 :: map (map (cons i)) rest).
  cbn [lcps].
  change (map (cons i) L0 :: map (map (cons i)) rest) with (map (map (cons i)) (L0 :: rest)).
  rewrite nonempty_map_cons.
  destruct (forallb nonempty (L0 :: rest)) eqn:NE; [|reflexivity].
  cbn [forallb] in NE. apply andb_true_iff in NE. destruct NE as [N0 Nr].
  rewrite (head_map_cons i L0 N0), heads_eq_map_cons by auto.
  destruct (forallb (pos_eqb (head L0)) (map head rest)); [|reflexivity].
  cbn [map]. f_equal. rewrite tl_map_cons.
  replace (tl (map (cons i) L0)) with (map (cons i) (tl L0)) by (destruct L0; reflexivity).
  apply (IH i (tl L0 :: map (@tl _) rest)).
Qed.

(** ---- facts about the folded longest common prefix ---- *)
Lemma lcp_nil_r a : lcp a [] = [].
Proof. destruct a; reflexivity. Qed.
Lemma fold_lcp_nil rest : fold_left lcp rest [] = [].
Proof. induction rest as [|r rs IH]; simpl; auto. Qed.
Lemma fold_lcp_has_nil rest : forall q, In [] rest -> fold_left lcp rest q = [].
Proof.
  induction rest as [|r rs IH]; intros q H; [destruct H|]. simpl. destruct H as [->|H].
  - rewrite lcp_nil_r. apply fold_lcp_nil.
  - apply IH. exact H.
Qed.
Lemma fold_lcp_cons i rest' : forall q, fold_left lcp (map (cons i) rest') (i :: q) = i :: fold_left lcp rest' q.
Proof.
  induction rest' as [|r rs IH]; intros q; simpl; [reflexivity|]. rewrite Nat.eqb_refl. apply IH.
Qed.
Lemma fold_lcp_other_head i rest : forall a, (exists j q', In (j :: q') rest /\ j <> i) -> fold_left lcp rest (i :: a) = [].
Proof.
  induction rest as [|r rs IH]; intros a [j [q' [H N]]]; [destruct H|]. simpl.
  destruct r as [|k r']; [apply fold_lcp_nil|].
  destruct (Nat.eqb_spec i k) as [->|Nk].
  - apply IH. destruct H as [E|H]; [injection E as -> _; contradiction|]. eauto.
  - apply fold_lcp_nil.
Qed.

(** every list of positions either contains the empty one, or contains one
    with another head index, or is the image of [cons i] *)
Lemma classify i (rest : list pos) :
  In [] rest \/ (exists j q', In (j :: q') rest /\ j <> i) \/ exists rest', rest = map (cons i) rest'.
Proof.
  induction rest as [|r rs IH]; [right; right; exists []; reflexivity|].
  destruct r as [|j r']; [left; simpl; auto|].
  destruct IH as [H|[[k [q' [H N]]]|[rest' ->]]].
  - left. simpl. auto.
  - right. left. exists k, q'. simpl. auto.
  - destruct (Nat.eq_dec j i) as [->|N].
    + right. right. exists (r' :: rest'). reflexivity.
    + right. left. exists j, r'. simpl. auto.
Qed.

Lemma prefixes_nonempty (q : pos) : (fun l : list pos => match l with [] => false | _ => true end) (prefixes q) = true.
Proof. destruct q; reflexivity. Qed.
Lemma forallb_nonempty_prefixes (qs : list pos) :
  forallb (fun l : list pos => match l with [] => false | _ => true end) (map prefixes qs) = true.
Proof. induction qs as [|q qs IH]; simpl; auto. rewrite IH. destruct q; reflexivity. Qed.
Lemma heads_prefixes (qs : list pos) : forallb (pos_eqb []) (map (fun l : list pos => hd [] l) (map prefixes qs)) = true.
Proof. induction qs as [|q qs IH]; simpl; auto. rewrite IH. destruct q; reflexivity. Qed.
Lemma tl_prefixes_cons i (q : pos) : tl (prefixes (i :: q)) = map (cons i) (prefixes q).
Proof. reflexivity. Qed.

(** the fused loop on the ancestor lists = the prefixes of the common prefix *)
Theorem lcps_prefixes q0 : forall rest fuel, length q0 + 2 <= fuel ->
  lcps fuel (prefixes q0 :: map prefixes rest) = prefixes (fold_left lcp rest q0).
Proof.
  induction q0 as [|i q0' IH]; intros rest fuel Hf.
  - rewrite fold_lcp_nil. destruct fuel as [|fu]; [simpl in Hf; lia|]. cbn [lcps].
    change (prefixes [] :: map prefixes rest) with (map prefixes ([] :: rest)).
    rewrite forallb_nonempty_prefixes. cbn [map prefixes hd]. rewrite heads_prefixes.
    destruct fu as [|fu']; [simpl in Hf; lia|]. reflexivity.
  - destruct fuel as [|fu]; [lia|]. cbn [lcps].
    change (prefixes (i :: q0') :: map prefixes rest) with (map prefixes ((i :: q0') :: rest)).
    rewrite forallb_nonempty_prefixes. cbn [map]. cbn [prefixes hd]. rewrite heads_prefixes.
    cbn [tl].
    destruct (classify i rest) as [H|[H|[rest' ->]]].
    + (* some node is the root's child-less... its parent position is empty *)
      rewrite (fold_lcp_has_nil rest _ H). cbn [prefixes].
      destruct fu as [|fu']; [lia|]. cbn [lcps].
      assert (F : forallb (fun l : list pos => match l with [] => false | _ => true end)
                    (map (cons i) (prefixes q0') :: map (@tl pos) (map prefixes rest)) = false).
      { cbn [forallb]. apply andb_false_iff. right. clear -H. induction rest as [|r rs IHr]; [destruct H|].
        simpl. destruct H as [->|H]; [reflexivity|]. rewrite IHr by auto. apply andb_false_r. }
      rewrite F. reflexivity.
    + rewrite (fold_lcp_other_head i rest q0' H). cbn [prefixes].
      destruct fu as [|fu']; [lia|]. cbn [lcps].
      destruct (forallb _ (map (cons i) (prefixes q0') :: map (@tl pos) (map prefixes rest))); [|reflexivity].
      assert (F : forallb (pos_eqb (hd [] (map (cons i) (prefixes q0'))))
                    (map (fun l : list pos => hd [] l) (map (@tl pos) (map prefixes rest))) = false).
      { destruct H as [j [q' [Hin N]]]. clear -Hin N. induction rest as [|r rs IHr]; [destruct Hin|].
        simpl. destruct Hin as [->|Hin].
        - cbn [prefixes tl]. destruct q0'; destruct q'; cbn; destruct (Nat.eqb_spec i j); try congruence; reflexivity.
        - rewrite IHr by auto. apply andb_false_r. }
      rewrite F. reflexivity.
    + rewrite fold_lcp_cons. cbn [prefixes]. f_equal.
      assert (T : map (@tl pos) (map prefixes (map (cons i) rest')) = map (map (cons i)) (map prefixes rest')).
      { rewrite !map_map. apply map_ext. intros a. reflexivity. }
      rewrite T.
      change (map (cons i) (prefixes q0') :: map (map (cons i)) (map prefixes rest'))
        with (map (map (cons i)) (prefixes q0' :: map prefixes rest')).
      rewrite lcps_cons_same. f_equal. apply IH. simpl in Hf. lia.
Qed.

(** ---- util.commonancestors ---- *)
Lemma ancestors_pos_spec p : ancestors_pos p = Ok (match p with [] => [] | _ => prefixes (removelast p) end).
Proof.
  unfold ancestors_pos. destruct (snoc_case p) as [->|[q [i ->]]]; [reflexivity|].
  rewrite parent_pos_snoc, path_pos_spec. destruct (q ++ [i]) eqn:E; [destruct q; discriminate|].
  rewrite <- E, removelast_last. reflexivity.
Qed.
Lemma all_ok_map_ok {A B} (g : A -> result B) (h : A -> B) l : (forall x, g x = Ok (h x)) -> all_ok (map g l) = Ok (map h l).
Proof. intros H. induction l as [|x l IH]; simpl; auto. rewrite H, IH. reflexivity. Qed.

Lemma max_ge_in (ls : list (list pos)) l : In l ls -> length l <= fold_right (fun l acc => Nat.max (length l) acc) 0 ls.
Proof. induction ls as [|a r IH]; simpl; [tauto|]. intros [->|H]; [lia|]. specialize (IH H). lia. Qed.

Theorem commonancestors_ok t ps : commonancestors t ps = Ok (commonancestors_spec t ps).
Proof.
  unfold commonancestors, commonancestors_spec.
  rewrite (all_ok_map_ok _ _ ps ancestors_pos_spec). cbn [bind]. f_equal.
  destruct ps as [|p0 ps']; [reflexivity|].
  set (anc := map (fun p : pos => match p with [] => [] | _ => prefixes (removelast p) end) (p0 :: ps')).
  rewrite take_common_zip.
  destruct (existsb (fun p : pos => match p with [] => true | _ => false end) (p0 :: ps')) eqn:EX.
  - (* a root among the arguments: its ancestor list is empty, zip() yields nothing *)
    cbn [lcps]. unfold anc at 1. cbn [map]. fold anc.
    assert (F : forallb (fun l : list pos => match l with [] => false | _ => true end) anc = false).
    { unfold anc. clear -EX. induction (p0 :: ps') as [|a r IH]; [discriminate|]. simpl in *.
      destruct a; [reflexivity|]. simpl in EX. rewrite IH by auto. apply andb_false_r. }
    rewrite F. reflexivity.
  - assert (NE : forall p, In p (p0 :: ps') -> p <> []).
    { intros p Hp E. subst p. assert (existsb (fun p : pos => match p with [] => true | _ => false end) (p0 :: ps') = true).
      { apply existsb_exists. exists []. auto. } congruence. }
    assert (A : anc = map prefixes (map (@removelast nat) (p0 :: ps'))).
    { unfold anc. rewrite map_map. apply map_ext_in. intros p Hp. destruct p; [exfalso; apply (NE [] Hp); reflexivity|reflexivity]. }
    rewrite A. cbn [map lcp_all]. f_equal. apply lcps_prefixes.
    pose proof (max_ge_in anc (prefixes (removelast p0))) as M.
    rewrite A in M. cbn [map] in M. specialize (M (or_introl eq_refl)). rewrite prefixes_length in M.
    lia.
Qed.
