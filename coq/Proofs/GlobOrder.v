(** C08: order and duplicate-freeness of the relaxed glob result.
    - without '**' and '..' the result is a subsequence of the pre-order of the
      start node's subtree (hence in tree pre-order and duplicate-free);
    - the result is duplicate-free whenever no '..' follows a name / wildcard
      component (a '**' component de-duplicates everything behind it). *)
Require Import AT.Model.Base AT.Model.Rose AT.Model.Nav AT.Model.Resolver AT.Spec.ResolverSpec.
Require Import AT.Generated.Extracted AT.Proofs.ListLemmas AT.Proofs.NavProofs AT.Proofs.GlobProofs.
Require Import AT.Proofs.GlobDen AT.Proofs.IterOrder.

Lemma NoDup_app_intro {A} (a b : list A) : NoDup a -> NoDup b -> (forall x, In x a -> In x b -> False) -> NoDup (a ++ b).
Proof.
  induction a as [|x a IH]; intros Ha Hb Hd; [exact Hb|]. inversion Ha as [|x' a' Hx Ha']; subst.
  cbn [app]. constructor.
  - rewrite in_app_iff. intros [H|H]; [auto|]. apply (Hd x); [left; reflexivity|exact H].
  - apply IH; auto. intros y H1 H2. apply (Hd y); [right; exact H1|exact H2].
Qed.

Lemma flat_map_ext_in {A B} (g h : A -> list B) l : (forall x, In x l -> g x = h x) -> flat_map g l = flat_map h l.
Proof. intros H. apply flat_map_ext_Forall. apply Forall_forall. exact H. Qed.

Lemma flat_map_map {A B C} (f : B -> list C) (g : A -> B) l : flat_map f (map g l) = flat_map (fun x => f (g x)) l.
Proof. induction l as [|x l IH]; simpl; congruence. Qed.

Section O.
Variable nm : id -> str.
Variable ic : bool.
Variable t : tree.

Notation G := (glob_rec nm ic true t).
Notation gl := (GlobDen.gl nm ic t).
Notation PP := (pre_positions t).

(** ---- unfolding equations of the relaxed result ---- *)
Lemma gl_nil p : gl [] p = [p].
Proof. reflexivity. Qed.

Lemma gl_dotdot name rest p : str_eqb name s_dotdot = true ->
  gl (name :: rest) p = match p with [] => [] | _ => gl rest (removelast p) end.
Proof.
  intros E. unfold GlobDen.gl. cbn [glob_rec]. change dotdot with s_dotdot. rewrite E.
  destruct p as [|i p']; reflexivity.
Qed.

Lemma gl_stay name rest p : str_eqb name s_dotdot = false -> str_eqb name [] || str_eqb name s_dot = true ->
  gl (name :: rest) p = gl rest p.
Proof.
  intros E1 E2. unfold GlobDen.gl. cbn [glob_rec]. change dotdot with s_dotdot. rewrite E1, is_lit_stay, E2. reflexivity.
Qed.

Lemma gl_starstar name rest p : str_eqb name s_dotdot = false -> str_eqb name [] || str_eqb name s_dot = false ->
  str_eqb name s_starstar = true ->
  gl (name :: rest) p = fold_left (fun acc sub => add_new acc (gl rest sub)) (PP p) [].
Proof.
  intros E1 E2 E3. unfold GlobDen.gl at 1. cbn [glob_rec]. change dotdot with s_dotdot. change starstar with s_starstar.
  rewrite E1, is_lit_stay, E2, E3.
  rewrite (starstar_fold (gl rest) _ _ (G_gl nm ic t rest)). reflexivity.
Qed.

Lemma gl_name name rest p : str_eqb name s_dotdot = false -> str_eqb name [] || str_eqb name s_dot = false ->
  str_eqb name s_starstar = false ->
  gl (name :: rest) p
  = flat_map (fun c => if wmatch ic (name_at nm t c) name then gl rest c else []) (children_pos t p).
Proof.
  intros E1 E2 E3. unfold GlobDen.gl at 1. cbn [glob_rec]. change dotdot with s_dotdot. change starstar with s_starstar.
  rewrite E1, is_lit_stay, E2, E3.
  assert (K : forall l : list pos,
            match (match l with [] => if negb (is_wildcard name) && negb true then Err ChildResolverError else Ok [] | _ :: _ => Ok l end)
            with Ok l' => l' | _ => [] end = l).
  { intros [|a l]; [rewrite andb_false_r|]; reflexivity. }
  destruct rest as [|r0 rest'].
  - rewrite (find_fold (fun c => wmatch ic (name_at nm t c) name) (fun _ => []) (fun _ => Ok []) true (fun _ m => Ok m)); [|reflexivity].
    cbn [bind app]. rewrite K. reflexivity.
  - match goal with |- context [fold_left ?F ?cs (Ok [])] =>
      assert (E0 : fold_left F cs (Ok []) =
                  Ok ([] ++ flat_map (fun c => if wmatch ic (name_at nm t c) name
                                               then (if false then [c] else gl (r0 :: rest') c) else []) cs))
    end.
    { rewrite <- (find_fold (fun c => wmatch ic (name_at nm t c) name) _ (G (r0 :: rest')) false
                     (fun e m => if is_wildcard name then Ok m else Err e)); [|apply G_gl].
      reflexivity. }
    rewrite E0. cbn [bind app]. rewrite K. reflexivity.
Qed.

(** ---- the pre-order of positions ---- *)
Lemma sub_snoc p i : i < length (kids (sub t p)) -> sub t (p ++ [i]) = nth i (kids (sub t p)) (T 0 []).
Proof.
  unfold sub. rewrite subtree_at_app. destruct (subtree_at t p) as [s|]; [|simpl; lia].
  intros H. simpl. destruct (nth_error (kids s) i) eqn:E.
  - symmetry. apply nth_error_nth. exact E.
  - apply nth_error_None in E. lia.
Qed.

Lemma go_flat p : forall (l : list tree) (i : nat),
  (fix go (l : list tree) (i : nat) : list pos :=
     match l with [] => [] | c :: r => pre_positions_t c (p ++ [i]) ++ go r (S i) end) l i
  = flat_map (fun j => pre_positions_t (nth (j - i) l (T 0 [])) (p ++ [j])) (seq i (length l)).
Proof.
  induction l as [|c r IH]; intros i; [reflexivity|].
  cbn [length seq flat_map]. rewrite Nat.sub_diag. cbn [nth]. f_equal. rewrite IH.
  apply flat_map_ext_in. intros j Hj. apply in_seq in Hj.
  replace (j - i) with (S (j - S i)) by lia. reflexivity.
Qed.

Lemma pre_positions_unfold p : PP p = p :: flat_map PP (children_pos t p).
Proof.
  unfold pre_positions at 1. destruct (sub t p) as [n cs] eqn:E. cbn [pre_positions_t]. f_equal.
  rewrite go_flat. unfold children_pos. rewrite E. cbn [kids]. rewrite flat_map_map.
  apply flat_map_ext_in. intros j Hj. apply in_seq in Hj. unfold pre_positions.
  rewrite sub_snoc by (rewrite E; cbn [kids]; lia). rewrite E. cbn [kids]. rewrite Nat.sub_0_r. reflexivity.
Qed.

Lemma pre_positions_t_ext s : forall p x, In x (pre_positions_t s p) -> exists r, x = p ++ r.
Proof.
  induction s as [n cs IH] using tree_ind'. intros p x. cbn [pre_positions_t]. rewrite go_flat.
  intros [<-|H]; [exists []; rewrite app_nil_r; reflexivity|].
  apply in_flat_map in H. destruct H as [j [Hj Hx]]. apply in_seq in Hj.
  rewrite Forall_forall in IH. apply IH in Hx.
  - destruct Hx as [r ->]. exists (j :: r). rewrite <- app_assoc. reflexivity.
  - apply nth_In. lia.
Qed.
Lemma PP_ext p x : In x (PP p) -> exists r, x = p ++ r.
Proof. apply pre_positions_t_ext. Qed.

Lemma disjoint_ext p i j (a b : list pos) : i <> j ->
  (forall x, In x a -> exists r, x = (p ++ [i]) ++ r) -> (forall x, In x b -> exists r, x = (p ++ [j]) ++ r) ->
  forall x, In x a -> In x b -> False.
Proof.
  intros N Ha Hb x H1 H2. destruct (Ha x H1) as [r1 E1]. destruct (Hb x H2) as [r2 E2].
  rewrite E1 in E2. rewrite <- !app_assoc in E2. apply app_inv_head in E2. simpl in E2. congruence.
Qed.

(** a flat_map over the children positions of duplicate-free, position-extending lists is duplicate-free *)
Lemma NoDup_flat_children (f : pos -> list pos) p :
  (forall c, NoDup (f c)) -> (forall c x, In x (f c) -> exists r, x = c ++ r) ->
  NoDup (flat_map f (children_pos t p)).
Proof.
  intros Hn He. unfold children_pos. generalize (length (kids (sub t p))) as n. intros n.
  assert (K : forall k i, NoDup (flat_map f (map (fun i => p ++ [i]) (seq i k))) /\
                          forall x, In x (flat_map f (map (fun i => p ++ [i]) (seq i k))) -> exists j r, i <= j /\ x = (p ++ [j]) ++ r).
  { induction k as [|k IH]; intros i; cbn [seq map flat_map].
    - split; [constructor|intros x []].
    - destruct (IH (S i)) as [N1 E1]. split.
      + apply NoDup_app_intro; [apply Hn|exact N1|].
        intros x H1 H2. destruct (E1 x H2) as [j [r [Hj E]]].
        apply (disjoint_ext p i j (f (p ++ [i])) [x]) with (x := x); [lia|apply He| |exact H1|left; reflexivity].
        intros y [<-|[]]. exists r. exact E.
      + intros x H. apply in_app_or in H. destruct H as [H|H].
        * destruct (He _ _ H) as [r E]. exists i, r. split; [lia|exact E].
        * destruct (E1 x H) as [j [r [Hj E]]]. exists j, r. split; [lia|exact E]. }
  apply K.
Qed.

Lemma PP_nodup p : NoDup (PP p).
Proof.
  unfold pre_positions. generalize (sub t p). intros s. revert p.
  induction s as [n cs IH] using tree_ind'. intros p. cbn [pre_positions_t]. rewrite go_flat. constructor.
  - intros H. apply in_flat_map in H. destruct H as [j [_ Hx]]. apply pre_positions_t_ext in Hx.
    destruct Hx as [r E]. rewrite <- app_assoc in E. rewrite <- (app_nil_r p) in E at 1. apply app_inv_head in E. discriminate.
  - assert (K : forall k i, i + k <= length cs ->
              NoDup (flat_map (fun j => pre_positions_t (nth (j - 0) cs (T 0 [])) (p ++ [j])) (seq i k)) /\
              forall x, In x (flat_map (fun j => pre_positions_t (nth (j - 0) cs (T 0 [])) (p ++ [j])) (seq i k)) ->
                        exists j r, i <= j /\ x = (p ++ [j]) ++ r).
    { induction k as [|k IHk]; intros i Hi; cbn [seq flat_map].
      - split; [constructor|intros x []].
      - destruct (IHk (S i)) as [N1 E1]; [lia|]. split.
        + apply NoDup_app_intro; [|exact N1|].
          * rewrite Forall_forall in IH. apply IH. apply nth_In. lia.
          * intros x H1 H2. destruct (E1 x H2) as [j [r [Hj E]]].
            apply pre_positions_t_ext in H1. destruct H1 as [r1 E1'].
            rewrite E1' in E. rewrite <- !app_assoc in E. apply app_inv_head in E. simpl in E. injection E. lia.
        + intros x H. apply in_app_or in H. destruct H as [H|H].
          * apply pre_positions_t_ext in H. destruct H as [r E]. exists i, r. split; [lia|exact E].
          * destruct (E1 x H) as [j [r [Hj E]]]. exists j, r. split; [lia|exact E]. }
    apply K. lia.
Qed.

(** ---- results extend the start position when no '..' occurs ---- *)
Definition nodd (comps : list str) : bool := forallb (fun c => negb (str_eqb c s_dotdot)) comps.

Lemma add_new_fold_In (g : pos -> list pos) subs : forall a x,
  In x (fold_left (fun acc sub => add_new acc (g sub)) subs a) <-> In x a \/ exists s, In s subs /\ In x (g s).
Proof. apply starstar_In. Qed.

Lemma gl_ext comps : nodd comps = true -> forall p x, In x (gl comps p) -> exists r, x = p ++ r.
Proof.
  induction comps as [|name rest IH]; intros Hn p x Hx.
  - destruct Hx as [<-|[]]. exists []. rewrite app_nil_r. reflexivity.
  - cbn [nodd forallb] in Hn. apply andb_prop in Hn. destruct Hn as [Hd Hn]. apply negb_true_iff in Hd.
    destruct (str_eqb name [] || str_eqb name s_dot) eqn:Es.
    { rewrite gl_stay in Hx by assumption. apply IH; assumption. }
    destruct (str_eqb name s_starstar) eqn:Ess.
    { rewrite gl_starstar in Hx by assumption. apply add_new_fold_In in Hx. destruct Hx as [[]|[s [Hs Hx]]].
      apply PP_ext in Hs. destruct Hs as [r1 ->]. apply IH in Hx; [|exact Hn]. destruct Hx as [r2 ->].
      exists (r1 ++ r2). rewrite app_assoc. reflexivity. }
    rewrite gl_name in Hx by assumption. apply in_flat_map in Hx. destruct Hx as [c [Hc Hx]].
    destruct (wmatch ic (name_at nm t c) name); [|destruct Hx].
    apply IH in Hx; [|exact Hn]. destruct Hx as [r ->].
    unfold children_pos in Hc. apply in_map_iff in Hc. destruct Hc as [i [<- _]].
    exists (i :: r). rewrite <- app_assoc. reflexivity.
Qed.

(** ---- pre-order ---- *)
Definition plain (comps : list str) : bool :=
  forallb (fun c => negb (str_eqb c s_dotdot) && negb (str_eqb c s_starstar)) comps.

Theorem relaxed_preorder comps : plain comps = true -> forall p, Subseq (gl comps p) (PP p).
Proof.
  induction comps as [|name rest IH]; intros Hp p.
  - rewrite gl_nil, pre_positions_unfold. apply sub_take. apply sub_nil.
  - cbn [plain forallb] in Hp. apply andb_prop in Hp. destruct Hp as [Hc Hp]. apply andb_prop in Hc.
    destruct Hc as [Hd Hs]. apply negb_true_iff in Hd. apply negb_true_iff in Hs.
    destruct (str_eqb name [] || str_eqb name s_dot) eqn:Es.
    { rewrite gl_stay by assumption. apply IH. exact Hp. }
    rewrite gl_name by assumption. rewrite pre_positions_unfold. apply sub_skip.
    apply Subseq_flat_map. apply Forall_forall. intros c _. destruct (wmatch ic (name_at nm t c) name); [apply IH; exact Hp|apply sub_nil].
Qed.

(** ---- no duplicates ---- *)
Lemma add_new_nodup ms : forall a, NoDup a -> NoDup (add_new a ms).
Proof.
  unfold add_new. induction ms as [|m ms IH]; intros a Ha; cbn [fold_left]; [exact Ha|].
  apply IH. destruct (mem_pos a m) eqn:M; [exact Ha|].
  apply NoDup_app_intro; [exact Ha|repeat constructor; intros []|].
  intros x H1 [<-|[]]. apply mem_pos_In in H1. congruence.
Qed.
Lemma add_new_fold_nodup (g : pos -> list pos) subs : forall a, NoDup a ->
  NoDup (fold_left (fun acc sub => add_new acc (g sub)) subs a).
Proof. induction subs as [|s subs IH]; intros a Ha; cbn [fold_left]; [exact Ha|]. apply IH. apply add_new_nodup. exact Ha. Qed.

(** the guard of the statement: no '..' follows a name or wildcard component
    (everything behind a '**' is de-duplicated by the '**' loop itself) *)
Fixpoint nodup_guard (comps : list str) : bool :=
  match comps with
  | [] => true
  | c :: r =>
      if str_eqb c s_dotdot then nodup_guard r
      else if str_eqb c [] || str_eqb c s_dot then nodup_guard r
      else if str_eqb c s_starstar then true
      else nodd r
  end.

Lemma nodd_guard comps : nodd comps = true -> nodup_guard comps = true.
Proof.
  induction comps as [|c r IH]; [reflexivity|]. cbn [nodd forallb nodup_guard]. intros H. apply andb_prop in H.
  destruct H as [Hd Hr]. apply negb_true_iff in Hd. rewrite Hd.
  destruct (str_eqb c [] || str_eqb c s_dot); [apply IH; exact Hr|]. destruct (str_eqb c s_starstar); [reflexivity|exact Hr].
Qed.

Theorem relaxed_nodup comps : nodup_guard comps = true -> forall p, NoDup (gl comps p).
Proof.
  induction comps as [|name rest IH]; intros Hg p.
  - rewrite gl_nil. repeat constructor. intros [].
  - cbn [nodup_guard] in Hg. destruct (str_eqb name s_dotdot) eqn:Ed.
    { rewrite gl_dotdot by assumption. destruct p; [constructor|apply IH; exact Hg]. }
    destruct (str_eqb name [] || str_eqb name s_dot) eqn:Es.
    { rewrite gl_stay by assumption. apply IH. exact Hg. }
    destruct (str_eqb name s_starstar) eqn:Ess.
    { rewrite gl_starstar by assumption. apply add_new_fold_nodup. constructor. }
    rewrite gl_name by assumption. apply NoDup_flat_children.
    + intros c. destruct (wmatch ic (name_at nm t c) name); [|constructor]. apply IH. apply nodd_guard. exact Hg.
    + intros c x Hx. destruct (wmatch ic (name_at nm t c) name); [|destruct Hx]. apply gl_ext in Hx; assumption.
Qed.
End O.

(** the guard in the words of the statement: behind every name / wildcard
    component (anything but '..', '', '.', '**') there is no '..' *)
Definition is_namecomp (c : str) : bool :=
  negb (str_eqb c s_dotdot) && negb (str_eqb c [] || str_eqb c s_dot) && negb (str_eqb c s_starstar).
Lemma guard_of_statement comps :
  (forall pre c post, comps = pre ++ c :: post -> is_namecomp c = true -> nodd post = true) ->
  nodup_guard comps = true.
Proof.
  induction comps as [|c r IH]; intros H; [reflexivity|]. cbn [nodup_guard].
  assert (Hr : forall pre c' post, r = pre ++ c' :: post -> is_namecomp c' = true -> nodd post = true).
  { intros pre c' post E. apply (H (c :: pre)). rewrite E. reflexivity. }
  destruct (str_eqb c s_dotdot) eqn:E1; [apply IH; exact Hr|].
  destruct (str_eqb c [] || str_eqb c s_dot) eqn:E2; [apply IH; exact Hr|].
  destruct (str_eqb c s_starstar) eqn:E3; [reflexivity|].
  apply (H [] c r); [reflexivity|]. unfold is_namecomp. rewrite E1, E2, E3. reflexivity.
Qed.
