(** The children setter in full (fault-free, accepted call): exact outcome,
    final state and hook log; the internal assertion holds. *)
Require Import AT.Model.Base AT.Model.Heap AT.Model.Mutate AT.Spec.MutSpec.
Require Import AT.Proofs.ListLemmas AT.Proofs.HeapLemmas AT.Proofs.MutInv AT.Proofs.MutHistory AT.Proofs.MutParent AT.Proofs.MutDelRun AT.Proofs.MutChildren.

(** ---- validation ---- *)
Lemma check_children_ok typed xs : forall seen s, NoDup xs -> (forall x, In x xs -> ~ In x seen) ->
  check_children typed seen (map VNode xs) s = (Ok tt, s).
Proof.
  induction xs as [|x xs IH]; intros seen s ND NI; cbn [map check_children]; [reflexivity|].
  assert (M : mem seen x = false).
  { destruct (mem seen x) eqn:E; auto. apply mem_In in E. exfalso. apply (NI x); simpl; auto. }
  rewrite M. inversion ND; subst. apply IH; auto.
  intros y Hy [<-|H]; [contradiction|]. apply (NI y); simpl; auto.
Qed.
Lemma value_ids_map xs : value_ids (map VNode xs) = xs.
Proof. induction xs as [|x xs IH]; simpl; auto. f_equal. exact IH. Qed.

(** ---- pointwise description of one parent assignment ---- *)
Lemma eff_length h n v : length (eff_set_parent h n v) = length h.
Proof. unfold eff_set_parent. destruct (oid_eqb (parent h n) v); auto. apply build_heap_length. Qed.

Lemma parent_out (h : heap) m : length h <= m -> parent h m = None.
Proof. intros H. unfold parent, get. rewrite nth_overflow; auto. Qed.
Lemma children_out (h : heap) m : length h <= m -> children h m = [].
Proof. intros H. unfold children, get. rewrite nth_overflow; auto. Qed.

Lemma eff_parent h n v m : n < length h ->
  parent (eff_set_parent h n v) m = if Nat.eqb m n then v else parent h m.
Proof.
  intros Hn. unfold eff_set_parent. destruct (oid_eqb (parent h n) v) eqn:E.
  - apply oid_eqb_spec in E. destruct (Nat.eqb_spec m n) as [->|]; auto.
  - destruct (Nat.lt_ge_cases m (length h)) as [Hm|Hm].
    + match goal with |- parent (build_heap ?len ?par ?chi) m = _ => destruct (build_heap_get len par chi m Hm) as [A _]; rewrite A end.
      reflexivity.
    + rewrite parent_out by (rewrite build_heap_length; auto). rewrite (parent_out h m Hm).
      destruct (Nat.eqb_spec m n); [lia|reflexivity].
Qed.
Lemma eff_children h n v m : m < length h -> parent h n <> v ->
  children (eff_set_parent h n v) m =
  (if oid_eqb (parent h n) (Some m) then remove_id n (children h m) else children h m)
  ++ (if oid_eqb v (Some m) then [n] else []).
Proof.
  intros Hm N. unfold eff_set_parent. destruct (oid_eqb (parent h n) v) eqn:E; [apply oid_eqb_spec in E; contradiction|].
  match goal with |- children (build_heap ?len ?par ?chi) m = _ => destruct (build_heap_get len par chi m Hm) as [_ B]; rewrite B end.
  reflexivity.
Qed.

Section S.
Variables (typed asrt : bool).

(** a legal move keeps the forest consistent *)
Lemma eff_inv h x v : Inv h -> x < length h -> (match v with Some q => q < length h | None => True end) ->
  loop_refused h x v = false -> Inv (eff_set_parent h x v).
Proof.
  intros I Hx Hv LR.
  pose proof (set_parent_run typed asrt x v (start h) I Hx Hv) as R. cbv zeta in R. cbn [heap_of start] in R. rewrite LR in R.
  pose proof (set_parent_keeps typed asrt no_faults (length h) x (opt_value v) Hx) as K.
  assert (VV : valid_value (length h) (opt_value v)) by (destruct v; simpl; auto).
  specialize (K VV (start h)). cbn [heap_of start] in K. rewrite R in K. cbn [snd heap_of st_after] in K.
  destruct K as [K _]; [split; auto|]. exact K.
Qed.

(** moving [x] does not change the ancestor chain of a node that is neither
    [x] nor below [x] *)
Lemma chain_stable h x v n l : x < length h -> chain h n l -> x <> n -> ~ In x l -> chain (eff_set_parent h x v) n l.
Proof.
  intros Hx C N1 N2. apply chain_avoid with (h := h) (n := x); auto.
  intros m Hm. rewrite eff_parent by auto. destruct (Nat.eqb_spec m x); [contradiction|reflexivity].
Qed.

Lemma ancestors_of_chain h n l : Inv h -> chain h n l -> ancestors_of h n = l.
Proof.
  intros I C. unfold ancestors_of. destruct (path_rev_inv h n I) as [l' [C' P]]. rewrite P.
  eapply chain_fun; eauto.
Qed.

(** attaching a list of nodes under [n], one after the other *)
Theorem for_each_attach n ln xs : forall s, Inv (heap_of s) -> n < length (heap_of s) -> chain (heap_of s) n ln ->
  (forall x, In x xs -> x < length (heap_of s) /\ x <> n /\ ~ In x ln) ->
  for_each (map VNode xs) (fun x => assign_parent_of typed asrt no_faults x n) s =
  (Ok tt, st_after s (snd (log_moves (heap_of s) (map (fun x => (x, Some n)) xs)))
                     (fst (log_moves (heap_of s) (map (fun x => (x, Some n)) xs)))).
Proof.
  induction xs as [|x xs IH]; intros s I Hn C B; cbn [for_each map log_moves].
  - unfold ret. cbn [fst snd]. rewrite st_after_nil. reflexivity.
  - unfold mbind. cbn [assign_parent_of].
    destruct (B x (or_introl eq_refl)) as [Hx [Nx Nl]].
    assert (LR : loop_refused (heap_of s) x (Some n) = false).
    { unfold loop_refused. rewrite (ancestors_of_chain _ _ _ I C).
      destruct (Nat.eqb_spec n x); [congruence|]. cbn [orb].
      destruct (mem ln x) eqn:M; [apply mem_In in M; contradiction|]. apply andb_false_r. }
    pose proof (set_parent_run typed asrt x (Some n) s I Hx Hn) as R. cbv zeta in R. cbn [opt_value] in R.
    rewrite LR in R. rewrite R. clear R.
    assert (I1 : Inv (eff_set_parent (heap_of s) x (Some n))) by (apply eff_inv; auto).
    set (s1 := st_after s (eff_set_parent (heap_of s) x (Some n)) (log_set_parent (heap_of s) x (Some n))).
    rewrite (IH s1).
    + cbn [heap_of s1 st_after].
      destruct (log_moves (eff_set_parent (heap_of s) x (Some n)) (map (fun x0 => (x0, Some n)) xs)) as [l' h''].
      cbn [fst snd]. unfold s1. rewrite st_after_comp. reflexivity.
    + exact I1.
    + cbn [heap_of s1 st_after]. rewrite eff_length. exact Hn.
    + cbn [heap_of s1 st_after]. apply chain_stable; auto.
    + intros y Hy. cbn [heap_of s1 st_after]. rewrite eff_length. apply B. simpl; auto.
Qed.
End S.

(** ---- what attaching [xs] under [n], front to back, leaves behind ---- *)
Lemma filter_filter {A} (p q : A -> bool) l : filter p (filter q l) = filter (fun x => q x && p x) l.
Proof. induction l as [|x l IH]; simpl; auto. destruct (q x); simpl; [destruct (p x)|]; rewrite ?IH; auto. Qed.
Lemma filter_id_notin x l : ~ In x l -> filter (fun c => negb (Nat.eqb c x)) l = l.
Proof. exact (remove_id_notin x l). Qed.
Lemma mem_cons x r m : mem (x :: r) m = Nat.eqb m x || mem r m.
Proof. reflexivity. Qed.

Section S2.
Variables (typed asrt : bool).

Lemma filter_all_true {A} (l : list A) : filter (fun _ => true) l = l.
Proof. induction l; simpl; congruence. Qed.

Lemma mem_false_notin l x : mem l x = false <-> ~ In x l.
Proof. split; intros H. - intros Hin. apply mem_In in Hin. congruence. - destruct (mem l x) eqn:E; auto. apply mem_In in E. contradiction. Qed.

Lemma loop_refused_false h x n ln : Inv h -> chain h n ln -> x <> n -> ~ In x ln -> loop_refused h x (Some n) = false.
Proof.
  intros I C N1 N2. unfold loop_refused. rewrite (ancestors_of_chain _ _ _ I C).
  destruct (Nat.eqb_spec n x); [congruence|]. cbn [orb].
  destruct (mem ln x) eqn:M; [apply mem_In in M; contradiction|]. apply andb_false_r.
Qed.

Lemma attach_children_state n ln : forall suf pre h, Inv h -> n < length h -> chain h n ln ->
  children h n = pre -> NoDup (pre ++ suf) ->
  (forall x, In x suf -> x < length h /\ x <> n /\ ~ In x ln) ->
  let h' := snd (log_moves h (map (fun x => (x, Some n)) suf)) in
  Inv h' /\ length h' = length h /\ children h' n = pre ++ suf /\
  (forall m, parent h' m = if mem suf m then Some n else parent h m) /\
  (forall m, m <> n -> m < length h -> children h' m = filter (fun c => negb (mem suf c)) (children h m)).
Proof.
  induction suf as [|x r IH]; intros pre h I Hn C E ND B; cbn [map log_moves snd].
  - split; [exact I|]. split; [reflexivity|]. split; [rewrite app_nil_r; exact E|].
    split; intros; [reflexivity|]. symmetry. apply filter_all_true.
  - destruct (B x (or_introl eq_refl)) as [Hx [Nx Nl]].
    assert (LR : loop_refused h x (Some n) = false) by (eapply loop_refused_false; eauto).
    assert (NP : parent h x <> Some n).
    { intros P. apply (inv_link _ I) in P. rewrite E in P. apply NoDup_remove_2 in ND. apply ND. apply in_or_app. auto. }
    set (h1 := eff_set_parent h x (Some n)) in *.
    assert (I1 : Inv h1) by (apply (eff_inv typed asrt); auto).
    assert (L1 : length h1 = length h) by apply eff_length.
    assert (C1 : chain h1 n ln) by (apply chain_stable; auto).
    assert (K1 : children h1 n = pre ++ [x]).
    { unfold h1. rewrite eff_children by auto.
      assert (F : oid_eqb (parent h x) (Some n) = false).
      { destruct (oid_eqb (parent h x) (Some n)) eqn:Q; auto. apply oid_eqb_spec in Q. contradiction. }
      rewrite F. rewrite E. cbn [oid_eqb option_eqb]. rewrite Nat.eqb_refl. reflexivity. }
    destruct (log_moves h1 (map (fun x0 => (x0, Some n)) r)) as [l' h''] eqn:LM. cbn [snd].
    assert (ND' : NoDup ((pre ++ [x]) ++ r)) by (rewrite <- app_assoc; exact ND).
    assert (B' : forall y, In y r -> y < length h1 /\ y <> n /\ ~ In y ln).
    { intros y Hy. rewrite L1. apply B. simpl; auto. }
    specialize (IH (pre ++ [x]) h1 I1 ltac:(lia) C1 K1 ND' B'). rewrite LM in IH. cbn [snd] in IH.
    destruct IH as [I2 [L2 [K2 [P2 D2]]]].
    split; [exact I2|]. split; [lia|]. split; [rewrite K2, <- app_assoc; reflexivity|]. split.
    + intros m. rewrite P2. unfold h1. rewrite eff_parent by auto. rewrite mem_cons.
      destruct (Nat.eqb_spec m x) as [->|]; cbn [orb]; [destruct (mem r x); reflexivity|reflexivity].
    + intros m Nm Hm. rewrite D2 by (auto; lia). unfold h1. rewrite eff_children by auto.
      assert (F : oid_eqb (Some n) (Some m) = false).
      { cbn [oid_eqb option_eqb]. destruct (Nat.eqb_spec n m); [congruence|reflexivity]. }
      rewrite F, app_nil_r.
      destruct (oid_eqb (parent h x) (Some m)) eqn:Q.
      * unfold remove_id. rewrite filter_filter. apply filter_ext. intros c. rewrite mem_cons.
        destruct (Nat.eqb c x), (mem r c); reflexivity.
      * apply filter_ext_in. intros c Hc. rewrite mem_cons.
        destruct (Nat.eqb_spec c x) as [->|]; [|reflexivity].
        exfalso. apply (inv_link _ I) in Hc. rewrite Hc in Q. cbn [oid_eqb option_eqb] in Q. rewrite Nat.eqb_refl in Q. discriminate.
Qed.

(** any list of legal moves of other nodes keeps [n]'s ancestor chain *)
Lemma moves_chain_stable n ln : forall moves h, chain h n ln ->
  (forall c v, In (c, v) moves -> c < length h /\ c <> n /\ ~ In c ln) ->
  chain (snd (log_moves h moves)) n ln.
Proof.
  induction moves as [|[c v] moves IH]; intros h C B; cbn [log_moves]; [exact C|].
  destruct (B c v (or_introl eq_refl)) as [Hc [N1 N2]].
  destruct (log_moves (eff_set_parent h c v) moves) as [l' h''] eqn:LM. cbn [snd].
  specialize (IH (eff_set_parent h c v)). rewrite LM in IH. cbn [snd] in IH. apply IH.
  - apply (chain_stable h c v n ln); auto.
  - intros c' v' H'. rewrite eff_length. apply (B c' v'). simpl; auto.
Qed.

Lemma child_not_ancestor h n ln c : Inv h -> chain h n ln -> In c (children h n) -> c <> n /\ ~ In c ln.
Proof.
  intros I C Hc. apply (inv_link _ I) in Hc.
  assert (CC : chain h c (n :: ln)) by (eapply chain_step; eauto).
  pose proof (chain_not_in _ _ _ CC) as NI. split.
  - intros ->. apply NI. simpl; auto.
  - intros H. apply NI. simpl; auto.
Qed.

(** the accepted children assignment, hooks not raising, from any consistent state *)
Theorem set_children_run fu n xs s : let h := heap_of s in
  Inv h -> n < length h -> NoDup xs ->
  (forall x, In x xs -> x < length h /\ x <> n /\ ~ In x (ancestors_of h n)) ->
  set_children typed asrt no_faults (S fu) n (CList (map VNode xs)) s =
  (Ok tt, st_after s (eff_set_children h n xs) (fst (log_set_children h n xs))).
Proof.
  intros h I Hn ND B.
  destruct (inv_acyclic _ I n) as [ln C]. rewrite (ancestors_of_chain _ _ _ I C) in B.
  cbn [set_children]. unfold mbind at 1. rewrite check_children_ok by (auto; intros x _ []).
  unfold mbind at 1. unfold get_heap. cbn [fst snd]. fold h.
  unfold mbind at 1. rewrite (del_children_run typed asrt n s I Hn). fold h.
  (* the state after the deletion phase *)
  set (h0 := del_effect h n).
  set (l0 := fst (log_del_children h n)).
  set (s0 := st_after s h0 l0).
  destruct (detach_children_state n (children h n) h I Hn eq_refl) as [I0 [L0 [K0 [P0 D0]]]].
  rewrite (detach_children_effect n h I Hn) in I0, L0, K0, P0, D0. fold h0 in I0, L0, K0, P0, D0.
  assert (C0 : chain h0 n ln).
  { unfold h0. rewrite <- (detach_children_effect n h I Hn). apply moves_chain_stable; auto.
    intros c v Hcv. apply in_map_iff in Hcv. destruct Hcv as [c' [[= <- <-] Hc']].
    destruct (child_not_ancestor h n ln c' I C Hc') as [A1 A2]. split; auto.
    apply (inv_bound_c _ I _ _ Hc'). }
  assert (B0 : forall x, In x xs -> x < length h0 /\ x <> n /\ ~ In x ln) by (intros x Hx; rewrite L0; apply B; auto).
  (* the attach phase *)
  unfold try_except.
  unfold mbind at 1. unfold hook at 1. unfold no_faults at 1. cbn [fst snd heap_of cnt log s0 st_after].
  rewrite value_ids_map.
  set (s1 := {| heap_of := h0; cnt := S (length l0 + cnt s); log := (log s ++ l0) ++ [Ev PreAttachChildren n xs h0] |}).
  unfold mbind at 1.
  rewrite (for_each_attach typed asrt n ln xs s1 I0 ltac:(cbn [heap_of s1]; lia) C0 B0). cbn [heap_of s1].
  destruct (attach_children_state n ln xs [] h0 I0 ltac:(lia) C0 K0 ND B0) as [I2 [L2 [K2 [P2 D2]]]].
  destruct (log_moves h0 (map (fun x => (x, Some n)) xs)) as [l2 h2] eqn:LM. cbn [fst snd] in *.
  unfold mbind at 1. unfold hook at 1. unfold no_faults at 1. cbn [fst snd heap_of cnt log st_after s1].
  unfold mbind at 1. unfold get_heap. cbn [fst snd heap_of].
  rewrite K2. cbn [app]. rewrite map_length, Nat.eqb_refl, massert_true.
  (* final state and log *)
  assert (EF : h2 = eff_set_children h n xs).
  { unfold eff_set_children. symmetry. by_cells ltac:(lia).
    rewrite P2, P0. split; [reflexivity|].
    destruct (Nat.eqb_spec m n) as [->|Nm]; [rewrite K2; reflexivity|].
    rewrite D2 by (auto; lia). rewrite D0 by auto. reflexivity. }
  unfold log_set_children. fold l0.
  assert (LD : log_del_children h n = (l0, h0)).
  { unfold l0, h0. unfold log_del_children.
    rewrite <- (detach_children_effect n h I Hn).
    destruct (log_moves h (map (fun c => (c, None)) (children h n))); reflexivity. }
  rewrite LD, LM. cbn [fst]. rewrite <- EF.
  unfold st_after. cbn [heap_of cnt log]. f_equal. f_equal.
  - repeat (rewrite app_length; cbn [length]). lia.
  - rewrite <- !app_assoc. reflexivity.
Qed.
End S2.

(** ---- refusals of the children assignment ---- *)
Section Refuse.
Variables (typed asrt : bool).

(** TreeError exactly for a repeated child or (NodeMixin) a non-node element *)
Lemma check_children_outcome xs : forall seen s,
  check_children typed seen xs s =
  (if (typed && has_non_node xs) || has_dup seen xs then Err TreeError else Ok tt, s).
Proof.
  induction xs as [|x xs IH]; intros seen s; cbn [check_children has_non_node has_dup existsb]; [rewrite andb_false_r; reflexivity|].
  destruct x as [|c|].
  - destruct typed; cbn [andb orb]; [reflexivity|]. rewrite IH. reflexivity.
  - cbn [orb]. destruct (mem seen c) eqn:M.
    + rewrite orb_true_r. reflexivity.
    + rewrite IH. cbn [orb]. reflexivity.
  - destruct typed; cbn [andb orb]; [reflexivity|]. rewrite IH. reflexivity.
Qed.

Theorem set_children_treeerror fu n xs s :
  (typed && has_non_node xs) || has_dup [] xs = true ->
  set_children typed asrt no_faults (S fu) n (CList xs) s = (Err TreeError, s).
Proof.
  intros H. apply set_children_validation. right. exists xs. split; auto.
  rewrite check_children_outcome, H. reflexivity.
Qed.

Lemma set_children_S faults fu n xs :
  set_children typed asrt faults (S fu) n (CList xs) =
  (check_children typed [] xs ;;;
   h <-- get_heap ;;;
   let old := children h n in
   del_children typed asrt faults n ;;;
   try_except
     (hook faults PreAttachChildren n (value_ids xs) ;;;
      for_each xs (fun x => assign_parent_of typed asrt faults x n) ;;;
      hook faults PostAttachChildren n (value_ids xs) ;;;
      h' <-- get_heap ;;;
      massert asrt (Nat.eqb (length (children h' n)) (length xs)))
     (fun e => set_children typed asrt faults fu n (CList (map VNode old)) ;;; raise e)).
Proof. reflexivity. Qed.

(** LoopError when a new child is the node itself or one of its ancestors:
    the children before it are attached, the assignment of the offender is
    refused, the rollback (a legal children assignment) succeeds, and the
    LoopError propagates *)
Theorem set_children_looperror fu n pre x post s : let h := heap_of s in
  Inv h -> n < length h -> NoDup (pre ++ x :: post) ->
  (forall y, In y pre -> y < length h /\ y <> n /\ ~ In y (ancestors_of h n)) ->
  x < length h -> (x = n \/ In x (ancestors_of h n)) ->
  fst (set_children typed asrt no_faults (S (S fu)) n (CList (map VNode (pre ++ x :: post))) s) = Err LoopError.
Proof.
  intros h I Hn ND B Hx OFF.
  destruct (inv_acyclic _ I n) as [ln C]. rewrite (ancestors_of_chain _ _ _ I C) in B, OFF.
  rewrite set_children_S. unfold mbind at 1. rewrite check_children_ok by (auto; intros y _ []).
  unfold mbind at 1. unfold get_heap. cbn [fst snd]. fold h.
  unfold mbind at 1. rewrite (del_children_run typed asrt n s I Hn). fold h.
  set (h0 := del_effect h n). set (l0 := fst (log_del_children h n)). set (s0 := st_after s h0 l0).
  set (old := children h n).
  destruct (detach_children_state n (children h n) h I Hn eq_refl) as [I0 [L0 [K0 [P0 D0]]]].
  rewrite (detach_children_effect n h I Hn) in I0, L0, K0, P0, D0. fold h0 in I0, L0, K0, P0, D0.
  assert (C0 : chain h0 n ln).
  { unfold h0. rewrite <- (detach_children_effect n h I Hn). apply moves_chain_stable; auto.
    intros c v Hcv. apply in_map_iff in Hcv. destruct Hcv as [c' [[= <- <-] Hc']].
    destruct (child_not_ancestor h n ln c' I C Hc') as [A1 A2]. split; auto. apply (inv_bound_c _ I _ _ Hc'). }
  (* the attach phase up to the offender *)
  unfold try_except.
  unfold mbind at 1. unfold hook at 1. unfold no_faults at 1. cbn [fst snd heap_of cnt log s0 st_after].
  set (s1 := {| heap_of := h0; cnt := S (length l0 + cnt s);
                log := (log s ++ l0) ++ [Ev PreAttachChildren n (value_ids (map VNode (pre ++ x :: post))) h0] |}).
  unfold mbind at 1.
  rewrite map_app. cbn [map].
  assert (FE : forall (l1 l2 : list value) body st0, @for_each value (l1 ++ l2) body st0 =
               match for_each l1 body st0 with (Ok _, st1) => for_each l2 body st1 | r => r end).
  { induction l1 as [|a l1 IHl]; intros l2 body st0; cbn [app for_each].
    - unfold ret. reflexivity.
    - unfold mbind. destruct (body a st0) as [[[]|e|] st1]; auto. }
  rewrite FE.
  assert (B0 : forall y, In y pre -> y < length (heap_of s1) /\ y <> n /\ ~ In y ln).
  { intros y Hy. cbn [heap_of s1]. rewrite L0. apply B; auto. }
  rewrite (for_each_attach typed asrt n ln pre s1 I0 ltac:(cbn [heap_of s1]; lia) C0 B0). cbn [heap_of s1].
  assert (NDp : NoDup pre).
  { clear -ND. induction pre as [|a pre IHp]; [constructor|]. simpl in ND. inversion ND; subst. constructor; auto.
    intros Hin. apply H1. apply in_or_app. auto. }
  destruct (attach_children_state typed asrt n ln pre [] h0 I0 ltac:(lia) C0 K0 NDp
              ltac:(intros y Hy; rewrite L0; apply B; auto)) as [I2 [L2 [K2 [P2 D2]]]].
  assert (C2 : chain (snd (log_moves h0 (map (fun y => (y, Some n)) pre))) n ln).
  { apply moves_chain_stable; auto. intros c v Hcv. apply in_map_iff in Hcv. destruct Hcv as [c' [[= <- <-] Hc']].
    rewrite L0. apply B; auto. }
  destruct (log_moves h0 (map (fun y => (y, Some n)) pre)) as [l2 h2] eqn:LM. cbn [fst snd] in *.
  set (s2 := st_after s1 h2 l2).
  (* the offender is refused *)
  cbn [for_each]. unfold mbind at 1. cbn [assign_parent_of].
  assert (Hx2 : x < length h2) by lia.
  pose proof (set_parent_run typed asrt x (Some n) s2 I2 Hx2 ltac:(cbn [heap_of s2 st_after]; lia)) as R.
  cbv zeta in R. cbn [opt_value heap_of s2 st_after] in R.
  assert (LR : loop_refused h2 x (Some n) = true).
  { unfold loop_refused. rewrite (ancestors_of_chain _ _ _ I2 C2).
    assert (NP : oid_eqb (parent h2 x) (Some n) = false).
    { destruct (oid_eqb (parent h2 x) (Some n)) eqn:Q; auto. apply oid_eqb_spec in Q.
      (* x would be a child of n: but x is n or an ancestor of n *)
      exfalso. assert (CX : chain h2 x (n :: ln)) by (eapply chain_step; eauto).
      pose proof (chain_not_in _ _ _ CX) as NI. destruct OFF as [->|OFF]; apply NI; simpl; auto. }
    rewrite NP. cbn [negb andb]. destruct OFF as [->|OFF].
    - rewrite Nat.eqb_refl. reflexivity.
    - assert (M : mem ln x = true) by (apply mem_In; auto). rewrite M. apply orb_true_r. }
  rewrite LR in R. rewrite R. clear R.
  (* the rollback: a legal children assignment of the former children *)
  unfold mbind at 1.
  assert (OLD : forall c, In c old -> c < length h2 /\ c <> n /\ ~ In c (ancestors_of h2 n)).
  { intros c Hc. rewrite (ancestors_of_chain _ _ _ I2 C2).
    destruct (child_not_ancestor h n ln c I C Hc) as [A1 A2]. split; [|split; auto].
    destruct (inv_bound_c _ I _ _ Hc). lia. }
  assert (NDo : NoDup old) by apply (inv_nodup _ I).
  pose proof (set_children_run typed asrt fu n old s2 I2 ltac:(cbn [heap_of s2 st_after]; lia) NDo OLD) as RB.
  cbv zeta in RB. rewrite RB. reflexivity.
Qed.
End Refuse.

(** ---- constructors: a fresh root, then the two assignments ---- *)
Section Ctor.
Variables (typed asrt : bool).

Theorem construct_run fu p xs s : let h := heap_of s in
  Inv h -> (match p with Some q => q < length h | None => True end) ->
  NoDup xs ->
  let n := length h in
  let h1 := h ++ [empty_cell] in
  let h2 := eff_set_parent h1 n p in
  (forall x, In x xs -> x < length h /\ ~ In x (ancestors_of h2 n)) ->
  construct typed asrt no_faults (S fu) (opt_value p) (Some (CList (map VNode xs))) s =
  (Ok n, st_after s (match xs with [] => h2 | _ => eff_set_children h2 n xs end)
           (log_set_parent h1 n p ++ match xs with [] => [] | _ => fst (log_set_children h2 n xs) end)).
Proof.
  intros h I Hp ND n h1 h2 B.
  unfold construct. unfold mbind at 1. unfold get_heap. cbn [fst snd]. fold h.
  unfold alloc. fold n. fold h1.
  unfold mbind at 1. unfold put_heap. cbn [fst snd].
  set (s1 := {| heap_of := h1; cnt := cnt s; log := log s |}).
  assert (I1 : Inv h1) by (apply alloc_inv; exact I).
  assert (L1 : length h1 = S n) by (unfold h1; rewrite app_length; simpl; lia).
  assert (Hn1 : n < length h1) by lia.
  assert (Hp1 : match p with Some q => q < length h1 | None => True end) by (destruct p; [lia|exact Logic.I]).
  assert (Pn : parent h1 n = None).
  { unfold parent, h1, n. rewrite get_alloc, get_beyond by lia. reflexivity. }
  assert (LR : loop_refused h1 n p = false).
  { unfold loop_refused. destruct p as [q|]; [|apply andb_false_r].
    rewrite Pn. cbn [oid_eqb option_eqb negb andb].
    destruct (Nat.eqb_spec q n); [lia|]. cbn [orb].
    destruct (mem (ancestors_of h1 q) n) eqn:M; [|reflexivity]. exfalso.
    apply mem_In in M. unfold ancestors_of in M. destruct (path_rev_inv h1 q I1) as [lq [Cq Pq]]. rewrite Pq in M.
    (* every node on a chain is the parent of someone: n has no children in h1 *)
    assert (G : forall x l, chain h1 x l -> In n l -> exists c, parent h1 c = Some n).
    { clear. intros x l C. induction C as [x P|x pp l P C IH]; intros Hin; [destruct Hin|].
      destruct Hin as [->|Hin]; eauto. }
    destruct (G _ _ Cq M) as [c Pc]. apply (inv_link _ I1) in Pc.
    unfold children, h1, n in Pc. rewrite get_alloc, get_beyond in Pc by lia. destruct Pc. }
  unfold mbind at 1.
  pose proof (set_parent_run typed asrt n p s1 I1 Hn1 Hp1) as R. cbv zeta in R. cbn [heap_of s1] in R.
  rewrite LR in R. rewrite R. clear R. fold h2.
  set (s2 := st_after s1 h2 (log_set_parent h1 n p)).
  assert (I2 : Inv h2) by (apply (eff_inv typed asrt); auto).
  assert (L2 : length h2 = S n) by (unfold h2; rewrite eff_length; exact L1).
  destruct xs as [|x0 xs'].
  - cbn [truthy map]. unfold mbind, ret. cbn [fst snd]. unfold s2, st_after. cbn [heap_of cnt log].
    rewrite !app_nil_r. reflexivity.
  - cbn [truthy map]. unfold mbind at 1.
    assert (B2 : forall x, In x (x0 :: xs') -> x < length (heap_of s2) /\ x <> n /\ ~ In x (ancestors_of (heap_of s2) n)).
    { intros x Hx. cbn [heap_of s2 st_after]. destruct (B x Hx) as [B1 B3]. repeat split; auto; lia. }
    change (VNode x0 :: map VNode xs') with (map VNode (x0 :: xs')).
    rewrite (set_children_run typed asrt fu n (x0 :: xs') s2 I2 ltac:(cbn [heap_of s2 st_after]; lia) ND B2).
    unfold mbind, ret. cbn [fst snd heap_of s2 st_after]. unfold st_after. cbn [heap_of cnt log].
    f_equal. f_equal.
    + rewrite app_length. unfold s2, st_after, s1. cbn [cnt]. lia.
    + unfold s2, st_after, s1. cbn [log]. rewrite app_assoc. reflexivity.
Qed.
End Ctor.
