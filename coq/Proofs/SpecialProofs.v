Require Import AT.Model.Base AT.Model.Special.

Definition identity_like (U : special) : Prop :=
  (forall a b, ueq U a b = true -> a = b) /\ (forall a, utruth U a = true).

Lemma py_eq_identity U a b : identity_like U -> py_eq U a b = Nat.eqb a b.
Proof.
  intros [E _]. unfold py_eq. destruct (Nat.eqb_spec a b); [reflexivity|]. simpl.
  destruct (ueq U a b) eqn:Q; [apply E in Q; contradiction|reflexivity].
Qed.
Lemma py_index_identity U l x : identity_like U -> py_index U l x = id_index l x.
Proof. intros I. induction l as [|y r IH]; simpl; auto. rewrite py_eq_identity, IH by auto. reflexivity. Qed.

(** for classes whose __eq__ restricted to nodes is identity and whose
    instances are truthy the old code agreed with the repaired one ... *)
Theorem leftsibling_old_guarded U p l n : identity_like U -> leftsibling_old U p l n = leftsibling_new p l n.
Proof.
  intros I. unfold leftsibling_old, leftsibling_new. destruct p as [q|]; [|reflexivity].
  destruct I as [E T]. rewrite T. rewrite py_index_identity by (split; auto). reflexivity.
Qed.
Theorem rightsibling_old_guarded U p l n : identity_like U -> rightsibling_old U p l n = rightsibling_new p l n.
Proof.
  intros I. unfold rightsibling_old, rightsibling_new. destruct p as [q|]; [|reflexivity].
  destruct I as [E T]. rewrite T. rewrite py_index_identity by (split; auto). reflexivity.
Qed.

(** ... and for other classes it did not (the defects D9 / D10, repaired) *)
Definition always_equal : special := {| ueq := fun _ _ => true; utruth := fun _ => true |}.
Definition falsy : special := {| ueq := Nat.eqb; utruth := fun _ => false |}.
Theorem leftsibling_old_refuted :
  leftsibling_old always_equal (Some 0) [1; 2; 3] 3 = None /\ leftsibling_new (Some 0) [1; 2; 3] 3 = Some 2 /\
  rightsibling_old always_equal (Some 0) [1; 2; 3] 3 = Some 2 /\ rightsibling_new (Some 0) [1; 2; 3] 3 = None /\
  leftsibling_old falsy (Some 0) [1; 2; 3] 3 = None.
Proof. repeat split. Qed.
Theorem glob_dedup_old_refuted :
  add_new_old always_equal [] [1; 2; 3] = [1] /\ add_new_id [] [1; 2; 3] = [1; 2; 3].
Proof. split; reflexivity. Qed.
Theorem add_new_old_guarded U a ms : identity_like U -> add_new_old U a ms = add_new_id a ms.
Proof.
  intros I. unfold add_new_old, add_new_id. revert a. induction ms as [|m ms IH]; intros a; simpl; auto.
  assert (E : py_in U a m = existsb (Nat.eqb m) a).
  { unfold py_in. induction a as [|y a IHa]; simpl; auto. rewrite py_eq_identity by auto. rewrite (Nat.eqb_sym y m), IHa. reflexivity. }
  rewrite E. apply IH.
Qed.
