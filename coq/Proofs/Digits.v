(** The textual identifiers of UniqueDotExporter ("0x" + hex) and of
    MermaidExporter ("N" + decimal) are injective renderings of the counter. *)
Require Import AT.Model.Base AT.Model.Rose AT.Model.Graph.
Require Import Lia.

Definition digit_val (c : N) : nat :=
  let k := N.to_nat c in if Nat.ltb k 58 then k - 48 else k - 87.
Definition val (b : nat) (s : str) : nat := fold_left (fun acc c => acc * b + digit_val c) s 0.

Lemma val_snoc b s c : val b (s ++ [c]) = val b s * b + digit_val c.
Proof. unfold val. rewrite fold_left_app. reflexivity. Qed.

Lemma hex_digit_val d : d < 16 -> digit_val (hex_digit d) = d.
Proof.
  intros H. unfold digit_val, hex_digit. destruct (Nat.ltb_spec d 10); rewrite Nat2N.id.
  - destruct (Nat.ltb_spec (48 + d) 58); lia.
  - destruct (Nat.ltb_spec (87 + d) 58); lia.
Qed.
Lemma dec_digit_val d : d < 10 -> digit_val (N.of_nat (48 + d)) = d.
Proof. intros H. unfold digit_val. rewrite Nat2N.id. destruct (Nat.ltb_spec (48 + d) 58); lia. Qed.

Lemma hex_digits_val fuel : forall n, n < fuel -> val 16 (hex_digits fuel n) = n.
Proof.
  induction fuel as [|fu IH]; intros n H; [lia|]. cbn [hex_digits].
  destruct (Nat.ltb_spec n 16) as [L|G].
  - unfold val. cbn [fold_left]. rewrite hex_digit_val by exact L. lia.
  - rewrite val_snoc, IH.
    + rewrite hex_digit_val by (apply Nat.mod_upper_bound; lia).
      pose proof (Nat.div_mod n 16). lia.
    + assert (n / 16 < n) by (apply Nat.div_lt; lia). lia.
Qed.
Lemma dec_digits_val fuel : forall n, n < fuel -> val 10 (dec_digits fuel n) = n.
Proof.
  induction fuel as [|fu IH]; intros n H; [lia|]. cbn [dec_digits].
  destruct (Nat.ltb_spec n 10) as [L|G].
  - unfold val. cbn [fold_left]. rewrite dec_digit_val by exact L. lia.
  - rewrite val_snoc, IH.
    + rewrite dec_digit_val by (apply Nat.mod_upper_bound; lia).
      pose proof (Nat.div_mod n 10). lia.
    + assert (n / 10 < n) by (apply Nat.div_lt; lia). lia.
Qed.

Theorem hex_injective a b : hex a = hex b -> a = b.
Proof.
  unfold hex. intros E. apply app_inv_head in E.
  rewrite <- (hex_digits_val (S a) a), <- (hex_digits_val (S b) b) by lia. rewrite E. reflexivity.
Qed.
Theorem dec_injective a b : dec a = dec b -> a = b.
Proof.
  unfold dec. intros E.
  rewrite <- (dec_digits_val (S a) a), <- (dec_digits_val (S b) b) by lia. rewrite E. reflexivity.
Qed.
Theorem mermaid_id_injective a b : (78%N :: dec a) = (78%N :: dec b) -> a = b.
Proof. intros E. injection E as E. apply dec_injective. exact E. Qed.

(** the printed default identifiers of two nodes are equal only for the same node *)
Theorem names_distinct (render : nat -> str) : (forall a b, render a = render b -> a = b) ->
  forall tb, (forall a b v, tbl_find tb a = Some v -> tbl_find tb b = Some v -> a = b) ->
  forall m n v w, tbl_find tb m = Some v -> tbl_find tb n = Some w ->
  tbl_name render tb m = tbl_name render tb n -> m = n.
Proof.
  intros Hr tb Hi m n v w Hm Hn E. unfold tbl_name in E. rewrite Hm, Hn in E.
  apply Hr in E. subst w. apply (Hi m n v); assumption.
Qed.
