(** Generic list lemmas used by the proofs. *)
Require Import AT.Model.Base.

Lemma flat_map_ext_Forall {A B} (g h : A -> list B) l :
  Forall (fun x => g x = h x) l -> flat_map g l = flat_map h l.
Proof. induction 1 as [|x l Hx Hl IH]; simpl; congruence. Qed.

Lemma filter_flat_map {A B} (p : B -> bool) (g : A -> list B) l :
  filter p (flat_map g l) = flat_map (fun x => filter p (g x)) l.
Proof. induction l as [|x l IH]; simpl; auto. rewrite filter_app. congruence. Qed.

Lemma flat_map_flat_map {A B C} (g : A -> list B) (h : B -> list C) l :
  flat_map h (flat_map g l) = flat_map (fun x => flat_map h (g x)) l.
Proof. induction l as [|x l IH]; simpl; auto. rewrite flat_map_app. congruence. Qed.

Lemma flat_map_filter {A B} (p : A -> bool) (g : A -> list B) l :
  flat_map g (filter p l) = flat_map (fun x => if p x then g x else []) l.
Proof. induction l as [|x l IH]; simpl; auto. destruct (p x); simpl; congruence. Qed.

Lemma flat_map_nil {A B} (l : list A) : flat_map (fun _ => @nil B) l = [].
Proof. induction l; simpl; auto. Qed.

Lemma flat_map_all_nil {A B} (g : A -> list B) l :
  Forall (fun x => g x = []) l -> flat_map g l = [].
Proof. induction 1 as [|x l Hx Hl IH]; simpl; auto. rewrite Hx, IH. auto. Qed.

Lemma list_eqb_spec {A} (eqb : A -> A -> bool) :
  (forall x y, eqb x y = true <-> x = y) ->
  forall a b, list_eqb eqb a b = true <-> a = b.
Proof.
  intros H a. induction a as [|x a IH]; intros [|y b]; simpl; split; intros E; try congruence; auto.
  - apply andb_true_iff in E. destruct E as [E1 E2]. apply H in E1. apply IH in E2. congruence.
  - inversion E; subst. apply andb_true_iff. split; [apply H|apply IH]; auto.
Qed.

Lemma ids_eqb_spec a b : ids_eqb a b = true <-> a = b.
Proof. apply list_eqb_spec. intros x y. apply Nat.eqb_eq. Qed.

Lemma mem_In l n : mem l n = true <-> In n l.
Proof.
  unfold mem. rewrite existsb_exists. split.
  - intros [x [H E]]. apply Nat.eqb_eq in E. subst. auto.
  - intros H. exists n. split; auto. apply Nat.eqb_refl.
Qed.
