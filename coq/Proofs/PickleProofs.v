(** C19: the object graph reachable from any node contains its whole tree
    (and the trees of the symlink targets met on the way). *)
Require Import AT.Model.Base AT.Model.Heap AT.Model.Pickle AT.Spec.MutSpec AT.Proofs.HeapLemmas.

Section P.
Variables (h : heap) (tg : targets).
Hypothesis I : Inv h.

Lemma reach_parent e x p : Reach h tg e x -> parent h x = Some p -> Reach h tg e p.
Proof. intros R P. eapply reach_step; eauto. unfold refs. rewrite P. simpl. auto. Qed.
Lemma reach_child e x c : Reach h tg e x -> In c (children h x) -> Reach h tg e c.
Proof. intros R C. eapply reach_step; eauto. unfold refs. apply in_or_app. right. apply in_or_app. auto. Qed.
Lemma reach_target e x t : Reach h tg e x -> target_of tg x = Some t -> Reach h tg e t.
Proof. intros R T. eapply reach_step; eauto. unfold refs. rewrite T. apply in_or_app. right. apply in_or_app. right. simpl. auto. Qed.

(** every ancestor of a reachable node is reachable *)
Lemma reach_up e x l : chain h x l -> Reach h tg e x -> forall y, In y l -> Reach h tg e y.
Proof.
  induction 1 as [x P|x p l P C IH]; intros R y Hy; [destruct Hy|].
  assert (Rp : Reach h tg e p) by (eapply reach_parent; eauto).
  destruct Hy as [<-|Hy]; auto.
Qed.

(** the root of x: the last node of its ancestor chain *)
Fixpoint root_of (x : id) (l : list id) : id := match l with [] => x | p :: l' => root_of p l' end.
Lemma root_in l : forall x, l <> [] -> In (root_of x l) l.
Proof.
  induction l as [|p l IH]; intros x H; [congruence|]. cbn [root_of]. destruct l as [|q l'].
  - simpl. auto.
  - right. apply IH. discriminate.
Qed.

(** whoever's root is reachable is reachable (walk down the children links) *)
Lemma reach_down e x l : chain h x l -> Reach h tg e (root_of x l) -> Reach h tg e x.
Proof.
  induction 1 as [x P|x p l P C IH]; intros R; [exact R|].
  cbn [root_of] in R. specialize (IH R). apply (reach_child e p x IH). apply (inv_link _ I). exact P.
Qed.

(** C19_reach_covers_tree: from any entry node the whole tree is reachable *)
Theorem reach_covers_tree e le x lx : chain h e le -> chain h x lx -> root_of e le = root_of x lx -> Reach h tg e x.
Proof.
  intros Ce Cx E. apply (reach_down e x lx Cx). rewrite <- E.
  destruct le as [|a le'] eqn:EL; [constructor|].
  apply (reach_up e e (a :: le') Ce (reach_entry _ _ _)). apply root_in. discriminate.
Qed.
End P.
