(** Facts about the list-indexed heap and the two atomic link updates. *)
Require Import AT.Model.Base AT.Model.Heap AT.Model.Mutate AT.Spec.MutSpec AT.Proofs.ListLemmas.

Lemma upd_length h n c : length (upd h n c) = length h.
Proof. revert n; induction h as [|x t IH]; intros [|k]; simpl; auto. Qed.
Lemma get_upd_same h n c : n < length h -> get (upd h n c) n = c.
Proof. unfold get. revert n; induction h as [|x t IH]; intros [|k] H; simpl in *; try lia; auto. apply IH; lia. Qed.
Lemma get_upd_other h n m c : n <> m -> get (upd h n c) m = get h m.
Proof. unfold get. revert n m; induction h as [|x t IH]; intros [|k] [|j] H; simpl; auto; try congruence. Qed.
Lemma upd_out h n c : length h <= n -> upd h n c = h.
Proof. revert n; induction h as [|x t IH]; intros [|k] H; simpl in *; auto; try lia. f_equal. apply IH. lia. Qed.

Lemma parent_spf h n p m : n < length h ->
  parent (set_parent_field h n p) m = if Nat.eqb m n then p else parent h m.
Proof. intros H. unfold parent, set_parent_field. destruct (Nat.eqb_spec m n) as [->|N].
  - rewrite get_upd_same; auto.
  - rewrite get_upd_other; auto. Qed.
Lemma children_spf h n p m : children (set_parent_field h n p) m = children h m.
Proof. unfold children at 1, set_parent_field. destruct (Nat.eq_dec m n) as [->|N].
  - destruct (Nat.lt_ge_cases n (length h)).
    + rewrite get_upd_same; auto.
    + rewrite upd_out; auto.
  - rewrite get_upd_other; auto. Qed.
Lemma parent_scf h n cs m : parent (set_children_field h n cs) m = parent h m.
Proof. unfold parent at 1, set_children_field. destruct (Nat.eq_dec m n) as [->|N].
  - destruct (Nat.lt_ge_cases n (length h)).
    + rewrite get_upd_same; auto.
    + rewrite upd_out; auto.
  - rewrite get_upd_other; auto. Qed.
Lemma children_scf h n cs m : n < length h ->
  children (set_children_field h n cs) m = if Nat.eqb m n then cs else children h m.
Proof. intros H. unfold children at 1, set_children_field. destruct (Nat.eqb_spec m n) as [->|N].
  - rewrite get_upd_same; auto.
  - rewrite get_upd_other; auto. Qed.
Lemma length_spf h n p : length (set_parent_field h n p) = length h. Proof. apply upd_length. Qed.
Lemma length_scf h n p : length (set_children_field h n p) = length h. Proof. apply upd_length. Qed.

Lemma length_detach h n p : length (detach_links h n p) = length h.
Proof. unfold detach_links. rewrite length_spf, length_scf. auto. Qed.
Lemma length_attach h n p : length (attach_links h n p) = length h.
Proof. unfold attach_links. rewrite length_spf, length_scf. auto. Qed.

Lemma parent_detach h n p m : n < length h ->
  parent (detach_links h n p) m = if Nat.eqb m n then None else parent h m.
Proof. intros. unfold detach_links. rewrite parent_spf by (rewrite length_scf; auto).
  destruct (Nat.eqb m n); auto. apply parent_scf. Qed.
Lemma children_detach h n p m : p < length h ->
  children (detach_links h n p) m = if Nat.eqb m p then remove_id n (children h p) else children h m.
Proof. intros. unfold detach_links. rewrite children_spf. apply children_scf; auto. Qed.
Lemma parent_attach h n p m : n < length h ->
  parent (attach_links h n p) m = if Nat.eqb m n then Some p else parent h m.
Proof. intros. unfold attach_links. rewrite parent_spf by (rewrite length_scf; auto).
  destruct (Nat.eqb m n); auto. apply parent_scf. Qed.
Lemma children_attach h n p m : p < length h ->
  children (attach_links h n p) m = if Nat.eqb m p then children h p ++ [n] else children h m.
Proof. intros. unfold attach_links. rewrite children_spf. apply children_scf; auto. Qed.

Lemma in_remove_id n x l : In x (remove_id n l) <-> In x l /\ x <> n.
Proof. unfold remove_id. rewrite filter_In. destruct (Nat.eqb_spec x n); simpl; intuition congruence. Qed.
Lemma nodup_remove_id n l : NoDup l -> NoDup (remove_id n l).
Proof. apply NoDup_filter. Qed.
Lemma remove_id_notin n l : ~ In n l -> remove_id n l = l.
Proof.
  induction l as [|x l IH]; simpl; auto. intros H. destruct (Nat.eqb_spec x n) as [->|N]; simpl.
  - exfalso. apply H. auto.
  - f_equal. apply IH. intuition.
Qed.

(** chains that avoid n are unaffected by changing n's parent field *)
Lemma chain_avoid h h' n : (forall m, m <> n -> parent h' m = parent h m) ->
  forall x l, chain h x l -> x <> n -> ~ In n l -> chain h' x l.
Proof. intros E x l C. induction C as [x P|x p l P C IH]; intros Nx Nl.
  - constructor. rewrite E; auto.
  - simpl in Nl. apply chain_step. rewrite E; auto. apply IH; intuition. Qed.

Lemma chain_fun h x l : chain h x l -> forall l', chain h x l' -> l = l'.
Proof.
  induction 1 as [x P|x p l P C IH]; intros l' C'; inversion C'; subst; try congruence.
  assert (p = p0) by congruence. subst. f_equal. apply IH. auto.
Qed.

Theorem detach_inv h n p : Inv h -> parent h n = Some p -> Inv (detach_links h n p).
Proof. intros I P. destruct (inv_bound_p _ I _ _ P) as [Bn Bp].
  assert (PD := fun m => parent_detach h n p m Bn).
  assert (CD := fun m => children_detach h n p m Bp).
  assert (L : length (detach_links h n p) = length h) by apply length_detach.
  constructor.
  - intros m q. rewrite PD, L. destruct (Nat.eqb_spec m n); [discriminate|]. apply (inv_bound_p _ I).
  - intros q m. rewrite CD, L. destruct (Nat.eqb_spec q p) as [->|].
    + rewrite in_remove_id. intros [H _]. apply (inv_bound_c _ I _ _ H).
    + apply (inv_bound_c _ I).
  - intros m q. rewrite PD, CD. destruct (Nat.eqb_spec m n) as [->|Nm].
    + split; [discriminate|]. destruct (Nat.eqb_spec q p) as [->|Nq].
      * rewrite in_remove_id. intuition.
      * intros H. apply (inv_link _ I) in H. congruence.
    + destruct (Nat.eqb_spec q p) as [->|Nq].
      * rewrite in_remove_id. rewrite (inv_link _ I). intuition.
      * apply (inv_link _ I).
  - intros q. rewrite CD. destruct (Nat.eqb q p); [apply nodup_remove_id|]; apply (inv_nodup _ I).
  - intros x. destruct (inv_acyclic _ I x) as [l C].
    induction C as [x Px|x q l Px C IH].
    + exists []. constructor. rewrite PD. destruct (Nat.eqb x n); auto.
    + destruct (Nat.eqb_spec x n) as [->|Nx].
      * exists []. constructor. rewrite PD, Nat.eqb_refl. auto.
      * destruct IH as [l' C']. exists (q :: l'). apply chain_step; auto.
        rewrite PD. destruct (Nat.eqb_spec x n); congruence. Qed.

Theorem attach_inv h n p lp : Inv h -> n < length h -> p < length h ->
  parent h n = None -> chain h p lp -> p <> n -> ~ In n lp -> Inv (attach_links h n p).
Proof. intros I Bn Bp P Cp Npn Nlp.
  assert (PA := fun m => parent_attach h n p m Bn).
  assert (CA := fun m => children_attach h n p m Bp).
  assert (L : length (attach_links h n p) = length h) by apply length_attach.
  assert (Nin : forall q, ~ In n (children h q)).
  { intros q H. apply (inv_link _ I) in H. congruence. }
  constructor.
  - intros m q. rewrite PA, L. destruct (Nat.eqb_spec m n) as [->|].
    + intros [= <-]. auto.
    + apply (inv_bound_p _ I).
  - intros q m. rewrite CA, L. destruct (Nat.eqb_spec q p) as [->|].
    + rewrite in_app_iff. intros [H|[<-|[]]]; auto. apply (inv_bound_c _ I _ _ H).
    + apply (inv_bound_c _ I).
  - intros m q. rewrite PA, CA. destruct (Nat.eqb_spec m n) as [->|Nm]; destruct (Nat.eqb_spec q p) as [->|Nq].
    + rewrite in_app_iff. simpl. intuition.
    + split; [intros [= ->]; congruence| intros H; exfalso; apply (Nin q H)].
    + rewrite in_app_iff. simpl. rewrite (inv_link _ I). intuition congruence.
    + apply (inv_link _ I).
  - intros q. rewrite CA. destruct (Nat.eqb q p); [|apply (inv_nodup _ I)].
    rewrite <- rev_involutive. apply NoDup_rev. rewrite rev_app_distr. simpl. constructor.
    + rewrite <- in_rev. apply Nin.
    + apply NoDup_rev. apply (inv_nodup _ I).
  - assert (Cp' : chain (attach_links h n p) p lp).
    { apply chain_avoid with (h := h) (n := n); auto. intros m Hm. rewrite PA. destruct (Nat.eqb_spec m n); congruence. }
    intros x. destruct (inv_acyclic _ I x) as [l C].
    induction C as [x Px|x q l Px C IH].
    + destruct (Nat.eqb_spec x n) as [->|Nx].
      * exists (p :: lp). apply chain_step; auto. rewrite PA, Nat.eqb_refl. auto.
      * exists []. constructor. rewrite PA. destruct (Nat.eqb_spec x n); congruence.
    + destruct IH as [l' C']. exists (q :: l'). apply chain_step; auto.
      rewrite PA. destruct (Nat.eqb_spec x n) as [->|]; congruence. Qed.

(** the fuelled upward walk computes the chain, and never runs out of fuel on
    a consistent forest *)
Lemma chain_bound h x l : Inv h -> chain h x l -> forall y, In y l -> y < length h.
Proof. intros I C. induction C as [|x p l P C IH]; simpl; [tauto|]. intros y [<-|H]; auto.
  apply (inv_bound_p _ I _ _ P). Qed.

Lemma chain_suffix h : forall pre z y suf, chain h z (pre ++ y :: suf) -> chain h y suf.
Proof.
  induction pre as [|b pre IH]; intros z y suf C; simpl in C; inversion C; subst; eauto.
Qed.

Lemma chain_not_in h x l : chain h x l -> ~ In x l.
Proof.
  intros C Hin. apply in_split in Hin. destruct Hin as [pre [suf E]]. subst l.
  pose proof (chain_suffix _ _ _ _ _ C) as C2.
  pose proof (chain_fun _ _ _ C _ C2) as E. apply (f_equal (@length _)) in E.
  rewrite app_length in E. simpl in E. lia.
Qed.

Lemma chain_nodup h x l : chain h x l -> ~ In x l /\ NoDup l.
Proof.
  intros C. split; [eapply chain_not_in; eauto|].
  induction C as [x P|x p l P C IH]; constructor; auto. eapply chain_not_in; eauto.
Qed.

Lemma path_rev_chain h x l : chain h x l -> forall fuel, length l < fuel -> path_rev fuel h x = Ok (x :: l).
Proof.
  induction 1 as [x P|x p l P C IH]; intros [|fu] H; simpl in *; try lia.
  - rewrite P. auto.
  - rewrite P, IH by lia. auto.
Qed.

Lemma nodup_bounded_length (l : list nat) k : NoDup l -> (forall y, In y l -> y < k) -> length l <= k.
Proof.
  intros ND B. assert (incl l (seq 0 k)). { intros y Hy. apply in_seq. specialize (B y Hy). lia. }
  pose proof (NoDup_incl_length ND H). rewrite seq_length in *. auto.
Qed.

Lemma path_rev_inv h x : Inv h -> exists l, chain h x l /\ path_rev (walk_fuel h) h x = Ok (x :: l).
Proof.
  intros I. destruct (inv_acyclic _ I x) as [l C]. exists l. split; auto.
  apply path_rev_chain; auto. unfold walk_fuel.
  destruct (chain_nodup _ _ _ C) as [_ ND].
  pose proof (nodup_bounded_length l (length h) ND (chain_bound _ _ _ I C)) as HB. lia.
Qed.
