(** The converse direction of the heap/tree bridge: whenever the children
    lists below a node spell out a tree t (each node of t has, in the link
    state, exactly the labels of its children in t, in order), the unfolding
    returns t itself.  The correspondence harnesses check precisely this
    premise on the live objects (the snapshot of the links equals the links
    of the requested tree) before the read-only queries run, so the trees
    the query theorems speak about are the unfoldings of the link states the
    mutation theorems speak about. *)
Require Import AT.Model.Base AT.Model.Heap AT.Model.Rose AT.Model.Abs.

Inductive Sub : tree -> tree -> Prop :=
| Sub_refl t : Sub t t
| Sub_kid s c t : In c (kids t) -> Sub s c -> Sub s t.

Definition spells (h : heap) (t : tree) : Prop :=
  forall s, Sub s t -> children h (label s) = map label (kids s).

Lemma theight_kid c n cs : In c cs -> S (theight c) <= theight (T n cs).
Proof.
  cbn [theight]. induction cs as [|x cs IH]; intros H; [destruct H|]. cbn [fold_right].
  destruct H as [->|H]; [lia|]. specialize (IH H). lia.
Qed.

Theorem abs_of_spelled (h : heap) : forall t fuel, theight t <= fuel -> spells h t -> abs fuel h (label t) = t.
Proof.
  induction t as [n cs IH] using tree_ind'. intros fuel Hf Sp.
  destruct fuel as [|fu].
  - (* height 0: no children *)
    destruct cs as [|c cs]; [reflexivity|]. pose proof (theight_kid c n (c :: cs) (or_introl eq_refl)). lia.
  - pose proof (Sp (T n cs) (Sub_refl _)) as E. cbn [kids label] in E. cbn [abs label]. rewrite E. f_equal.
    rewrite map_map. rewrite <- (map_id cs) at 2. apply map_ext_in. intros c Hc.
    rewrite Forall_forall in IH. apply IH; [exact Hc| |].
    + pose proof (theight_kid c n cs Hc). lia.
    + intros s Hs. apply Sp. eapply Sub_kid; [cbn [kids]; exact Hc|exact Hs].
Qed.

Corollary tree_of_spelled (h : heap) t : theight t <= length h -> spells h t -> tree_of h (label t) = t.
Proof. intros Hh Sp. unfold tree_of, abs_fuel. apply abs_of_spelled; [lia|exact Sp]. Qed.
