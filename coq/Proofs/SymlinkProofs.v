(** C20: attribute access through links of any depth is access to the final target. *)
Require Import AT.Model.Base AT.Model.Symlink AT.Spec.SymlinkSpec AT.Generated.Extracted AT.Proofs.ListLemmas.

Lemma str_eqb_eq a b : str_eqb a b = true <-> a = b.
Proof. apply list_eqb_spec. intros x y. apply N.eqb_eq. Qed.
Lemma str_eqb_refl a : str_eqb a a = true.
Proof. apply str_eqb_eq. reflexivity. Qed.

Lemma dget_dset_same d k v : dget (dset d k v) k = Some v.
Proof.
  induction d as [|[k' v'] d IH]; simpl; [rewrite str_eqb_refl; reflexivity|].
  destruct (str_eqb k' k) eqn:E; simpl; rewrite ?E; auto.
Qed.
Lemma dget_dset_other d k k' v : k' <> k -> dget (dset d k v) k' = dget d k'.
Proof.
  intros N. induction d as [|[k0 v0] d IH]; simpl.
  - destruct (str_eqb k k') eqn:E; [apply str_eqb_eq in E; congruence|reflexivity].
  - destruct (str_eqb k0 k) eqn:E; simpl.
    + apply str_eqb_eq in E. subst k0. destruct (str_eqb k k') eqn:E'; [apply str_eqb_eq in E'; congruence|reflexivity].
    + destruct (str_eqb k0 k'); auto.
Qed.

Lemma oupd_length s x o : length (oupd s x o) = length s.
Proof. revert x; induction s as [|y s IH]; intros [|k]; simpl; auto. Qed.
Lemma oget_oupd_same s x o : x < length s -> oget (oupd s x o) x = o.
Proof. unfold oget. revert x; induction s as [|y s IH]; intros [|k] H; simpl in *; try lia; auto. apply IH. lia. Qed.
Lemma oget_oupd_other s x y o : x <> y -> oget (oupd s x o) y = oget s y.
Proof. unfold oget. revert x y; induction s as [|z s IH]; intros [|k] [|j] H; simpl; auto; try congruence. Qed.

Section P.
Variable s : objs.
Hypothesis clean : link_clean s.

Lemma data_name_not_refused k : data_name k = true ->
  in_names symlink_get_local k || str_eqb k s_setstate = false /\ in_names symlink_set_local k = false.
Proof.
  unfold data_name. rewrite !andb_true_iff, !negb_true_iff. intros [[A B] C]. rewrite B, C. auto.
Qed.

(** reading a data attribute through a link chain reads the final target's dictionary *)
Lemma getattr_final k : data_name k = true -> forall f x, x < f -> x < length s ->
  getattr f s x k = match dget (odict (oget s (final f s x))) k with Some v => Ok v | None => Err AttributeError end.
Proof.
  intros D. destruct (data_name_not_refused k D) as [NR _].
  induction f as [|f IH]; intros x Hx Hl; [lia|]. cbn [getattr final].
  pose proof (clean x Hl) as C. destruct (okind_of (oget s x)) as [|t] eqn:K.
  - destruct (dget (odict (oget s x)) k); reflexivity.
  - destruct C as [E Lt]. rewrite E. cbn [dget]. rewrite NR. apply IH; lia.
Qed.

Theorem getattr_spec x k : data_name k = true -> x < length s -> getattr (chain_fuel s) s x k = spec_get s x k.
Proof. intros D H. unfold spec_get. apply getattr_final; auto. unfold chain_fuel. lia. Qed.

Lemma final_plain f : forall x, x < f -> x < length s ->
  final f s x < length s /\ okind_of (oget s (final f s x)) = Plain /\ final f s x <= x.
Proof.
  induction f as [|f IH]; intros x Hx Hl; [lia|]. cbn [final].
  pose proof (clean x Hl) as C. destruct (okind_of (oget s x)) as [|t] eqn:K; [auto|].
  destruct C as [_ Lt]. destruct (IH t) as [A [B Cc]]; try lia. repeat split; auto. lia.
Qed.

(** writing a data attribute through a link chain writes the final target's dictionary *)
Lemma setattr_final k v : data_name k = true -> forall f x, x < f -> x < length s ->
  setattr f s x k v =
  Ok (oupd s (final f s x) {| okind_of := Plain; odict := dset (odict (oget s (final f s x))) k v |}).
Proof.
  intros D. destruct (data_name_not_refused k D) as [_ NL].
  induction f as [|f IH]; intros x Hx Hl; [lia|]. cbn [setattr final].
  pose proof (clean x Hl) as C. destruct (okind_of (oget s x)) as [|t] eqn:K; [reflexivity|].
  destruct C as [_ Lt]. rewrite NL. apply IH; lia.
Qed.
End P.

(** the invariant is kept by writes and object creation *)
Lemma clean_after_write s y d : link_clean s -> y < length s -> okind_of (oget s y) = Plain ->
  link_clean (oupd s y {| okind_of := Plain; odict := d |}).
Proof.
  intros C Hy K x Hx. rewrite oupd_length in Hx. destruct (Nat.eq_dec y x) as [->|N].
  - rewrite oget_oupd_same by auto. exact Logic.I.
  - rewrite oget_oupd_other by auto. apply C; auto.
Qed.

Lemma final_after_write s y d f : link_clean s -> y < length s -> okind_of (oget s y) = Plain ->
  forall x, final f (oupd s y {| okind_of := Plain; odict := d |}) x = final f s x.
Proof.
  intros C Hy K. induction f as [|f IH]; intros x; [reflexivity|]. cbn [final].
  destruct (Nat.eq_dec y x) as [->|N].
  - destruct (Nat.lt_ge_cases x (length s)).
    + rewrite oget_oupd_same by auto. cbn. rewrite K. reflexivity.
    + lia.
  - rewrite oget_oupd_other by auto. destruct (okind_of (oget s x)); auto.
Qed.

Lemma Ok_inj {A} (a b : A) : @Ok A a = Ok b -> a = b.
Proof. intros H. injection H. auto. Qed.

(** a value written through any object is read back through it - and through
    every other object with the same final target - at any later time until
    the next write to that attribute *)
Theorem write_then_read s x x' k v s' : link_clean s -> data_name k = true -> x < length s -> x' < length s ->
  final (chain_fuel s) s x' = final (chain_fuel s) s x ->
  setattr (chain_fuel s) s x k v = Ok s' ->
  link_clean s' /\ length s' = length s /\ getattr (chain_fuel s') s' x' k = Ok v.
Proof.
  intros C D Hx Hx' SameT W.
  assert (Fx : x < chain_fuel s) by (unfold chain_fuel; lia).
  assert (Fx' : x' < chain_fuel s) by (unfold chain_fuel; lia).
  rewrite (setattr_final s C k v D _ x Fx Hx) in W. apply Ok_inj in W. subst s'.
  destruct (final_plain s C _ x Fx Hx) as [Fl [Fk _]].
  set (y := final (chain_fuel s) s x) in *.
  set (d := dset (odict (oget s y)) k v).
  assert (C' : link_clean (oupd s y {| okind_of := Plain; odict := d |})) by (apply clean_after_write; auto).
  assert (L' : length (oupd s y {| okind_of := Plain; odict := d |}) = length s) by apply oupd_length.
  repeat split; auto.
  assert (CF : chain_fuel (oupd s y {| okind_of := Plain; odict := d |}) = chain_fuel s)
    by (unfold chain_fuel; rewrite L'; reflexivity).
  rewrite getattr_spec; auto; [|rewrite oupd_length; auto].
  unfold spec_get. rewrite CF.
  rewrite final_after_write by auto. rewrite SameT. fold y. rewrite oget_oupd_same by auto.
  cbn [odict]. unfold d. rewrite dget_dset_same. reflexivity.
Qed.
