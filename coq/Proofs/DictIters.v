(** C10: DictExporter with ANY attriter and any childiter that selects /
    reorders the given children: the exported dictionary is the structural
    image of the tree obtained by applying childiter to the children of every
    exported node, attriter (and the dict constructor) to its attributes, and
    cutting at maxlevel.  'children' is present only when non-empty. *)
Require Import AT.Model.Base AT.Model.DictIO AT.Spec.DictSpec AT.Proofs.ListLemmas AT.Proofs.DictProofs.
Local Open Scope Z_scope.

Section Iters.
Variable attriter : items -> items.
Variable childiter : list itree -> list itree.
Variable ml : option Z.

Definition below (level : Z) : bool := match ml with None => true | Some m => level <? m end.

(** the exported tree: what is handed to the dictionary builder, level by level *)
Fixpoint exported (fuel : nat) (level : Z) (t : itree) : itree :=
  match fuel with
  | O => t
  | S fu =>
      I (dict_of (attriter (iter_attr_values (iattrs t))))
        (if below level then map (exported fu (level + 1)) (childiter (ikids t)) else [])
  end.

Lemma iheight_in c cs : In c cs -> (S (iheight c) <= iheight (I [] cs))%nat.
Proof.
  cbn [iheight]. induction cs as [|x cs IHc]; cbn [fold_right In]; [tauto|].
  intros [->|Hc]; [lia|]. specialize (IHc Hc). lia.
Qed.

Hypothesis Hsel : forall l c, In c (childiter l) -> In c l.

Theorem export_iters : forall fuel t level, (iheight t < fuel)%nat ->
  export_ attriter childiter ml fuel level t = Ok (to_dtree (exported fuel level t)).
Proof.
  induction fuel as [|fu IH]; intros t level H; [lia|].
  destruct t as [a cs]. cbn [export_ exported iattrs ikids to_dtree]. fold (below level).
  destruct (below level).
  - rewrite (all_ok_map _ (fun c => to_dtree (exported fu (level + 1) c))).
    + cbn [bind]. f_equal. f_equal. rewrite map_map. destruct (childiter cs); reflexivity.
    + apply Forall_forall. intros c Hc. apply IH. apply Hsel in Hc.
      pose proof (iheight_in c cs Hc) as Hh. cbn [iheight] in H, Hh. lia.
  - reflexivity.
Qed.
End Iters.

Lemma strip_to_dtree u : strip (to_dtree u) = to_dtree u.
Proof.
  induction u as [a cs IH] using itree_ind'. cbn [to_dtree].
  destruct cs as [|c cs]; [reflexivity|].
  cbn [map strip]. f_equal. f_equal. change (map strip (map to_dtree (c :: cs)) = map to_dtree (c :: cs)).
  rewrite map_map. apply map_ext_Forall. exact IH.
Qed.

(** 'children' is never an empty list, whatever the iterators *)
Theorem export_no_empty_children attriter childiter ml t d :
  (forall l c, In c (childiter l) -> In c l) ->
  export attriter childiter ml t = Ok d -> strip d = d.
Proof.
  intros Hsel. unfold export. rewrite (export_iters attriter childiter ml Hsel) by apply Nat.lt_succ_diag_r.
  intros E. assert (Hd : to_dtree (exported attriter childiter ml (S (iheight t)) 1 t) = d) by congruence.
  rewrite <- Hd. apply strip_to_dtree.
Qed.
