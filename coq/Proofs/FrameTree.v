(** C02, the frame clause at the level of trees: the unfolding below a node
    depends only on the children lists of the nodes it shows.  Hence a
    successful parent assignment leaves the unfolding of every node whose
    subtree contains neither the old nor the new parent untouched - in
    particular the subtree of the moved node itself moves as a whole. *)
Require Import AT.Model.Base AT.Model.Heap AT.Model.Mutate AT.Model.Rose AT.Model.Abs AT.Spec.MutSpec AT.Spec.IterSpec.
Require Import AT.Proofs.ListLemmas AT.Proofs.HeapLemmas AT.Proofs.MutParent AT.Proofs.AbsProofs AT.Proofs.ForestCover.

Lemma abs_frame (h h' : heap) : forall fuel x,
  (forall y, In y (preorder (abs fuel h x)) -> children h' y = children h y) ->
  abs fuel h' x = abs fuel h x.
Proof.
  induction fuel as [|fu IH]; intros x F; [reflexivity|].
  cbn [abs]. f_equal.
  assert (Cx : children h' x = children h x) by (apply F; apply pre_abs_head).
  rewrite Cx. apply map_ext_in. intros c Hc. apply IH. intros y Hy. apply F.
  rewrite (pre_abs_S h). right. apply in_flat_map. exists c. split; assumption.
Qed.

Theorem tree_of_frame (h h' : heap) x : length h' = length h ->
  (forall y, In y (preorder (tree_of h x)) -> children h' y = children h y) ->
  tree_of h' x = tree_of h x.
Proof. intros L F. unfold tree_of, abs_fuel in *. rewrite L. apply abs_frame. exact F. Qed.

(** children lists after a parent assignment: only the old and the new parent's change *)
Lemma children_eff_set_parent h n v m : m < length h ->
  parent h n <> Some m -> v <> Some m -> children (eff_set_parent h n v) m = children h m.
Proof.
  intros B Hq Hp. unfold eff_set_parent. destruct (oid_eqb (parent h n) v) eqn:E; [reflexivity|].
  destruct (build_heap_get (length h)
    (fun m => if Nat.eqb m n then v else parent h m)
    (fun m => (if oid_eqb (parent h n) (Some m) then remove_id n (children h m) else children h m)
              ++ (if oid_eqb v (Some m) then [n] else [])) m B) as [_ C].
  rewrite C.
  assert (E1 : oid_eqb (parent h n) (Some m) = false).
  { destruct (oid_eqb (parent h n) (Some m)) eqn:E1; [|reflexivity]. exfalso. apply Hq.
    destruct (parent h n) as [q|]; cbn in E1; [apply Nat.eqb_eq in E1; congruence|discriminate]. }
  assert (E2 : oid_eqb v (Some m) = false).
  { destruct (oid_eqb v (Some m)) eqn:E2; [|reflexivity]. exfalso. apply Hp.
    destruct v as [q|]; cbn in E2; [apply Nat.eqb_eq in E2; congruence|discriminate]. }
  rewrite E1, E2. apply app_nil_r.
Qed.

Lemma length_eff_set_parent h n v : length (eff_set_parent h n v) = length h.
Proof. unfold eff_set_parent. destruct (oid_eqb _ _); [reflexivity|apply build_heap_length]. Qed.

Section Move.
Variable h : heap.
Hypothesis I : Inv h.

(** nodes shown below x are nodes of the universe when x is *)
Lemma shown_bound x y : x < length h -> In y (preorder (tree_of h x)) -> y < length h.
Proof. apply (unfolding_bound h I). Qed.

(** the unfolding of any node that shows neither the old nor the new parent is unchanged *)
Theorem move_frame n v x : x < length h ->
  (forall q, parent h n = Some q -> ~ In q (preorder (tree_of h x))) ->
  (forall p, v = Some p -> ~ In p (preorder (tree_of h x))) ->
  tree_of (eff_set_parent h n v) x = tree_of h x.
Proof.
  intros B Hq Hp. apply tree_of_frame; [apply length_eff_set_parent|].
  intros y Hy. apply children_eff_set_parent.
  - eapply shown_bound; eauto.
  - intros E. apply (Hq y E Hy).
  - intros E. apply (Hp y E Hy).
Qed.

(** a node is not shown below its own child *)
Lemma parent_not_below n q : parent h n = Some q -> ~ In q (preorder (tree_of h n)).
Proof.
  intros P Hin. destruct (inv_acyclic _ I q) as [lq Cq].
  assert (Cn : chain h n (q :: lq)) by (apply chain_step; assumption).
  unfold tree_of in Hin.
  destruct (abs_below_chain h I _ n q Hin (q :: lq) Cn) as [pre [lx [Cx E]]].
  rewrite (chain_fun h q lx Cx lq Cq) in E.
  apply (f_equal (@length id)) in E. rewrite app_length in E. cbn [length] in E. lia.
Qed.

(** the moved node takes its whole subtree along: unless the new parent lies
    in that subtree (the LoopError case), the unfolding below n is the same
    tree before and after *)
Theorem move_keeps_subtree n v : n < length h ->
  (forall p, v = Some p -> ~ In p (preorder (tree_of h n))) ->
  tree_of (eff_set_parent h n v) n = tree_of h n.
Proof.
  intros B Hp. apply move_frame; [exact B| |exact Hp].
  intros q P. apply parent_not_below. exact P.
Qed.
End Move.
