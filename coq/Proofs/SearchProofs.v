(** C14: the search functions are the count rule applied to the C06 pre-order. *)
Require Import AT.Model.Base AT.Model.Rose AT.Model.Iter AT.Model.Search.
Require Import AT.Spec.IterSpec AT.Spec.SearchSpec AT.Proofs.ListLemmas AT.Proofs.IterPre.
Local Open Scope Z_scope.

Theorem findall_spec f stop ml lo hi t :
  findall f stop ml lo hi t = spec_findall f stop ml lo hi t.
Proof.
  unfold findall, spec_findall, count_check. rewrite pre_spec.
  destruct lo as [m|], hi as [M|]; simpl;
    repeat match goal with |- context [if ?b then _ else _] => destruct b end; reflexivity.
Qed.

Theorem find_spec f stop ml t : find f stop ml t = spec_find f stop ml t.
Proof.
  unfold find, spec_find. rewrite findall_spec. unfold spec_findall, count_check.
  destruct (spec_pre f stop ml t) as [|x [|y l]]; try reflexivity.
  set (L := x :: y :: l).
  assert (H : 1 <? Z.of_nat (length L) = true).
  { apply Z.ltb_lt. unfold L. cbn [length]. lia. }
  cbv beta iota. rewrite H. reflexivity.
Qed.

(** CountError is raised iff the number of matches is below mincount or above
    maxcount, and the message numbers are the bound and the count *)
Theorem findall_counterror_iff f stop ml lo hi t :
  let len := Z.of_nat (length (spec_pre f stop ml t)) in
  (exists e, findall f stop ml lo hi t = Err e) <->
  ((exists m, lo = Some m /\ len < m) \/ (exists M, hi = Some M /\ M < len)).
Proof.
  intros len. rewrite findall_spec. unfold spec_findall, count_check. fold len.
  destruct lo as [m|], hi as [M|]; cbv beta iota;
    repeat match goal with |- context [Z.ltb ?a ?b] => destruct (Z.ltb_spec a b) end;
    (split;
     [ intros [e E]; try discriminate E;
       first [ left; eexists; split; [reflexivity|assumption]
             | right; eexists; split; [reflexivity|assumption] ]
     | intros [[m' [E L]]|[M' [E L]]]; try discriminate E;
       try (injection E as <-); try lia; eexists; reflexivity ]).
Qed.

Theorem findall_by_attr_spec {val} (val_eqb : val -> val -> bool) attr value ml lo hi t :
  findall_by_attr val val_eqb attr value ml lo hi t
  = count_check lo hi (spec_pre (has_attr_value val_eqb attr value) (fun _ => false) ml t).
Proof. unfold findall_by_attr. rewrite findall_spec. reflexivity. Qed.

Theorem find_by_attr_spec {val} (val_eqb : val -> val -> bool) attr value ml t :
  find_by_attr val val_eqb attr value ml t
  = spec_find (has_attr_value val_eqb attr value) (fun _ => false) ml t.
Proof. unfold find_by_attr. rewrite find_spec. reflexivity. Qed.
