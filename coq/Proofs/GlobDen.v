(** C08: in relaxed mode glob never raises and returns exactly the nodes the
    pattern denotes (as a set). *)
Require Import AT.Model.Base AT.Model.Rose AT.Model.Nav AT.Model.Resolver AT.Spec.ResolverSpec.
Require Import AT.Generated.Extracted AT.Proofs.ListLemmas AT.Proofs.NavProofs AT.Proofs.GlobProofs.

Section D.
Variable nm : id -> str.
Variable ic : bool.
Variable t : tree.

Notation G := (glob_rec nm ic true t).

Lemma mem_pos_In l p : mem_pos l p = true <-> In p l.
Proof.
  unfold mem_pos. rewrite existsb_exists. split.
  - intros [x [H E]]. apply pos_eqb_spec in E. subst. exact H.
  - intros H. exists p. split; auto. apply pos_eqb_spec. reflexivity.
Qed.
Lemma add_new_In ms : forall a x, In x (add_new a ms) <-> In x a \/ In x ms.
Proof.
  unfold add_new. induction ms as [|m ms IH]; intros a x; cbn [fold_left]; [simpl; tauto|].
  rewrite IH. destruct (mem_pos a m) eqn:M.
  - apply mem_pos_In in M. simpl. split; [intros [H|H]; auto|intros [H|[<-|H]]; auto].
  - rewrite in_app_iff. simpl. tauto.
Qed.

(** the '**' loop when no sub-call raises *)
Lemma starstar_fold (g : pos -> list pos) (R : pos -> result (list pos)) subs : (forall s, R s = Ok (g s)) ->
  forall a,
  fold_left (fun acc sub => matches <- acc ;;
                            match R sub with
                            | Ok ms => Ok (add_new matches ms)
                            | Err ChildResolverError => Ok matches
                            | Err e => Err e
                            | OutOfFuel => OutOfFuel
                            end) subs (Ok a)
  = Ok (fold_left (fun acc sub => add_new acc (g sub)) subs a).
Proof.
  intros H. induction subs as [|s subs IH]; intros a; cbn [fold_left]; [reflexivity|].
  cbn [bind]. rewrite H. apply IH.
Qed.
Lemma starstar_In (g : pos -> list pos) subs : forall a x,
  In x (fold_left (fun acc sub => add_new acc (g sub)) subs a) <-> In x a \/ exists s, In s subs /\ In x (g s).
Proof.
  induction subs as [|s subs IH]; intros a x; cbn [fold_left].
  - split; [auto|intros [H|[s [[] _]]]; auto].
  - rewrite IH, add_new_In. split.
    + intros [[H|H]|[s' [Hs Hx]]]; auto; right; [exists s|exists s']; simpl; auto.
    + intros [H|[s' [[<-|Hs] Hx]]]; auto. right. exists s'. auto.
Qed.

(** the __find loop when no sub-call raises *)
Lemma find_fold (sel : pos -> bool) (g : pos -> list pos) (R : pos -> result (list pos)) (isnil : bool)
      (onerr : exn -> list pos -> result (list pos)) cs :
  (forall c, R c = Ok (g c)) -> forall a,
  fold_left (fun acc child => matches <- acc ;;
                              if sel child then
                                (if isnil then Ok (matches ++ [child])
                                 else match R child with
                                      | Ok ms => Ok (matches ++ ms)
                                      | Err e => onerr e matches
                                      | OutOfFuel => OutOfFuel
                                      end)
                              else Ok matches) cs (Ok a)
  = Ok (a ++ flat_map (fun c => if sel c then (if isnil then [c] else g c) else []) cs).
Proof.
  intros H. induction cs as [|c cs IH]; intros a; cbn [fold_left flat_map]; [rewrite app_nil_r; reflexivity|].
  cbn [bind]. destruct (sel c).
  - destruct isnil; [|rewrite H]; rewrite IH, <- app_assoc; reflexivity.
  - rewrite IH. reflexivity.
Qed.

Lemma lits_glob : lit_glob_stay = [[]; s_dot] /\ dotdot = s_dotdot /\ starstar = s_starstar.
Proof. repeat split. Qed.

(** relaxed mode never raises ... *)
Theorem relaxed_total comps : forall p, exists l, G comps p = Ok l.
Proof.
  induction comps as [|name rest IH]; intros p; cbn [glob_rec]; [eauto|].
  destruct (str_eqb name dotdot).
  { destruct (parent_pos p); [apply IH|eauto]. }
  destruct (is_lit lit_glob_stay name); [apply IH|].
  destruct (str_eqb name starstar).
  { assert (H : forall s, G rest s = Ok (match G rest s with Ok l => l | _ => [] end)).
    { intros s. destruct (IH s) as [l E]. rewrite E. reflexivity. }
    rewrite (starstar_fold _ _ _ H). eauto. }
  assert (H : forall s, G rest s = Ok (match G rest s with Ok l => l | _ => [] end)).
  { intros s. destruct (IH s) as [l E]. rewrite E. reflexivity. }
  destruct rest as [|r0 rest'].
  - rewrite (find_fold (fun c => wmatch ic (name_at nm t c) name) (fun _ => []) (fun _ => Ok []) true (fun _ m => Ok m)); [|reflexivity].
    cbn [bind app]. destruct (flat_map _ _); [rewrite andb_false_r|]; eauto.
  - match goal with |- context [fold_left ?F ?cs (Ok [])] =>
      assert (E : fold_left F cs (Ok []) =
                  Ok ([] ++ flat_map (fun c => if wmatch ic (name_at nm t c) name
                                               then (if false then [c] else match G (r0 :: rest') c with Ok l => l | _ => [] end) else []) cs))
    end.
    { rewrite <- (find_fold (fun c => wmatch ic (name_at nm t c) name) _ (G (r0 :: rest')) false
                     (fun e m => if is_wildcard name then Ok m else Err e)); [|exact H].
      reflexivity. }
    rewrite E. cbn [bind app]. destruct (flat_map _ _); [rewrite andb_false_r|]; eauto.
Qed.

Definition gl (comps : list str) (p : pos) : list pos := match G comps p with Ok l => l | _ => [] end.
Lemma G_gl comps p : G comps p = Ok (gl comps p).
Proof. unfold gl. destruct (relaxed_total comps p) as [l E]. rewrite E. reflexivity. Qed.

Lemma is_lit_stay name : is_lit lit_glob_stay name = str_eqb name [] || str_eqb name s_dot.
Proof. unfold is_lit. cbn. rewrite orb_false_r. reflexivity. Qed.

Lemma wmatch_wild c name : wmatch ic (name_at nm t c) name = wild_b ic name (nm (label_at t c)).
Proof. unfold wmatch, name_at. apply rmatch_translate. Qed.

(** ... and returns exactly the denotation, as a set *)
Theorem relaxed_den comps : forall p x, In x (gl comps p) <-> In x (den nm ic t comps p).
Proof.
  induction comps as [|name rest IH]; intros p x; [unfold gl; cbn; reflexivity|].
  unfold gl. cbn [glob_rec den].
  change dotdot with s_dotdot. change starstar with s_starstar. rewrite is_lit_stay.
  destruct (str_eqb name s_dotdot).
  { destruct p as [|i p']; [cbn; reflexivity|]. cbn [parent_pos]. fold (gl rest (removelast (i :: p'))). apply IH. }
  destruct (str_eqb name [] || str_eqb name s_dot); [fold (gl rest p); apply IH|].
  destruct (str_eqb name s_starstar).
  { rewrite (starstar_fold (gl rest) _ _ (G_gl rest)). rewrite starstar_In, in_flat_map.
    split.
    - intros [[]|[s [Hs Hx]]]. exists s. split; auto. apply IH; auto.
    - intros [s [Hs Hx]]. right. exists s. split; auto. apply IH; auto. }
  (* a name or wildcard component *)
  assert (K : forall (isnil : bool) (g : pos -> list pos) cs,
            In x (flat_map (fun c => if wmatch ic (name_at nm t c) name then (if isnil then [c] else g c) else []) cs)
            <-> exists c, In c cs /\ wild_b ic name (nm (label_at t c)) = true /\ In x (if isnil then [c] else g c)).
  { intros isnil g cs. rewrite in_flat_map. split.
    - intros [c [Hc Hx]]. exists c. rewrite wmatch_wild in Hx. destruct (wild_b ic name (nm (label_at t c))); [auto|destruct Hx].
    - intros [c [Hc [W Hx]]]. exists c. split; auto. rewrite wmatch_wild, W. exact Hx. }
  rewrite in_flat_map.
  assert (DS : (exists c, In c (filter (fun ch => wild_b ic name (nm (label_at t ch))) (children_pos t p)) /\ In x (den nm ic t rest c))
               <-> exists c, In c (children_pos t p) /\ wild_b ic name (nm (label_at t c)) = true /\ In x (den nm ic t rest c)).
  { split; intros [c H]; exists c; [destruct H as [H1 H2]; apply filter_In in H1; tauto|rewrite filter_In; tauto]. }
  rewrite DS. clear DS.
  destruct rest as [|r0 rest'].
  - rewrite (find_fold (fun c => wmatch ic (name_at nm t c) name) (fun _ => []) (fun _ => Ok []) true (fun _ m => Ok m)); [|reflexivity].
    cbn [bind app].
    assert (E : forall l : list pos, In x (match (match l with [] => if negb (is_wildcard name) && negb true then Err ChildResolverError else Ok [] | _ :: _ => Ok l end) with Ok l' => l' | _ => [] end) <-> In x l).
    { intros [|a l]; [rewrite andb_false_r|]; reflexivity. }
    rewrite E, (K true (fun _ => [])). cbn [den]. reflexivity.
  - match goal with |- context [fold_left ?F ?cs (Ok [])] =>
      assert (E0 : fold_left F cs (Ok []) =
                  Ok ([] ++ flat_map (fun c => if wmatch ic (name_at nm t c) name
                                               then (if false then [c] else gl (r0 :: rest') c) else []) cs))
    end.
    { rewrite <- (find_fold (fun c => wmatch ic (name_at nm t c) name) _ (G (r0 :: rest')) false
                     (fun e m => if is_wildcard name then Ok m else Err e)); [|apply G_gl].
      reflexivity. }
    rewrite E0. cbn [bind app].
    assert (E : forall l : list pos, In x (match (match l with [] => if negb (is_wildcard name) && negb true then Err ChildResolverError else Ok [] | _ :: _ => Ok l end) with Ok l' => l' | _ => [] end) <-> In x l).
    { intros [|a l]; [rewrite andb_false_r|]; reflexivity. }
    rewrite E, (K false). split; intros [c [H1 [H2 H3]]]; exists c; (split; [auto|split; [auto|apply IH; auto]]).
Qed.
End D.
