(** A run consults its fault oracle only at the hook-invocation indices between
    the counter it starts with and the counter it ends with: two oracles that
    agree on that range give the same run.  (Used to transfer the fault-free
    run theorems to the fault-free phases of a faulted call.) *)
Require Import AT.Model.Base AT.Model.Heap AT.Model.Mutate.
Require Import Lia.

Section E.
Variables (typed asrt : bool) (f1 f2 : nat -> hookkind -> id -> bool).

(** [m2] is the run under f2; the oracles agree on the indices it consults *)
Definition agree_on (lo hi : nat) : Prop := forall i k n, lo <= i < hi -> f1 i k n = f2 i k n.
Definition simb {A} (m1 m2 : M A) : Prop :=
  forall s, agree_on (cnt s) (cnt (snd (m2 s))) -> m1 s = m2 s.
Definition mono {A} (m : M A) : Prop := forall s, cnt s <= cnt (snd (m s)).

Lemma simb_refl {A} (m : M A) : simb m m.
Proof. intros s _. reflexivity. Qed.
Lemma mono_ret {A} (a : A) : mono (ret a). Proof. intros s. cbn. lia. Qed.
Lemma mono_raise {A} e : mono (@raise A e). Proof. intros s. cbn. lia. Qed.
Lemma mono_lift {A} (r : result A) : mono (lift r). Proof. intros s. cbn. lia. Qed.
Lemma mono_get : mono get_heap. Proof. intros s. cbn. lia. Qed.
Lemma mono_put h : mono (put_heap h). Proof. intros s. cbn. lia. Qed.
Lemma mono_massert b : mono (massert asrt b).
Proof. intros s. unfold massert. destruct (asrt && negb b); cbn; lia. Qed.
Lemma mono_hook f k n args : mono (hook f k n args).
Proof. intros s. unfold hook. destruct (f (cnt s) k n); cbn; lia. Qed.
Lemma mono_bind {A B} (m : M A) (k : A -> M B) : mono m -> (forall a, mono (k a)) -> mono (mbind m k).
Proof.
  intros Hm Hk s. unfold mbind. specialize (Hm s). destruct (m s) as [[a|e|] s']; cbn [snd] in *; try lia.
  specialize (Hk a s'). lia.
Qed.
Lemma mono_for_each {A} (l : list A) (body : A -> M unit) : (forall x, mono (body x)) -> mono (for_each l body).
Proof.
  intros H. induction l as [|x l IH]; cbn [for_each]; [apply mono_ret|]. apply mono_bind; [apply H|]. intros _. exact IH.
Qed.
Lemma mono_try {A} (m : M A) (h : exn -> M A) : mono m -> (forall e, mono (h e)) -> mono (try_except m h).
Proof.
  intros Hm Hh s. unfold try_except. specialize (Hm s). destruct (m s) as [[a|e|] s']; cbn [snd] in *; try lia.
  specialize (Hh e s'). lia.
Qed.

Lemma simb_bind {A B} (m1 m2 : M A) (k1 k2 : A -> M B) :
  simb m1 m2 -> mono m2 -> (forall a, simb (k1 a) (k2 a)) -> (forall a, mono (k2 a)) ->
  simb (mbind m1 k1) (mbind m2 k2).
Proof.
  intros Hm Mm Hk Mk s Ag. unfold mbind in *.
  assert (E : m1 s = m2 s).
  { apply Hm. intros i k n Hi. apply Ag. split; [lia|].
    destruct (m2 s) as [[a|e|] s'] eqn:E2; cbn [snd] in *; try lia.
    pose proof (Mk a s'). lia. }
  rewrite E. destruct (m2 s) as [[a|e|] s'] eqn:E2; try reflexivity.
  apply Hk. intros i k n Hi. apply Ag. pose proof (Mm s) as Ms. rewrite E2 in Ms. cbn [snd] in *. lia.
Qed.
Lemma simb_hook k n args : simb (hook f1 k n args) (hook f2 k n args).
Proof.
  intros s Ag. unfold hook in *.
  assert (E : f1 (cnt s) k n = f2 (cnt s) k n).
  { apply Ag. destruct (f2 (cnt s) k n); cbn; lia. }
  rewrite E. reflexivity.
Qed.
Lemma simb_for_each {A} (l : list A) (b1 b2 : A -> M unit) :
  (forall x, simb (b1 x) (b2 x)) -> (forall x, mono (b2 x)) -> simb (for_each l b1) (for_each l b2).
Proof.
  intros H Mb. induction l as [|x l IH]; cbn [for_each]; [apply simb_refl|].
  apply simb_bind; auto. intros _. apply mono_for_each. exact Mb.
Qed.
Lemma simb_try {A} (m1 m2 : M A) (h1 h2 : exn -> M A) :
  simb m1 m2 -> mono m2 -> (forall e, simb (h1 e) (h2 e)) -> (forall e, mono (h2 e)) ->
  simb (try_except m1 h1) (try_except m2 h2).
Proof.
  intros Hm Mm Hh Mh s Ag. unfold try_except in *.
  assert (E : m1 s = m2 s).
  { apply Hm. intros i k n Hi. apply Ag. split; [lia|].
    destruct (m2 s) as [[a|e|] s'] eqn:E2; cbn [snd] in *; try lia.
    pose proof (Mh e s'). lia. }
  rewrite E. destruct (m2 s) as [[a|e|] s'] eqn:E2; try reflexivity.
  apply Hh. intros i k n Hi. apply Ag. pose proof (Mm s) as Ms. rewrite E2 in Ms. cbn [snd] in *. lia.
Qed.

(** ---- the setters ---- *)
Lemma mono_check_loop n v : mono (check_loop n v).
Proof.
  unfold check_loop. destruct v as [p|]; [|apply mono_ret]. destruct (Nat.eqb p n); [apply mono_raise|].
  apply mono_bind; [apply mono_get|]. intros h. apply mono_bind; [apply mono_lift|]. intros l.
  destruct (mem l n); [apply mono_raise|apply mono_ret].
Qed.
Lemma mono_detach f n p : mono (detach asrt f n p).
Proof.
  destruct p as [p|]; [|apply mono_ret]. unfold detach.
  apply mono_bind; [apply mono_hook|]. intros _. apply mono_bind; [apply mono_get|]. intros h.
  apply mono_bind; [apply mono_massert|]. intros _. apply mono_bind; [apply mono_put|]. intros _. apply mono_hook.
Qed.
Lemma mono_attach f n p : mono (attach asrt f n p).
Proof.
  destruct p as [p|]; [|apply mono_ret]. unfold attach.
  apply mono_bind; [apply mono_hook|]. intros _. apply mono_bind; [apply mono_get|]. intros h.
  apply mono_bind; [apply mono_massert|]. intros _. apply mono_bind; [apply mono_put|]. intros _. apply mono_hook.
Qed.
Lemma mono_set_parent f n v : mono (set_parent typed asrt f n v).
Proof.
  unfold set_parent. destruct v as [|q|]; [| |destruct typed; apply mono_raise];
    (apply mono_bind; [apply mono_get|]; intros h; cbv zeta;
     match goal with |- mono (if ?b then _ else _) => destruct b end; [apply mono_ret|];
     apply mono_bind; [apply mono_check_loop|]; intros _; apply mono_bind; [apply mono_detach|]; intros _; apply mono_attach).
Qed.
Lemma simb_detach n p : simb (detach asrt f1 n p) (detach asrt f2 n p).
Proof.
  destruct p as [p|]; [|apply simb_refl]. unfold detach.
  apply simb_bind; [apply simb_hook|apply mono_hook| |].
  - intros _. apply simb_bind; [apply simb_refl|apply mono_get| |].
    + intros h. apply simb_bind; [apply simb_refl|apply mono_massert| |].
      * intros _. apply simb_bind; [apply simb_refl|apply mono_put|intros _; apply simb_hook|intros _; apply mono_hook].
      * intros _. apply mono_bind; [apply mono_put|intros _; apply mono_hook].
    + intros h. apply mono_bind; [apply mono_massert|]. intros _. apply mono_bind; [apply mono_put|intros _; apply mono_hook].
  - intros _. apply mono_bind; [apply mono_get|]. intros h. apply mono_bind; [apply mono_massert|]. intros _.
    apply mono_bind; [apply mono_put|intros _; apply mono_hook].
Qed.
Lemma simb_attach n p : simb (attach asrt f1 n p) (attach asrt f2 n p).
Proof.
  destruct p as [p|]; [|apply simb_refl]. unfold attach.
  apply simb_bind; [apply simb_hook|apply mono_hook| |].
  - intros _. apply simb_bind; [apply simb_refl|apply mono_get| |].
    + intros h. apply simb_bind; [apply simb_refl|apply mono_massert| |].
      * intros _. apply simb_bind; [apply simb_refl|apply mono_put|intros _; apply simb_hook|intros _; apply mono_hook].
      * intros _. apply mono_bind; [apply mono_put|intros _; apply mono_hook].
    + intros h. apply mono_bind; [apply mono_massert|]. intros _. apply mono_bind; [apply mono_put|intros _; apply mono_hook].
  - intros _. apply mono_bind; [apply mono_get|]. intros h. apply mono_bind; [apply mono_massert|]. intros _.
    apply mono_bind; [apply mono_put|intros _; apply mono_hook].
Qed.
Lemma simb_set_parent n v : simb (set_parent typed asrt f1 n v) (set_parent typed asrt f2 n v).
Proof.
  unfold set_parent. destruct v as [|q|]; [| |apply simb_refl].
  - apply simb_bind; [apply simb_refl|apply mono_get| |].
    + intros h. cbv zeta. destruct (option_eqb Nat.eqb (parent h n) None); [apply simb_refl|].
      apply simb_bind; [apply simb_refl|apply mono_check_loop| |].
      * intros _. apply simb_bind; [apply simb_detach|apply mono_detach|intros _; apply simb_attach|intros _; apply mono_attach].
      * intros _. apply mono_bind; [apply mono_detach|intros _; apply mono_attach].
    + intros h. cbv zeta. destruct (option_eqb Nat.eqb (parent h n) None); [apply mono_ret|].
      apply mono_bind; [apply mono_check_loop|]. intros _. apply mono_bind; [apply mono_detach|intros _; apply mono_attach].
  - apply simb_bind; [apply simb_refl|apply mono_get| |].
    + intros h. cbv zeta. destruct (option_eqb Nat.eqb (parent h n) (Some q)); [apply simb_refl|].
      apply simb_bind; [apply simb_refl|apply mono_check_loop| |].
      * intros _. apply simb_bind; [apply simb_detach|apply mono_detach|intros _; apply simb_attach|intros _; apply mono_attach].
      * intros _. apply mono_bind; [apply mono_detach|intros _; apply mono_attach].
    + intros h. cbv zeta. destruct (option_eqb Nat.eqb (parent h n) (Some q)); [apply mono_ret|].
      apply mono_bind; [apply mono_check_loop|]. intros _. apply mono_bind; [apply mono_detach|intros _; apply mono_attach].
Qed.

Lemma mono_del_children f n : mono (del_children typed asrt f n).
Proof.
  unfold del_children. apply mono_bind; [apply mono_get|]. intros h. apply mono_bind; [apply mono_hook|]. intros _.
  apply mono_bind; [apply mono_for_each; intros c; apply mono_set_parent|]. intros _.
  apply mono_bind; [apply mono_get|]. intros h'. apply mono_bind; [apply mono_massert|]. intros _. apply mono_hook.
Qed.
Lemma simb_del_children n : simb (del_children typed asrt f1 n) (del_children typed asrt f2 n).
Proof.
  unfold del_children. apply simb_bind; [apply simb_refl|apply mono_get| |].
  - intros h. apply simb_bind; [apply simb_hook|apply mono_hook| |].
    + intros _. apply simb_bind; [apply simb_for_each; [intros c; apply simb_set_parent|intros c; apply mono_set_parent]
                                  |apply mono_for_each; intros c; apply mono_set_parent| |].
      * intros _. apply simb_bind; [apply simb_refl|apply mono_get| |].
        -- intros h'. apply simb_bind; [apply simb_refl|apply mono_massert|intros _; apply simb_hook|intros _; apply mono_hook].
        -- intros h'. apply mono_bind; [apply mono_massert|intros _; apply mono_hook].
      * intros _. apply mono_bind; [apply mono_get|]. intros h'. apply mono_bind; [apply mono_massert|intros _; apply mono_hook].
    + intros _. apply mono_bind; [apply mono_for_each; intros c; apply mono_set_parent|]. intros _.
      apply mono_bind; [apply mono_get|]. intros h'. apply mono_bind; [apply mono_massert|intros _; apply mono_hook].
  - intros h. apply mono_bind; [apply mono_hook|]. intros _.
    apply mono_bind; [apply mono_for_each; intros c; apply mono_set_parent|]. intros _.
    apply mono_bind; [apply mono_get|]. intros h'. apply mono_bind; [apply mono_massert|intros _; apply mono_hook].
Qed.

Lemma mono_check_children seen xs : mono (check_children typed seen xs).
Proof.
  revert seen. induction xs as [|x xs IH]; intros seen; cbn [check_children]; [apply mono_ret|].
  destruct x as [|c|]; try (destruct typed; [apply mono_raise|apply IH]). destruct (mem seen c); [apply mono_raise|apply IH].
Qed.
Lemma mono_assign f x n : mono (assign_parent_of typed asrt f x n).
Proof. destruct x as [|c|]; cbn [assign_parent_of]; try apply mono_raise. apply mono_set_parent. Qed.
Lemma simb_assign x n : simb (assign_parent_of typed asrt f1 x n) (assign_parent_of typed asrt f2 x n).
Proof. destruct x as [|c|]; cbn [assign_parent_of]; try apply simb_refl. apply simb_set_parent. Qed.

Lemma mono_set_children f fuel : forall n a, mono (set_children typed asrt f fuel n a).
Proof.
  induction fuel as [|fu IH]; intros n a; cbn [set_children]; [apply mono_raise|].
  destruct a as [xs|]; [|apply mono_raise].
  apply mono_bind; [apply mono_check_children|]. intros _. apply mono_bind; [apply mono_get|]. intros h.
  apply mono_bind; [apply mono_del_children|]. intros _. apply mono_try.
  - apply mono_bind; [apply mono_hook|]. intros _. apply mono_bind; [apply mono_for_each; intros x; apply mono_assign|]. intros _.
    apply mono_bind; [apply mono_hook|]. intros _. apply mono_bind; [apply mono_get|]. intros h'. apply mono_massert.
  - intros e. apply mono_bind; [apply IH|]. intros _. apply mono_raise.
Qed.
Lemma simb_set_children fuel : forall n a, simb (set_children typed asrt f1 fuel n a) (set_children typed asrt f2 fuel n a).
Proof.
  induction fuel as [|fu IH]; intros n a; cbn [set_children]; [apply simb_refl|].
  destruct a as [xs|]; [|apply simb_refl].
  apply simb_bind; [apply simb_refl|apply mono_check_children| |].
  - intros _. apply simb_bind; [apply simb_refl|apply mono_get| |].
    + intros h. apply simb_bind; [apply simb_del_children|apply mono_del_children| |].
      * intros _. apply simb_try.
        -- apply simb_bind; [apply simb_hook|apply mono_hook| |].
           ++ intros _. apply simb_bind; [apply simb_for_each; [intros x; apply simb_assign|intros x; apply mono_assign]
                                         |apply mono_for_each; intros x; apply mono_assign| |].
              ** intros _. apply simb_bind; [apply simb_hook|apply mono_hook|intros _; apply simb_refl|].
                 intros _. apply mono_bind; [apply mono_get|intros h'; apply mono_massert].
              ** intros _. apply mono_bind; [apply mono_hook|]. intros _. apply mono_bind; [apply mono_get|intros h'; apply mono_massert].
           ++ intros _. apply mono_bind; [apply mono_for_each; intros x; apply mono_assign|]. intros _.
              apply mono_bind; [apply mono_hook|]. intros _. apply mono_bind; [apply mono_get|intros h'; apply mono_massert].
        -- apply mono_bind; [apply mono_hook|]. intros _. apply mono_bind; [apply mono_for_each; intros x; apply mono_assign|]. intros _.
           apply mono_bind; [apply mono_hook|]. intros _. apply mono_bind; [apply mono_get|intros h'; apply mono_massert].
        -- intros e. apply simb_bind; [apply IH|apply mono_set_children|intros _; apply simb_refl|intros _; apply mono_raise].
        -- intros e. apply mono_bind; [apply mono_set_children|intros _; apply mono_raise].
      * intros _. apply mono_try.
        -- apply mono_bind; [apply mono_hook|]. intros _. apply mono_bind; [apply mono_for_each; intros x; apply mono_assign|]. intros _.
           apply mono_bind; [apply mono_hook|]. intros _. apply mono_bind; [apply mono_get|intros h'; apply mono_massert].
        -- intros e. apply mono_bind; [apply mono_set_children|intros _; apply mono_raise].
    + intros h. apply mono_bind; [apply mono_del_children|]. intros _. apply mono_try.
      * apply mono_bind; [apply mono_hook|]. intros _. apply mono_bind; [apply mono_for_each; intros x; apply mono_assign|]. intros _.
        apply mono_bind; [apply mono_hook|]. intros _. apply mono_bind; [apply mono_get|intros h'; apply mono_massert].
      * intros e. apply mono_bind; [apply mono_set_children|intros _; apply mono_raise].
  - intros _. apply mono_bind; [apply mono_get|]. intros h. apply mono_bind; [apply mono_del_children|]. intros _. apply mono_try.
    + apply mono_bind; [apply mono_hook|]. intros _. apply mono_bind; [apply mono_for_each; intros x; apply mono_assign|]. intros _.
      apply mono_bind; [apply mono_hook|]. intros _. apply mono_bind; [apply mono_get|intros h'; apply mono_massert].
    + intros e. apply mono_bind; [apply mono_set_children|intros _; apply mono_raise].
Qed.
End E.

(** every call: an oracle that does not fire from the current counter on gives the fault-free run *)
Section Lift.
Variables (typed asrt : bool) (faults : nat -> hookkind -> id -> bool).

Ltac mono_solve :=
  repeat first
    [ apply mono_ret | apply mono_raise | apply mono_get | apply mono_put | apply mono_hook | apply mono_massert
    | apply mono_lift | apply mono_set_parent | apply mono_set_children | apply mono_del_children
    | (apply mono_bind; [|intros ?])
    | match goal with |- mono (if ?b then _ else _) => destruct b end
    | match goal with |- mono (match ?c with Some _ => _ | None => _ end) => destruct c end
    | match goal with |- mono (let '(_, _) := ?x in _) => destruct x end ].

Lemma mono_construct f fuel p c : mono (construct typed asrt f fuel p c ;;; ret tt).
Proof. unfold construct. mono_solve. Qed.
Lemma simb_construct fuel p c :
  simb faults no_faults (construct typed asrt faults fuel p c ;;; ret tt) (construct typed asrt no_faults fuel p c ;;; ret tt).
Proof.
  unfold construct.
  apply simb_bind; [|mono_solve|intros ?; apply simb_refl|intros ?; mono_solve].
  apply simb_bind; [apply simb_refl|mono_solve| |intros h; mono_solve].
  intros h. destruct (alloc h) as [h1 n].
  apply simb_bind; [apply simb_refl|mono_solve| |intros ?; mono_solve].
  intros ?. apply simb_bind; [apply simb_set_parent|mono_solve| |intros ?; mono_solve].
  intros ?. apply simb_bind; [|mono_solve|intros ?; apply simb_refl|intros ?; mono_solve].
  destruct (truthy c); [|apply simb_refl]. destruct c as [ca|]; [apply simb_set_children|apply simb_refl].
Qed.

Theorem quiet_oracle_is_fault_free fuel o s :
  (forall i k n, cnt s <= i -> faults i k n = false) ->
  run_op typed asrt faults fuel o s = run_op typed asrt no_faults fuel o s.
Proof.
  intros Q.
  assert (Ag : forall hi, agree_on faults no_faults (cnt s) hi) by (intros hi i k n [Hi _]; apply Q; exact Hi).
  destruct o as [n v|n a|n|p c]; cbn [run_op].
  - apply simb_set_parent. apply Ag.
  - apply simb_set_children. apply Ag.
  - apply simb_del_children. apply Ag.
  - apply simb_construct. apply Ag.
Qed.
End Lift.
