(** C01 at the level of trees: a consistent link heap IS a forest - every node
    lies in the unfolding [tree_of h r] of exactly one parentless node r (the
    top of its ancestor chain), and the unfolding of a node contains only nodes
    of its own tree.  This is what makes "iterate from the root" (C05) and "the
    links" (C01) two views of the same object. *)
Require Import AT.Model.Base AT.Model.Heap AT.Model.Rose AT.Model.Abs AT.Spec.MutSpec AT.Spec.IterSpec.
Require Import AT.Proofs.ListLemmas AT.Proofs.HeapLemmas AT.Proofs.AbsProofs AT.Proofs.PickleProofs AT.Proofs.CopyTree.

Section F.
Variable h : heap.
Hypothesis I : Inv h.

Lemma pre_abs_S fuel r :
  preorder (abs (S fuel) h r) = r :: flat_map (fun c => preorder (abs fuel h c)) (children h r).
Proof.
  cbn [abs preorder]. f_equal.
  induction (children h r) as [|c cs IH]; cbn [map flat_map]; [reflexivity|]. rewrite IH. reflexivity.
Qed.

Lemma pre_abs_head fuel r : In r (preorder (abs fuel h r)).
Proof. destruct fuel; cbn [abs preorder]; left; reflexivity. Qed.

(** one more unit of fuel shows the children of everything already shown *)
Lemma abs_closed : forall fuel r x c, In x (preorder (abs fuel h r)) -> In c (children h x) ->
  In c (preorder (abs (S fuel) h r)).
Proof.
  induction fuel as [|fu IH]; intros r x c Hx Hc.
  - cbn [abs preorder flat_map] in Hx. destruct Hx as [<-|[]].
    rewrite pre_abs_S. right. apply in_flat_map. exists c. split; [exact Hc|apply pre_abs_head].
  - rewrite pre_abs_S in Hx. rewrite pre_abs_S. right. destruct Hx as [<-|Hx].
    + apply in_flat_map. exists c. split; [exact Hc|apply pre_abs_head].
    + apply in_flat_map in Hx. destruct Hx as [k [Hk Hx]].
      apply in_flat_map. exists k. split; [exact Hk|]. eapply IH; eauto.
Qed.

Lemma pre_closed r x c : In x (preorder (tree_of h r)) -> In c (children h x) -> In c (preorder (tree_of h r)).
Proof.
  intros Hx Hc.
  rewrite <- (abs_enough h I r (S (length h))) in Hx by lia.
  rewrite <- (abs_enough h I r (S (S (length h)))) by lia.
  eapply abs_closed; eauto.
Qed.

Lemma root_of_is_root : forall n l, chain h n l -> parent h (root_of n l) = None.
Proof. induction 1 as [n P|n p l P C IH]; cbn [root_of]; assumption. Qed.

(** every node lies in the unfolding of the top of its ancestor chain *)
Theorem in_root_tree : forall n l, chain h n l -> In n (preorder (tree_of h (root_of n l))).
Proof.
  induction 1 as [n P|n p l P C IH]; cbn [root_of].
  - rewrite (tree_of_unfold h I n). left. reflexivity.
  - apply (pre_closed _ p n IH). apply (inv_link _ I). exact P.
Qed.

(** the unfolding below r contains only nodes whose ancestor chain ends where r's does *)
Lemma abs_below : forall fuel r x, In x (preorder (abs fuel h r)) -> forall lr, chain h r lr ->
  exists lx, chain h x lx /\ root_of x lx = root_of r lr.
Proof.
  induction fuel as [|fu IH]; intros r x Hx lr Cr.
  - cbn [abs preorder flat_map] in Hx. destruct Hx as [<-|[]]. exists lr. split; [exact Cr|reflexivity].
  - rewrite pre_abs_S in Hx. destruct Hx as [<-|Hx]; [exists lr; split; [exact Cr|reflexivity]|].
    apply in_flat_map in Hx. destruct Hx as [k [Hk Hx]].
    assert (Pk : parent h k = Some r) by (apply (inv_link _ I); exact Hk).
    destruct (IH k x Hx (r :: lr) (chain_step h k r lr Pk Cr)) as [lx [Cx E]].
    exists lx. split; [exact Cx|]. rewrite E. reflexivity.
Qed.

Theorem same_tree r x lr lx : In x (preorder (tree_of h r)) -> chain h r lr -> chain h x lx ->
  root_of x lx = root_of r lr.
Proof.
  intros Hx Cr Cx. unfold tree_of in Hx.
  destruct (abs_below _ r x Hx lr Cr) as [lx' [Cx' E]].
  rewrite (chain_fun h x lx Cx lx' Cx'). exact E.
Qed.

(** the forest view: exactly one parentless node has n in its unfolding *)
Theorem forest_partition n l : chain h n l ->
  parent h (root_of n l) = None /\
  In n (preorder (tree_of h (root_of n l))) /\
  forall r, parent h r = None -> In n (preorder (tree_of h r)) -> r = root_of n l.
Proof.
  intros C. split; [apply root_of_is_root; exact C|]. split; [apply in_root_tree; exact C|].
  intros r Pr Hn. rewrite (same_tree r n [] l Hn (chain_root h r Pr) C). reflexivity.
Qed.
End F.
