(** C01 at the level of trees: a consistent link heap IS a forest - every node
    lies in the unfolding [tree_of h r] of exactly one parentless node r (the
    top of its ancestor chain), and the unfolding of a node contains only nodes
    of its own tree.  This is what makes "iterate from the root" (C05) and "the
    links" (C01) two views of the same object. *)
Require Import AT.Model.Base AT.Model.Heap AT.Model.Rose AT.Model.Abs AT.Spec.MutSpec AT.Spec.IterSpec.
Require Import AT.Proofs.ListLemmas AT.Proofs.HeapLemmas AT.Proofs.AbsProofs AT.Proofs.PickleProofs AT.Proofs.CopyTree.

Section F.
Variable h : heap.
Hypothesis I : Inv h.

Lemma pre_abs_S fuel r :
  preorder (abs (S fuel) h r) = r :: flat_map (fun c => preorder (abs fuel h c)) (children h r).
Proof.
  cbn [abs preorder]. f_equal.
  induction (children h r) as [|c cs IH]; cbn [map flat_map]; [reflexivity|]. rewrite IH. reflexivity.
Qed.

Lemma pre_abs_head fuel r : In r (preorder (abs fuel h r)).
Proof. destruct fuel; cbn [abs preorder]; left; reflexivity. Qed.

(** one more unit of fuel shows the children of everything already shown *)
Lemma abs_closed : forall fuel r x c, In x (preorder (abs fuel h r)) -> In c (children h x) ->
  In c (preorder (abs (S fuel) h r)).
Proof.
  induction fuel as [|fu IH]; intros r x c Hx Hc.
  - cbn [abs preorder flat_map] in Hx. destruct Hx as [<-|[]].
    rewrite pre_abs_S. right. apply in_flat_map. exists c. split; [exact Hc|apply pre_abs_head].
  - rewrite pre_abs_S in Hx. rewrite pre_abs_S. right. destruct Hx as [<-|Hx].
    + apply in_flat_map. exists c. split; [exact Hc|apply pre_abs_head].
    + apply in_flat_map in Hx. destruct Hx as [k [Hk Hx]].
      apply in_flat_map. exists k. split; [exact Hk|]. eapply IH; eauto.
Qed.

Lemma pre_closed r x c : In x (preorder (tree_of h r)) -> In c (children h x) -> In c (preorder (tree_of h r)).
Proof.
  intros Hx Hc.
  rewrite <- (abs_enough h I r (S (length h))) in Hx by lia.
  rewrite <- (abs_enough h I r (S (S (length h)))) by lia.
  eapply abs_closed; eauto.
Qed.

Lemma root_of_is_root : forall n l, chain h n l -> parent h (root_of n l) = None.
Proof. induction 1 as [n P|n p l P C IH]; cbn [root_of]; assumption. Qed.

(** every node lies in the unfolding of the top of its ancestor chain *)
Theorem in_root_tree : forall n l, chain h n l -> In n (preorder (tree_of h (root_of n l))).
Proof.
  induction 1 as [n P|n p l P C IH]; cbn [root_of].
  - rewrite (tree_of_unfold h I n). left. reflexivity.
  - apply (pre_closed _ p n IH). apply (inv_link _ I). exact P.
Qed.

(** the unfolding below r contains only nodes whose ancestor chain ends where r's does *)
Lemma abs_below : forall fuel r x, In x (preorder (abs fuel h r)) -> forall lr, chain h r lr ->
  exists lx, chain h x lx /\ root_of x lx = root_of r lr.
Proof.
  induction fuel as [|fu IH]; intros r x Hx lr Cr.
  - cbn [abs preorder flat_map] in Hx. destruct Hx as [<-|[]]. exists lr. split; [exact Cr|reflexivity].
  - rewrite pre_abs_S in Hx. destruct Hx as [<-|Hx]; [exists lr; split; [exact Cr|reflexivity]|].
    apply in_flat_map in Hx. destruct Hx as [k [Hk Hx]].
    assert (Pk : parent h k = Some r) by (apply (inv_link _ I); exact Hk).
    destruct (IH k x Hx (r :: lr) (chain_step h k r lr Pk Cr)) as [lx [Cx E]].
    exists lx. split; [exact Cx|]. rewrite E. reflexivity.
Qed.

Theorem same_tree r x lr lx : In x (preorder (tree_of h r)) -> chain h r lr -> chain h x lx ->
  root_of x lx = root_of r lr.
Proof.
  intros Hx Cr Cx. unfold tree_of in Hx.
  destruct (abs_below _ r x Hx lr Cr) as [lx' [Cx' E]].
  rewrite (chain_fun h x lx Cx lx' Cx'). exact E.
Qed.

(** the forest view: exactly one parentless node has n in its unfolding *)
Theorem forest_partition n l : chain h n l ->
  parent h (root_of n l) = None /\
  In n (preorder (tree_of h (root_of n l))) /\
  forall r, parent h r = None -> In n (preorder (tree_of h r)) -> r = root_of n l.
Proof.
  intros C. split; [apply root_of_is_root; exact C|]. split; [apply in_root_tree; exact C|].
  intros r Pr Hn. rewrite (same_tree r n [] l Hn (chain_root h r Pr) C). reflexivity.
Qed.
End F.

(** ---- exactly once: the unfolding below a node lists no node twice ---- *)
Section Once.
Variable h : heap.
Hypothesis I : Inv h.

(** a node shown below r has r on its ancestor-or-self chain, at the position r's own chain dictates *)
Lemma abs_below_chain : forall fuel r x, In x (preorder (abs fuel h r)) -> forall lr, chain h r lr ->
  exists pre lx, chain h x lx /\ x :: lx = pre ++ r :: lr.
Proof.
  induction fuel as [|fu IH]; intros r x Hx lr Cr.
  - cbn [abs preorder flat_map] in Hx. destruct Hx as [<-|[]]. exists [], lr. split; [exact Cr|reflexivity].
  - rewrite (pre_abs_S h) in Hx. destruct Hx as [<-|Hx]; [exists [], lr; split; [exact Cr|reflexivity]|].
    apply in_flat_map in Hx. destruct Hx as [k [Hk Hx]].
    assert (Pk : parent h k = Some r) by (apply (inv_link _ I); exact Hk).
    destruct (IH k x Hx (r :: lr) (chain_step h k r lr Pk Cr)) as [pre [lx [Cx E]]].
    exists (pre ++ [k]), lx. split; [exact Cx|]. rewrite E, <- app_assoc. reflexivity.
Qed.

Lemma nodup_app_intro {A} (a b : list A) : NoDup a -> NoDup b -> (forall x, In x a -> In x b -> False) -> NoDup (a ++ b).
Proof.
  induction a as [|x a IH]; intros Na Nb D; cbn [app]; [exact Nb|].
  inversion Na as [|x' a' Nx Na']; subst. constructor.
  - intros Hin. apply in_app_or in Hin. destruct Hin as [Hin|Hin]; [contradiction|]. apply (D x); [left; reflexivity|exact Hin].
  - apply IH; [exact Na'|exact Nb|]. intros y Hy Hy'. apply (D y); [right; exact Hy|exact Hy'].
Qed.

Lemma nodup_flat_map {A B} (f : A -> list B) : forall l, NoDup l ->
  (forall c, In c l -> NoDup (f c)) ->
  (forall c1 c2 x, In c1 l -> In c2 l -> In x (f c1) -> In x (f c2) -> c1 = c2) ->
  NoDup (flat_map f l).
Proof.
  induction l as [|c l IH]; intros ND Hf Hd; cbn [flat_map]; [constructor|].
  inversion ND as [|c' l' Nc NDl]; subst.
  apply nodup_app_intro.
  - apply Hf. left. reflexivity.
  - apply IH; [exact NDl|intros; apply Hf; right; assumption|].
    intros c1 c2 x H1 H2. apply Hd; right; assumption.
  - intros x Hx Hx'. apply in_flat_map in Hx'. destruct Hx' as [c2 [Hc2 Hx2]].
    assert (c = c2) by (apply (Hd c c2 x); [left; reflexivity|right; exact Hc2|exact Hx|exact Hx2]).
    subst c2. contradiction.
Qed.

Lemma abs_nodup : forall fuel r lr, chain h r lr -> NoDup (preorder (abs fuel h r)).
Proof.
  induction fuel as [|fu IH]; intros r lr Cr.
  - cbn [abs preorder flat_map]. constructor; [intros []|constructor].
  - rewrite (pre_abs_S h). constructor.
    + (* r itself is not shown below one of its children *)
      intros Hin. apply in_flat_map in Hin. destruct Hin as [k [Hk Hr]].
      assert (Pk : parent h k = Some r) by (apply (inv_link _ I); exact Hk).
      destruct (abs_below_chain fu k r Hr (r :: lr) (chain_step h k r lr Pk Cr)) as [pre [lx [Cx E]]].
      rewrite (chain_fun h r lx Cx lr Cr) in E.
      apply (f_equal (@length id)) in E. rewrite app_length in E. cbn [length] in E. lia.
    + apply nodup_flat_map.
      * apply (inv_nodup _ I).
      * intros c Hc. apply (IH c (r :: lr)). apply chain_step; [apply (inv_link _ I); exact Hc|exact Cr].
      * intros k1 k2 x H1 H2 Hx1 Hx2.
        assert (C1 : chain h k1 (r :: lr)) by (apply chain_step; [apply (inv_link _ I); exact H1|exact Cr]).
        assert (C2 : chain h k2 (r :: lr)) by (apply chain_step; [apply (inv_link _ I); exact H2|exact Cr]).
        destruct (abs_below_chain fu k1 x Hx1 _ C1) as [p1 [l1 [Cx1 E1]]].
        destruct (abs_below_chain fu k2 x Hx2 _ C2) as [p2 [l2 [Cx2 E2]]].
        rewrite (chain_fun h x l2 Cx2 l1 Cx1) in E2. rewrite E1 in E2.
        change (p1 ++ [k1] ++ r :: lr = p2 ++ [k2] ++ r :: lr) in E2.
        rewrite !app_assoc in E2. apply app_inv_tail in E2. apply app_inj_tail in E2. tauto.
Qed.

Theorem tree_of_nodup r : NoDup (preorder (tree_of h r)).
Proof. destruct (inv_acyclic _ I r) as [lr Cr]. unfold tree_of. eapply abs_nodup; eauto. Qed.
End Once.

(** ---- the roots' unfoldings partition the universe ---- *)
Require Import Coq.Sorting.Permutation.
Section Partition.
Variable h : heap.
Hypothesis I : Inv h.

Definition roots : list id :=
  filter (fun n => match parent h n with None => true | Some _ => false end) (seq 0 (length h)).

Lemma roots_spec r : In r roots <-> r < length h /\ parent h r = None.
Proof.
  unfold roots. rewrite filter_In, in_seq. split.
  - intros [[_ B] E]. split; [lia|]. destruct (parent h r); [discriminate|reflexivity].
  - intros [B P]. rewrite P. split; [lia|reflexivity].
Qed.

Lemma root_of_bound : forall n l, chain h n l -> n < length h -> root_of n l < length h.
Proof.
  induction 1 as [n P|n p l P C IH]; intros B; cbn [root_of]; [exact B|].
  apply IH. destruct (inv_bound_p _ I _ _ P). assumption.
Qed.

Lemma unfolding_bound r x : r < length h -> In x (preorder (tree_of h r)) -> x < length h.
Proof.
  intros B Hx. destruct (inv_acyclic _ I r) as [lr Cr]. unfold tree_of in Hx.
  destruct (abs_below_chain h I _ r x Hx lr Cr) as [pre [lx [Cx E]]].
  destruct pre as [|y pre]; cbn [app] in E.
  - injection E as -> _. exact B.
  - injection E as <- E. inversion Cx as [|x' p l P C']; subst; [destruct pre; discriminate|].
    destruct (inv_bound_p _ I _ _ P). assumption.
Qed.

Theorem roots_partition :
  Permutation (flat_map (fun r => preorder (tree_of h r)) roots) (seq 0 (length h)).
Proof.
  apply NoDup_Permutation.
  - apply nodup_flat_map.
    + unfold roots. apply NoDup_filter. apply seq_NoDup.
    + intros r _. apply (tree_of_nodup h I).
    + intros r1 r2 x H1 H2 Hx1 Hx2.
      apply roots_spec in H1. apply roots_spec in H2.
      destruct (inv_acyclic _ I x) as [lx Cx].
      destruct (forest_partition h I x lx Cx) as [_ [_ U]].
      rewrite (U r1), (U r2); tauto.
  - apply seq_NoDup.
  - intros x. rewrite in_flat_map, in_seq. split.
    + intros [r [Hr Hx]]. apply roots_spec in Hr. split; [lia|]. cbn. eapply unfolding_bound; eauto. tauto.
    + intros [_ B]. cbn in B. destruct (inv_acyclic _ I x) as [lx Cx].
      exists (root_of x lx). split.
      * apply roots_spec. split; [apply root_of_bound; assumption|apply (root_of_is_root h); exact Cx].
      * apply (in_root_tree h I). exact Cx.
Qed.
End Partition.
