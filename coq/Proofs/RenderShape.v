(** C09: the shape of the rendered tree can be reconstructed from the text
    alone - it is a function of the widths of the row prefixes. *)
Require Import AT.Model.Base AT.Model.Rose AT.Model.Nav AT.Model.Resolver AT.Model.Render AT.Spec.RenderSpec.
Require Import AT.Proofs.ListLemmas AT.Proofs.NavProofs AT.Proofs.RenderProofs AT.Proofs.GlobOrder.

(** a tree without its labels *)
Fixpoint shape (t : tree) : tree := match t with T _ cs => T 0 (map shape cs) end.

(** depth of every node, in pre-order *)
Fixpoint depths (d : nat) (t : tree) : list nat :=
  match t with T _ cs => d :: flat_map (depths (S d)) cs end.

Definition le_head (d : nat) (r : list nat) : Prop := match r with [] => True | x :: _ => x <= d end.

Lemma depths_head d t : exists l, depths d t = d :: l.
Proof. destruct t as [n cs]. cbn [depths]. eauto. Qed.

Lemma le_head_forest d cs r : le_head d r -> le_head (S d) (flat_map (depths (S d)) cs ++ r).
Proof.
  intros H. destruct cs as [|c cs]; cbn [flat_map app].
  - destruct r; cbn in *; auto.
  - destruct (depths_head (S d) c) as [l ->]. cbn. auto.
Qed.

(** the depth sequence determines the shape (and where the subtree ends) *)
Lemma depths_inj t : forall t' d r r', depths d t ++ r = depths d t' ++ r' -> le_head d r -> le_head d r' ->
  shape t = shape t' /\ r = r'.
Proof.
  induction t as [n cs IH] using tree_ind'. intros [n' cs'] d r r' E Hr Hr'.
  cbn [depths app] in E. injection E as E. cbn [shape].
  assert (F : forall cs', flat_map (depths (S d)) cs ++ r = flat_map (depths (S d)) cs' ++ r' ->
                          map shape cs = map shape cs' /\ r = r').
  { clear E cs'. induction cs as [|c cs IHcs]; intros cs' E.
    - cbn [flat_map app] in E. destruct cs' as [|c' cs'']; [split; auto|].
      cbn [flat_map] in E. destruct (depths_head (S d) c') as [l El]. rewrite El in E. cbn in E.
      subst r. cbn in Hr. lia.
    - inversion IH as [|c0 cs0 IHc IHrest]; subst.
      cbn [flat_map] in E. destruct cs' as [|c' cs''].
      + cbn [flat_map app] in E. destruct (depths_head (S d) c) as [l El]. rewrite El in E. cbn in E.
        subst r'. cbn in Hr'. lia.
      + cbn [flat_map] in E. rewrite <- !app_assoc in E.
        destruct (IHc c' (S d) _ _ E) as [Sc Et]; [apply le_head_forest; exact Hr|apply le_head_forest; exact Hr'|].
        destruct (IHcs IHrest cs'' Et) as [Ss Er]. split; [cbn [map]; congruence|exact Er]. }
  destruct (F cs' E) as [Sm Er]. split; [congruence|exact Er].
Qed.

Lemma depths_shape t t' d : depths d t = depths d t' -> shape t = shape t'.
Proof.
  intros E. apply (depths_inj t t' d [] []); [rewrite !app_nil_r; exact E|exact I|exact I].
Qed.

(** the lengths of the pre-order positions are the depths *)
Lemma positions_depths s : forall p, map (@length nat) (pre_positions_t s p) = depths (length p) s.
Proof.
  induction s as [n cs IH] using tree_ind'. intros p. cbn [pre_positions_t depths map]. f_equal.
  assert (K : forall (l : list tree) (i : nat), Forall (fun c => forall q, map (@length nat) (pre_positions_t c q) = depths (length q) c) l ->
            map (@length nat)
              ((fix go (l : list tree) (i : nat) : list pos :=
                  match l with [] => [] | c :: r => pre_positions_t c (p ++ [i]) ++ go r (S i) end) l i)
            = flat_map (depths (S (length p))) l).
  { induction l as [|c r IHr]; intros i Hf; [reflexivity|].
    inversion Hf as [|c0 r0 Hc Hr]; subst. cbn [flat_map]. rewrite map_app, Hc, IHr by exact Hr.
    rewrite app_length. cbn [length]. rewrite Nat.add_1_r. reflexivity. }
  apply K. exact IH.
Qed.

Section W.
Variables (vertical cont end_ : str) (w : nat).
Hypothesis Hv : length vertical = w.
Hypothesis Hc : length cont = w.
Hypothesis He : length end_ = w.

Lemma seg_length R p j : length (seg vertical end_ R p j) = w.
Proof. unfold seg, blank. destruct (has_next R (firstn (S j) p)); [exact Hv|rewrite repeat_length; exact He]. Qed.

Lemma pre_spec_length R p : length (pre_spec vertical cont end_ R p) = length p * w.
Proof.
  unfold pre_spec. destruct p as [|i p']; [reflexivity|].
  rewrite app_length, (concat_length_const _ w).
  - rewrite map_length, seq_length. destruct (has_next R (i :: p')); [rewrite Hc|rewrite He]; cbn [length]; lia.
  - apply Forall_forall. intros x Hx. apply in_map_iff in Hx. destruct Hx as [j [<- _]]. apply seg_length.
Qed.

(** two rendered trees whose rows have prefixes of the same widths have the same shape *)
Theorem shape_from_widths R R' : 0 < w ->
  map (fun r : row => length (fst (fst r))) (rows_spec vertical cont end_ R)
  = map (fun r : row => length (fst (fst r))) (rows_spec vertical cont end_ R') ->
  shape R = shape R'.
Proof.
  intros Hw E. unfold rows_spec in E. rewrite !map_map in E. cbn [fst] in E.
  assert (E2 : map (fun p : pos => length p * w) (pre_positions R []) = map (fun p : pos => length p * w) (pre_positions R' [])).
  { rewrite (map_ext (fun p : pos => length p * w) (fun p => length (pre_spec vertical cont end_ R p))) by (intros p; symmetry; apply pre_spec_length).
    rewrite (map_ext (fun p : pos => length p * w) (fun p => length (pre_spec vertical cont end_ R' p))) by (intros p; symmetry; apply pre_spec_length).
    exact E. }
  assert (E3 : map (@length nat) (pre_positions R []) = map (@length nat) (pre_positions R' [])).
  { revert E2. generalize (pre_positions R' []). generalize (pre_positions R []).
    induction l as [|a l IHl]; intros [|b l'] H; cbn [map] in *; try discriminate H; [reflexivity|].
    injection H as H1 H2. f_equal; [nia|apply IHl; exact H2]. }
  unfold pre_positions in E3. change (sub R []) with R in E3. change (sub R' []) with R' in E3.
  rewrite !positions_depths in E3. apply (depths_shape R R' 0). exact E3.
Qed.
End W.
