(** C05 (unrestricted iterators) and the set-level corollaries of C06. *)
Require Import AT.Model.Base AT.Model.Rose AT.Model.Iter AT.Spec.IterSpec AT.Proofs.ListLemmas.
Require Import AT.Proofs.IterPre AT.Proofs.IterPost AT.Proofs.IterLevel.
From Coq Require Import Permutation.
Local Open Scope Z_scope.

Lemma filter_true {A} (l : list A) : filter (fun _ => true) l = l.
Proof. induction l; simpl; congruence. Qed.
Lemma map_filter_true {A} (l : list (list A)) : map (filter (fun _ => true)) l = l.
Proof. induction l; simpl; auto. rewrite filter_true. congruence. Qed.
Lemma map_flat_map {A B C} (g : B -> C) (h : A -> list B) l :
  map g (flat_map h l) = flat_map (fun x => map g (h x)) l.
Proof. induction l; simpl; auto. rewrite map_app. congruence. Qed.

(** with no stop and no maxlevel nothing is pruned *)
Lemma prune_id stop t : (forall n, stop n = false) -> forall d, prune stop None d t = [t].
Proof.
  intros S. induction t as [n cs IH] using tree_ind'. intros d. simpl. rewrite S. simpl.
  f_equal. f_equal. induction IH as [|c cs Hc _ IH']; simpl; auto. rewrite Hc, IH'. reflexivity.
Qed.

Definition ftrue : id -> bool := fun _ => true.
Definition sfalse : id -> bool := fun _ => false.

Theorem c05_pre t : PreOrderIter ftrue sfalse None t = preorder t.
Proof. rewrite pre_spec. unfold spec_pre. rewrite prune_id by reflexivity. simpl. rewrite app_nil_r. apply filter_true. Qed.
Theorem c05_post t : PostOrderIter ftrue sfalse None t = postorder t.
Proof. rewrite post_spec. unfold spec_post. rewrite prune_id by reflexivity. simpl. rewrite app_nil_r. apply filter_true. Qed.
Theorem c05_group t : LevelOrderGroupIter ftrue sfalse None t = Ok (levels t).
Proof.
  rewrite group_spec. unfold spec_groups. rewrite prune_id by reflexivity.
  unfold levels_forest. cbn [fold_right]. rewrite zip_app_nil_r. f_equal. apply map_filter_true.
Qed.
Theorem c05_level t : LevelOrderIter ftrue sfalse None t = Ok (levelorder t).
Proof.
  rewrite level_spec. unfold spec_level, spec_groups. rewrite prune_id by reflexivity.
  unfold levels_forest. cbn [fold_right]. rewrite zip_app_nil_r, map_filter_true. reflexivity.
Qed.
Theorem c05_zigzag t : ZigZagGroupIter ftrue sfalse None t = Ok (zigzag_spec false (levels t)).
Proof.
  rewrite zigzag_spec_thm. unfold spec_zigzag, spec_groups. rewrite prune_id by reflexivity.
  unfold levels_forest. cbn [fold_right]. rewrite zip_app_nil_r, map_filter_true. reflexivity.
Qed.

(** ---- every order is a permutation of the pre-order ---- *)
Lemma perm_flat_map {A B} (g h : A -> list B) l :
  Forall (fun x => Permutation (g x) (h x)) l -> Permutation (flat_map g l) (flat_map h l).
Proof. induction 1; simpl; auto. apply Permutation_app; auto. Qed.

Lemma perm_post t : Permutation (postorder t) (preorder t).
Proof.
  induction t as [n cs IH] using tree_ind'. simpl.
  eapply Permutation_trans; [apply Permutation_sym, Permutation_cons_append|].
  constructor. apply perm_flat_map. exact IH.
Qed.

Lemma perm_zip_app a : forall b, Permutation (concat (zip_app a b)) (concat a ++ concat b).
Proof.
  induction a as [|x a IH]; intros [|y b]; simpl; auto.
  - rewrite app_nil_r. auto.
  - rewrite <- !app_assoc. apply Permutation_app_head.
    eapply Permutation_trans; [apply Permutation_app_head, IH|].
    rewrite !app_assoc. apply Permutation_app_tail. apply Permutation_app_comm.
Qed.

Lemma perm_levels_forest ts :
  Forall (fun t => Permutation (concat (levels t)) (preorder t)) ts ->
  Permutation (concat (levels_forest ts)) (flat_map preorder ts).
Proof.
  induction 1 as [|t ts Ht _ IH]; simpl; auto.
  eapply Permutation_trans; [apply perm_zip_app|]. apply Permutation_app; auto.
Qed.

Lemma perm_level t : Permutation (concat (levels t)) (preorder t).
Proof.
  induction t as [n cs IH] using tree_ind'. simpl. constructor.
  apply (perm_levels_forest cs IH).
Qed.

Lemma concat_zigzag b gs : Permutation (concat (zigzag_spec b gs)) (concat gs).
Proof.
  revert b; induction gs as [|g gs IH]; intros b; simpl; auto.
  apply Permutation_app; auto. destruct b; auto. apply Permutation_sym, Permutation_rev.
Qed.

(** exactly once: with pairwise distinct node identities every iterator's
    output is duplicate free and has exactly the nodes of the subtree *)
Theorem c05_exactly_once t : NoDup (preorder t) ->
  (NoDup (postorder t) /\ Permutation (postorder t) (preorder t)) /\
  (NoDup (levelorder t) /\ Permutation (levelorder t) (preorder t)) /\
  (NoDup (concat (zigzag_spec false (levels t))) /\
   Permutation (concat (zigzag_spec false (levels t))) (preorder t)).
Proof.
  intros ND. repeat split.
  - eapply Permutation_NoDup; [apply Permutation_sym, perm_post|auto].
  - apply perm_post.
  - eapply Permutation_NoDup; [apply Permutation_sym, perm_level|auto].
  - apply perm_level.
  - eapply Permutation_NoDup; [|exact ND]. apply Permutation_sym.
    eapply Permutation_trans; [apply concat_zigzag|apply perm_level].
  - eapply Permutation_trans; [apply concat_zigzag|apply perm_level].
Qed.

(** ---- the admitted set, pointwise ---- *)
Section Adm.
Variables (stop : id -> bool).

Lemma below_mono ml d : below d ml = false -> below (d + 1) ml = false.
Proof. destruct ml as [m|]; simpl; auto. intros H. apply Z.ltb_ge in H. apply Z.ltb_ge. lia. Qed.

Lemma annotate_prune ml t : forall d ok,
  map fst (filter snd (annotate stop ml d ok t))
  = if ok then flat_map preorder (prune stop ml d t) else [].
Proof.
  induction t as [n cs IH] using tree_ind'. intros d ok. cbn [annotate].
  set (ok' := ok && negb (stop n)).
  assert (K : forall o dd, map fst (filter snd (flat_map (annotate stop ml dd o) cs))
              = if o then flat_map preorder (flat_map (prune stop ml dd) cs) else []).
  { intros o dd. rewrite filter_flat_map, map_flat_map.
    destruct o.
    - rewrite flat_map_flat_map. apply flat_map_ext_Forall.
      eapply Forall_impl; [|exact IH]. intros c Hc. apply (Hc dd true).
    - apply flat_map_all_nil. eapply Forall_impl; [|exact IH]. intros c Hc. apply (Hc dd false). }
  cbn [filter snd]. destruct ok; cbn [andb] in ok'; subst ok'.
  - cbn [prune]. destruct (stop n); cbn [negb andb orb].
    + apply K.
    + destruct (below d ml) eqn:B; cbn [negb].
      * cbn [map fst flat_map preorder]. rewrite app_nil_r. f_equal. apply K.
      * rewrite K. rewrite flat_prune_not_below; auto. apply below_mono; auto.
  - cbn [andb]. apply K.
Qed.

Theorem admitted_characterisation ml t :
  flat_map preorder (prune stop ml 0 t) = admitted_in_order stop ml t.
Proof. unfold admitted_in_order. rewrite annotate_prune. reflexivity. Qed.

Lemma annotate_preorder ml t : forall d ok, map fst (annotate stop ml d ok t) = preorder t.
Proof.
  induction t as [n cs IH] using tree_ind'. intros d ok. cbn [annotate map fst preorder]. f_equal.
  rewrite map_flat_map. apply flat_map_ext_Forall. eapply Forall_impl; [|exact IH]. intros c Hc. apply Hc.
Qed.
End Adm.

(** all five restricted iterators enumerate the same multiset *)
Section Same.
Variables (f stop : id -> bool).

Lemma perm_filter {A} (p : A -> bool) l l' : Permutation l l' -> Permutation (filter p l) (filter p l').
Proof.
  induction 1; simpl; auto.
  - destruct (p x); auto.
  - destruct (p x), (p y); auto. constructor.
  - eapply Permutation_trans; eauto.
Qed.

Theorem same_set ml t :
  Permutation (spec_post f stop ml t) (spec_pre f stop ml t) /\
  Permutation (spec_level f stop ml t) (spec_pre f stop ml t) /\
  Permutation (concat (spec_zigzag f stop ml t)) (spec_pre f stop ml t).
Proof.
  assert (L : Permutation (spec_level f stop ml t) (spec_pre f stop ml t)).
  { unfold spec_level, spec_pre, spec_groups. rewrite concat_map_filter. apply perm_filter.
    apply perm_levels_forest. apply Forall_forall. intros x _. apply perm_level. }
  repeat split; auto.
  - unfold spec_post, spec_pre. apply perm_filter. apply perm_flat_map.
    apply Forall_forall. intros x _. apply perm_post.
  - unfold spec_zigzag. eapply Permutation_trans; [apply concat_zigzag|exact L].
Qed.

Theorem maxlevel_nonpositive m t : m <= 0 ->
  spec_pre f stop (Some m) t = [] /\ spec_post f stop (Some m) t = [] /\
  spec_level f stop (Some m) t = [] /\ spec_groups f stop (Some m) t = [] /\
  spec_zigzag f stop (Some m) t = [].
Proof.
  intros H. unfold spec_pre, spec_post, spec_level, spec_zigzag, spec_groups.
  rewrite prune_not_below; [repeat split; reflexivity|]. simpl. apply Z.ltb_ge. lia.
Qed.
End Same.
