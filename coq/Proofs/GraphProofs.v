(** C12 / C13: escaping, declared nodes, and the edge theorem. *)
Require Import AT.Model.Base AT.Model.Rose AT.Model.Iter AT.Model.Graph AT.Spec.IterSpec AT.Spec.GraphSpec.
Require Import AT.Proofs.ListLemmas AT.Proofs.IterPre AT.Proofs.IterPost AT.Proofs.IterC05.
Local Open Scope Z_scope.

(** ---- escaping ---- *)
Lemma memN_spec l c : memN l c = true <-> In c l.
Proof.
  unfold memN. rewrite existsb_exists. split.
  - intros [x [H E]]. apply N.eqb_eq in E. subst. auto.
  - intros H. exists c. split; auto. apply N.eqb_refl.
Qed.

Lemma esc_cons cls p c s :
  esc_with cls [p] (c :: s) = (if memN cls c then p :: c :: esc_with cls [p] s else c :: esc_with cls [p] s).
Proof. unfold esc_with. cbn [flat_map]. destruct (memN cls c); reflexivity. Qed.

Theorem esc_roundtrip cls p s : memN cls p = true -> unesc_with p (esc_with cls [p] s) = s.
Proof.
  intros Hp. induction s as [|c s IH]; [reflexivity|]. rewrite esc_cons.
  destruct (memN cls c) eqn:M.
  - cbn [unesc_with]. rewrite N.eqb_refl, IH. reflexivity.
  - cbn [unesc_with]. destruct (N.eqb_spec c p) as [->|N]; [congruence|]. rewrite IH. reflexivity.
Qed.

Theorem esc_injective cls p a b : memN cls p = true -> esc_with cls [p] a = esc_with cls [p] b -> a = b.
Proof. intros Hp E. rewrite <- (esc_roundtrip cls p a Hp), <- (esc_roundtrip cls p b Hp), E. reflexivity. Qed.

(** no character [q] of the class occurs unescaped in the result: scanning
    left to right, a prefix character protects the next character *)
Fixpoint bare_free (p q : N) (s : list N) : bool :=
  match s with
  | [] => true
  | c :: r => if N.eqb c p then match r with _ :: r' => bare_free p q r' | [] => false end
              else if N.eqb c q then false else bare_free p q r
  end.
Theorem esc_wellformed cls p q s : memN cls p = true -> memN cls q = true ->
  bare_free p q (esc_with cls [p] s) = true.
Proof.
  intros Hp Hq. induction s as [|c s IH]; [reflexivity|]. rewrite esc_cons.
  destruct (memN cls c) eqn:M.
  - cbn [bare_free]. rewrite N.eqb_refl. exact IH.
  - cbn [bare_free]. destruct (N.eqb_spec c p) as [->|]; [congruence|].
    destruct (N.eqb_spec c q) as [->|]; [congruence|]. exact IH.
Qed.

(** ---- nodes ---- *)
Section N.
Variables (f stop : id -> bool).

Lemma pre_nodes_t_labels t : forall ml, map label (pre_nodes_t f stop ml t) = pre_iter_t f stop ml t.
Proof.
  induction t as [n cs IH] using tree_ind'. intros ml. cbn [pre_nodes_t pre_iter_t].
  destruct (stop n); [reflexivity|]. rewrite map_app. f_equal.
  - destruct (f n); reflexivity.
  - destruct (negb (abort_at_level 2 ml)); [|reflexivity].
    rewrite map_flat_map. apply flat_map_ext_Forall.
    eapply Forall_impl; [|exact IH]. intros c Hc. apply Hc.
Qed.
Theorem pre_nodes_labels ml t : map label (pre_nodes f stop ml t) = PreOrderIter f stop ml t.
Proof.
  unfold pre_nodes, PreOrderIter, pre_iter. rewrite map_flat_map.
  apply flat_map_ext_Forall. apply Forall_forall. intros c _. apply pre_nodes_t_labels.
Qed.

(** ---- edges ---- *)
Definition child_edges (chk_stop : bool) (nd : tree) : list (id * id) :=
  flat_map (fun c => if f (label c) && (negb chk_stop || negb (stop (label c))) then [(label nd, label c)] else []) (kids nd).
(** the guard: no yielded parent has a child satisfying both filter_ and stop *)
Definition clean (nd : tree) : Prop := forall c, In c (kids nd) -> f (label c) && stop (label c) = false.

Lemma edges_ann_false ml t : forall d, edges_ann f stop ml d false t = [].
Proof.
  induction t as [n cs IH] using tree_ind'. intros d. cbn [edges_ann andb].
  rewrite flat_map_nil. cbn [app]. apply flat_map_all_nil. eapply Forall_impl; [|exact IH]. intros c Hc. apply Hc.
Qed.

(** nothing is drawn from depth [d] on when [d + 1] is not below maxlevel *)
Lemma edges_ann_beyond ml t : forall d ok, below (d + 1) ml = false -> edges_ann f stop ml d ok t = [].
Proof.
  induction t as [n cs IH] using tree_ind'. intros d ok B. cbn [edges_ann].
  rewrite B. rewrite flat_map_ext_Forall with (h := fun _ => []).
  2:{ apply Forall_forall. intros c _. rewrite !andb_false_r. reflexivity. }
  rewrite flat_map_nil. cbn [app]. apply flat_map_all_nil. eapply Forall_impl; [|exact IH].
  intros c Hc. apply Hc. apply below_mono. exact B.
Qed.

Lemma below_edge ml d : below d (edge_ml ml) = below (d + 1) ml.
Proof. destruct ml as [m|]; simpl; auto. destruct (Z.ltb_spec d (m - 1)), (Z.ltb_spec (d + 1) m); auto; lia. Qed.
Lemma below_weaken ml d : below (d + 1) ml = true -> below d ml = true.
Proof. destruct ml as [m|]; simpl; auto. intros H. apply Z.ltb_lt in H. apply Z.ltb_lt. lia. Qed.

Lemma edge_iter_spec (chk : bool) ml0 t : forall ml' d,
  ml_rel ml' d (edge_ml ml0) ->
  (chk = false -> Forall clean (pre_nodes_t f stop ml' t)) ->
  flat_map (child_edges chk) (pre_nodes_t f stop ml' t) = edges_ann f stop ml0 d true t.
Proof.
  induction t as [n cs IH] using tree_ind'. intros ml' d R G. cbn [pre_nodes_t edges_ann andb]. cbn [pre_nodes_t] in G.
  assert (B : below d (edge_ml ml0) = true).
  { unfold ml_rel in R. destruct ml' as [m|], (edge_ml ml0) as [m0|]; simpl in *; try tauto. destruct R. lia. }
  rewrite below_edge in B. rewrite (below_weaken _ _ B), B.
  destruct (stop n) eqn:S.
  { cbn [negb andb flat_map]. rewrite flat_map_nil. cbn [app]. symmetry.
    apply flat_map_all_nil. apply Forall_forall. intros c _. apply edges_ann_false. }
  cbn [negb andb]. rewrite flat_map_app. f_equal.
  - (* the node's own edges *)
    destruct (f n) eqn:F.
    + cbn [flat_map]. rewrite app_nil_r. unfold child_edges. cbn [kids label].
      apply flat_map_ext_Forall. apply Forall_forall. intros c Hc.
      destruct chk.
      * destruct (f (label c)), (stop (label c)); reflexivity.
      * assert (CL : clean (T n cs)).
        { specialize (G eq_refl). apply Forall_app in G. destruct G as [G _]. inversion G; auto. }
        specialize (CL c Hc).
        destruct (f (label c)), (stop (label c)); simpl in *; try reflexivity; discriminate.
    + cbn [flat_map]. symmetry. apply flat_map_all_nil. apply Forall_forall. intros c _. reflexivity.
  - (* the recursion *)
    assert (AB : abort_at_level 2 ml' = negb (below (d + 1) (edge_ml ml0))).
    { unfold ml_rel in R. destruct ml' as [m|], (edge_ml ml0) as [m0|]; simpl in *; try tauto.
      destruct R as [-> R]. destruct (Z.ltb_spec m 2), (Z.ltb_spec (d + 1) (d + m)); simpl; auto; lia. }
    rewrite AB. destruct (below (d + 1) (edge_ml ml0)) eqn:B1; cbn [negb].
    + rewrite flat_map_flat_map. apply flat_map_ext_Forall.
      assert (G' : chk = false -> Forall (fun c => Forall clean (pre_nodes_t f stop (dec_ml ml') c)) cs).
      { intros E. specialize (G E). apply Forall_app in G. destruct G as [_ G].
        rewrite AB in G. cbn [negb] in G. apply Forall_forall. intros c Hc.
        apply Forall_forall. intros x Hx. rewrite Forall_forall in G. apply G.
        apply in_flat_map. exists c. split; auto. }
      apply Forall_forall. intros c Hc. rewrite Forall_forall in IH. apply (IH c Hc).
      * unfold ml_rel in *. destruct ml' as [m|], (edge_ml ml0) as [m0|]; simpl in *; try tauto.
        destruct R as [-> R]. apply Z.ltb_lt in B1. destruct (Z.eqb_spec m 0); [lia|]. split; lia.
      * intros E. specialize (G' E). rewrite Forall_forall in G'. apply G'. exact Hc.
    + cbn [flat_map]. symmetry. apply flat_map_all_nil. apply Forall_forall. intros c _.
      apply edges_ann_beyond. rewrite <- below_edge. exact B1.
Qed.

Theorem edges_spec (chk : bool) ml t :
  (chk = false -> Forall clean (pre_nodes f stop (edge_ml ml) t)) ->
  flat_map (child_edges chk) (pre_nodes f stop (edge_ml ml) t) = edges_ann f stop ml 0 true t.
Proof.
  intros G. unfold pre_nodes, init_children, get_children in *.
  change 1 with (0 + 1) in *. rewrite abort_below in *.
  destruct (below 0 (edge_ml ml)) eqn:B; cbn [negb] in *.
  - cbn [filter] in *. destruct (stop (label t)) eqn:S; cbn [negb flat_map] in *.
    + destruct t as [n cs]. cbn [label] in S. cbn [edges_ann]. rewrite S. cbn [negb andb].
      rewrite flat_map_nil. cbn [app]. symmetry. apply flat_map_all_nil. apply Forall_forall. intros c _. apply edges_ann_false.
    + rewrite app_nil_r in *. apply edge_iter_spec.
      * unfold ml_rel. destruct (edge_ml ml) as [m|]; simpl in *; auto. apply Z.ltb_lt in B. split; lia.
      * exact G.
  - cbn [flat_map]. symmetry. apply edges_ann_beyond. rewrite <- below_edge. exact B.
Qed.
End N.

(** the two exporters' edge loops in terms of [child_edges] *)
Lemma dot_edges_child f stop ml t :
  dot_edges f stop ml t = flat_map (child_edges f stop false) (pre_nodes f stop (edge_ml ml) t).
Proof.
  unfold dot_edges, child_edges. apply flat_map_ext_Forall. apply Forall_forall. intros nd _.
  apply flat_map_ext_Forall. apply Forall_forall. intros c _. cbn [negb orb]. rewrite andb_true_r. reflexivity.
Qed.
Lemma mermaid_edges_child f stop ml t :
  mermaid_edges f stop ml t = flat_map (child_edges f stop true) (pre_nodes f stop (edge_ml ml) t).
Proof.
  unfold mermaid_edges, child_edges. apply flat_map_ext_Forall. apply Forall_forall. intros nd _.
  apply flat_map_ext_Forall. apply Forall_forall. intros c _. cbn [negb orb]. reflexivity.
Qed.

Theorem dot_edges_guarded f stop ml t :
  Forall (clean f stop) (pre_nodes f stop (edge_ml ml) t) ->
  dot_edges f stop ml t = edges_ann f stop ml 0 true t.
Proof. intros G. rewrite dot_edges_child. apply edges_spec. intros _. exact G. Qed.

Theorem mermaid_edges_exact f stop ml t : mermaid_edges f stop ml t = edges_ann f stop ml 0 true t.
Proof. rewrite mermaid_edges_child. apply edges_spec. intros E. discriminate E. Qed.

(** without a stop predicate the DOT guard holds trivially *)
Theorem dot_edges_no_stop f ml t :
  dot_edges f (fun _ => false) ml t = edges_ann f (fun _ => false) ml 0 true t.
Proof.
  apply dot_edges_guarded. apply Forall_forall. intros nd _ c _. apply andb_false_r.
Qed.

(** ---- the id tables of UniqueDotExporter / MermaidExporter ---- *)
Definition tbl_ok (tb : idtable) : Prop := map snd tb = seq 0 (length tb) /\ NoDup (map fst tb).

Lemma tbl_find_none tb n : tbl_find tb n = None <-> ~ In n (map fst tb).
Proof.
  induction tb as [|[k v] tb IH]; simpl; [tauto|].
  destruct (Nat.eqb_spec k n) as [->|N]; split; intros H; try discriminate.
  - exfalso. apply H. auto.
  - apply IH in H. intros [E|E]; [congruence|tauto].
  - apply IH. tauto.
Qed.
Lemma tbl_find_in tb n v : tbl_find tb n = Some v -> In (n, v) tb.
Proof.
  induction tb as [|[k w] tb IH]; simpl; [discriminate|].
  destruct (Nat.eqb_spec k n) as [->|N]; [intros [= ->]; auto|]. intros H. right. apply IH; auto.
Qed.
Lemma tbl_find_app tb ex n v : tbl_find tb n = Some v -> tbl_find (tb ++ ex) n = Some v.
Proof.
  induction tb as [|[k w] tb IH]; simpl; [discriminate|]. destruct (Nat.eqb k n); auto.
Qed.

Lemma tbl_use_ok tb n : tbl_ok tb -> tbl_ok (snd (tbl_use tb n)).
Proof.
  intros [A B]. unfold tbl_use. destruct (tbl_find tb n) eqn:F; [split; auto|]. simpl. split.
  - rewrite map_app, app_length, A. simpl. rewrite Nat.add_1_r, seq_S. reflexivity.
  - rewrite map_app. simpl. apply tbl_find_none in F.
    rewrite <- rev_involutive. apply NoDup_rev. rewrite rev_app_distr. simpl. constructor.
    + rewrite <- in_rev. exact F.
    + apply NoDup_rev. exact B.
Qed.
Lemma tbl_use_stable tb n m v : tbl_find tb m = Some v -> tbl_find (snd (tbl_use tb n)) m = Some v.
Proof.
  intros H. unfold tbl_use. destruct (tbl_find tb n); simpl; auto. apply tbl_find_app; auto.
Qed.
Lemma tbl_use_defined tb n : exists v, tbl_find (snd (tbl_use tb n)) n = Some v.
Proof.
  unfold tbl_use. destruct (tbl_find tb n) eqn:F; simpl; [eauto|]. exists (length tb).
  induction tb as [|[k w] tb IH]; simpl in *; [rewrite Nat.eqb_refl; reflexivity|].
  destruct (Nat.eqb k n); [discriminate|].
  (* the appended entry's value is the table length, not the tail's length: handled separately *)
  clear IH. revert F. generalize (S (length tb)) as L. intros L F.
  induction tb as [|[k' w'] tb IH]; simpl in *; [rewrite Nat.eqb_refl; reflexivity|].
  destruct (Nat.eqb k' n); [discriminate|]. apply IH; auto.
Qed.

Theorem tbl_after_ok uses : forall tb, tbl_ok tb -> tbl_ok (tbl_after tb uses).
Proof. induction uses as [|n uses IH]; intros tb H; simpl; auto. apply IH. apply tbl_use_ok; auto. Qed.
(** a node keeps the identifier it once got: in the node statement, in every
    edge and on every later iteration of the same exporter *)
Theorem tbl_after_stable uses : forall tb m v, tbl_find tb m = Some v -> tbl_find (tbl_after tb uses) m = Some v.
Proof. induction uses as [|n uses IH]; intros tb m v H; simpl; auto. apply IH. apply tbl_use_stable; auto. Qed.
(** every named node has an identifier *)
Theorem tbl_after_defined uses : forall tb n, In n uses -> exists v, tbl_find (tbl_after tb uses) n = Some v.
Proof.
  induction uses as [|x uses IH]; intros tb n H; simpl in *; [tauto|]. destruct H as [->|H]; [|apply IH; auto].
  destruct (tbl_use_defined tb n) as [v Hv]. exists v. apply tbl_after_stable; auto.
Qed.
(** distinct nodes get distinct identifiers *)
Lemma nodup_snd_inj (l : idtable) a b v : NoDup (map snd l) -> In (a, v) l -> In (b, v) l -> a = b.
Proof.
  induction l as [|[k w] l IH]; simpl; [tauto|]. intros ND. apply NoDup_cons_iff in ND. destruct ND as [Nin ND].
  intros [E1|H1] [E2|H2].
  - congruence.
  - injection E1 as -> ->. exfalso. apply Nin. apply in_map_iff. exists (b, v). auto.
  - injection E2 as -> ->. exfalso. apply Nin. apply in_map_iff. exists (a, v). auto.
  - apply IH; auto.
Qed.
Theorem tbl_injective tb a b v : tbl_ok tb -> tbl_find tb a = Some v -> tbl_find tb b = Some v -> a = b.
Proof.
  intros [A _] Ha Hb. apply tbl_find_in in Ha, Hb. eapply nodup_snd_inj; eauto. rewrite A. apply seq_NoDup.
Qed.

(** ---- the exact behaviour of the DOT edge loop, and "no admitted link is missing" ---- *)
Section Dot.
Variables (f stop : id -> bool).

Lemma edges_dot_false ml t : forall d, edges_dot f stop ml d false t = [].
Proof.
  induction t as [n cs IH] using tree_ind'. intros d. cbn [edges_dot andb].
  rewrite flat_map_nil. cbn [app]. apply flat_map_all_nil. eapply Forall_impl; [|exact IH]. intros c Hc. apply Hc.
Qed.
Lemma edges_dot_beyond ml t : forall d ok, below (d + 1) ml = false -> edges_dot f stop ml d ok t = [].
Proof.
  induction t as [n cs IH] using tree_ind'. intros d ok B. cbn [edges_dot].
  rewrite B. rewrite flat_map_ext_Forall with (h := fun _ => []).
  2:{ apply Forall_forall. intros c _. rewrite !andb_false_r. reflexivity. }
  rewrite flat_map_nil. cbn [app]. apply flat_map_all_nil. eapply Forall_impl; [|exact IH].
  intros c Hc. apply Hc. apply below_mono. exact B.
Qed.

Lemma dot_iter_exact ml0 t : forall ml' d,
  ml_rel ml' d (edge_ml ml0) ->
  flat_map (child_edges f stop false) (pre_nodes_t f stop ml' t) = edges_dot f stop ml0 d true t.
Proof.
  induction t as [n cs IH] using tree_ind'. intros ml' d R. cbn [pre_nodes_t edges_dot andb].
  assert (B : below d (edge_ml ml0) = true).
  { unfold ml_rel in R. destruct ml' as [m|], (edge_ml ml0) as [m0|]; simpl in *; try tauto. destruct R. lia. }
  rewrite below_edge in B. rewrite (below_weaken _ _ B), B.
  destruct (stop n) eqn:S.
  { cbn [negb andb flat_map]. rewrite flat_map_nil. cbn [app]. symmetry.
    apply flat_map_all_nil. apply Forall_forall. intros c _. apply edges_dot_false. }
  cbn [negb andb]. rewrite flat_map_app. f_equal.
  - destruct (f n) eqn:F.
    + cbn [flat_map]. rewrite app_nil_r. unfold child_edges. cbn [kids label negb orb].
      apply flat_map_ext_Forall. apply Forall_forall. intros c Hc. rewrite andb_true_r. reflexivity.
    + cbn [flat_map]. symmetry. apply flat_map_all_nil. apply Forall_forall. intros c _. reflexivity.
  - assert (AB : abort_at_level 2 ml' = negb (below (d + 1) (edge_ml ml0))).
    { unfold ml_rel in R. destruct ml' as [m|], (edge_ml ml0) as [m0|]; simpl in *; try tauto.
      destruct R as [-> R]. destruct (Z.ltb_spec m 2), (Z.ltb_spec (d + 1) (d + m)); simpl; auto; lia. }
    rewrite AB. destruct (below (d + 1) (edge_ml ml0)) eqn:B1; cbn [negb].
    + rewrite flat_map_flat_map. apply flat_map_ext_Forall.
      apply Forall_forall. intros c Hc. rewrite Forall_forall in IH. apply (IH c Hc).
      unfold ml_rel in *. destruct ml' as [m|], (edge_ml ml0) as [m0|]; simpl in *; try tauto.
      destruct R as [-> R]. apply Z.ltb_lt in B1. destruct (Z.eqb_spec m 0); [lia|]. split; lia.
    + cbn [flat_map]. symmetry. apply flat_map_all_nil. apply Forall_forall. intros c _.
      apply edges_dot_beyond. rewrite <- below_edge. exact B1.
Qed.

(** what DotExporter draws, for every filter_, stop and maxlevel - no guard *)
Theorem dot_edges_exact ml t : dot_edges f stop ml t = edges_dot f stop ml 0 true t.
Proof.
  rewrite dot_edges_child. unfold pre_nodes, init_children, get_children.
  change 1 with (0 + 1). rewrite abort_below.
  destruct (below 0 (edge_ml ml)) eqn:B; cbn [negb].
  - cbn [filter]. destruct (stop (label t)) eqn:S; cbn [negb flat_map].
    + destruct t as [n cs]. cbn [label] in S. cbn [edges_dot]. rewrite S. cbn [negb andb].
      rewrite flat_map_nil. cbn [app]. symmetry. apply flat_map_all_nil. apply Forall_forall. intros c _. apply edges_dot_false.
    + rewrite app_nil_r. apply dot_iter_exact.
      unfold ml_rel. destruct (edge_ml ml) as [m|]; simpl in *; auto. apply Z.ltb_lt in B. split; lia.
  - cbn [flat_map]. symmetry. apply edges_dot_beyond. rewrite <- below_edge. exact B.
Qed.

(** every edge between two admitted, filtered nodes is among them *)
Lemma edges_ann_incl ml t : forall d ok e, In e (edges_ann f stop ml d ok t) -> In e (edges_dot f stop ml d ok t).
Proof.
  induction t as [n cs IH] using tree_ind'. intros d ok e. cbn [edges_ann edges_dot]. rewrite !in_app_iff.
  intros [H|H]; [left|right].
  - apply in_flat_map in H. destruct H as [c [Hc He]]. apply in_flat_map. exists c. split; auto.
    destruct (ok && negb (stop n) && below d ml && f n) eqn:A; cbn [andb] in *; [|destruct He].
    destruct (negb (stop (label c))); cbn [andb] in *; [|destruct He].
    destruct (below (d + 1) ml); cbn [andb] in *; [|destruct He]. exact He.
  - apply in_flat_map in H. destruct H as [c [Hc He]]. apply in_flat_map. exists c. split; auto.
    rewrite Forall_forall in IH. apply (IH c Hc). exact He.
Qed.
Theorem dot_no_link_missing ml t : forall e, In e (edges_ann f stop ml 0 true t) -> In e (dot_edges f stop ml t).
Proof. intros e H. rewrite dot_edges_exact. apply edges_ann_incl. exact H. Qed.
End Dot.
