(** C04 / C15: the navigation transcriptions equal their definitions. *)
Require Import AT.Model.Base AT.Model.Rose AT.Model.Iter AT.Model.Nav AT.Spec.IterSpec AT.Spec.NavSpec.
Require Import AT.Proofs.ListLemmas AT.Proofs.IterC05.

Lemma parent_pos_snoc q i : parent_pos (q ++ [i]) = Some q.
Proof. unfold parent_pos. destruct (q ++ [i]) eqn:E; [destruct q; discriminate|]. rewrite <- E, removelast_last. auto. Qed.

Lemma prefixes_snoc q i : prefixes (q ++ [i]) = prefixes q ++ [q ++ [i]].
Proof. induction q as [|x q IH]; simpl; auto. rewrite IH, map_app. reflexivity. Qed.
Lemma prefixes_length p : length (prefixes p) = S (length p).
Proof. induction p; simpl; auto. rewrite map_length. auto. Qed.
Lemma up_fuel_snoc q i : up_fuel (q ++ [i]) = S (up_fuel q).
Proof. unfold up_fuel. rewrite app_length. simpl. lia. Qed.

Lemma ipr_spec p : iter_path_reverse (up_fuel p) p = Ok (rev (prefixes p)).
Proof.
  induction p as [|i q IH] using rev_ind; [reflexivity|].
  rewrite up_fuel_snoc. cbn [iter_path_reverse]. rewrite parent_pos_snoc, IH. cbn [bind].
  rewrite prefixes_snoc, rev_app_distr. reflexivity.
Qed.

Theorem path_pos_spec p : path_pos p = Ok (prefixes p).
Proof. unfold path_pos. rewrite ipr_spec. cbn [bind]. rewrite rev_involutive. reflexivity. Qed.

Theorem path_ok t p : path t p = Ok (path_spec t p).
Proof. unfold path. rewrite path_pos_spec. reflexivity. Qed.

Theorem ancestors_ok t p : ancestors t p = Ok (ancestors_spec t p).
Proof.
  unfold ancestors, ancestors_spec, path_spec. destruct p as [|i q] using rev_ind; [reflexivity|].
  rewrite parent_pos_snoc, path_ok. unfold path_spec. rewrite prefixes_snoc, map_app. cbn [map].
  rewrite removelast_last. reflexivity.
Qed.

Lemma root_pos_spec p : root_pos (up_fuel p) p = Ok [].
Proof.
  induction p as [|i q IH] using rev_ind; [reflexivity|].
  rewrite up_fuel_snoc. cbn [root_pos]. rewrite parent_pos_snoc. exact IH.
Qed.
Theorem root_ok t p : root t p = Ok (root_spec t p).
Proof. unfold root. rewrite root_pos_spec. reflexivity. Qed.

Theorem depth_ok p : depth p = Ok (depth_spec p).
Proof.
  unfold depth, depth_spec. rewrite ipr_spec. cbn [bind]. rewrite rev_length, prefixes_length. f_equal. lia.
Qed.

Theorem is_root_ok p : is_root p = match p with [] => true | _ => false end.
Proof. destruct p; reflexivity. Qed.
Theorem is_leaf_ok s : is_leaf_t s = match kids s with [] => true | _ => false end.
Proof. unfold is_leaf_t. destruct (kids s); reflexivity. Qed.

(** ---- positions and subtrees ---- *)
Lemma subtree_at_app t p q : subtree_at t (p ++ q) =
  match subtree_at t p with Some s => subtree_at s q | None => None end.
Proof. revert t; induction p as [|i p IH]; intros t; simpl; auto. destruct (nth_error (kids t) i); auto. Qed.

Definition valid (t : tree) (p : pos) : Prop := subtree_at t p <> None.

Lemma valid_snoc t q i : valid t (q ++ [i]) -> valid t q /\ i < length (kids (sub t q)).
Proof.
  unfold valid, sub. rewrite subtree_at_app. destruct (subtree_at t q) as [s|]; [|tauto].
  simpl. destruct (nth_error (kids s) i) eqn:E; [|tauto]. intros _. split; [discriminate|].
  apply nth_error_Some. congruence.
Qed.

Lemma label_at_child t q j : valid t q ->
  label_at t (q ++ [j]) = match nth_error (kids (sub t q)) j with Some c => label c | None => 0 end.
Proof.
  unfold valid, label_at, sub. rewrite subtree_at_app. destruct (subtree_at t q) as [s|]; [|tauto]. intros _.
  simpl. destruct (nth_error (kids s) j); reflexivity.
Qed.

Lemma pos_eqb_spec a b : pos_eqb a b = true <-> a = b.
Proof. apply list_eqb_spec. intros x y. apply Nat.eqb_eq. Qed.
Lemma pos_eqb_snoc q i j : pos_eqb (q ++ [j]) (q ++ [i]) = Nat.eqb j i.
Proof.
  destruct (Nat.eqb_spec j i) as [->|N].
  - apply pos_eqb_spec. reflexivity.
  - destruct (pos_eqb (q ++ [j]) (q ++ [i])) eqn:E; auto. apply pos_eqb_spec in E.
    apply app_inv_head in E. congruence.
Qed.

(** labels of the children listed by index, the one at [i] left out *)
Definition lab_at (l : list tree) (off j : nat) : id :=
  match nth_error l (j - off) with Some c => label c | None => 0 end.
Lemma lab_at_shift x l off j : off < j -> lab_at (x :: l) off j = lab_at l (S off) j.
Proof. intros H. unfold lab_at. replace (j - off) with (S (j - S off)) by lia. reflexivity. Qed.
Lemma labels_seq (l : list tree) : forall off, map (lab_at l off) (seq off (length l)) = map label l.
Proof.
  induction l as [|x l IH]; intros off; simpl; auto. f_equal.
  - unfold lab_at. rewrite Nat.sub_diag. reflexivity.
  - rewrite <- (IH (S off)). apply map_ext_in. intros j Hj. apply in_seq in Hj. apply lab_at_shift. lia.
Qed.
Lemma labels_drop (l : list tree) : forall off i, i < length l ->
  map (lab_at l off) (filter (fun j => negb (Nat.eqb j (off + i))) (seq off (length l)))
  = map label (drop_nth i l).
Proof.
  induction l as [|x l IH]; intros off i H; simpl in *; [lia|].
  destruct i as [|i].
  - rewrite Nat.add_0_r, Nat.eqb_refl. simpl.
    rewrite filter_ext_in with (g := fun _ => true).
    2:{ intros j Hj. apply in_seq in Hj. destruct (Nat.eqb_spec j off); [lia|reflexivity]. }
    rewrite filter_true. rewrite <- (labels_seq l (S off)).
    apply map_ext_in. intros j Hj. apply in_seq in Hj. apply lab_at_shift. lia.
  - destruct (Nat.eqb_spec off (off + S i)); [lia|]. simpl. f_equal.
    + unfold lab_at. rewrite Nat.sub_diag. reflexivity.
    + rewrite <- (IH (S off) i) by lia.
      replace (S off + i) with (off + S i) by lia.
      apply map_ext_in. intros j Hj. apply filter_In in Hj. destruct Hj as [Hj _]. apply in_seq in Hj.
      apply lab_at_shift. lia.
Qed.

Theorem siblings_ok t p : valid t p -> siblings t p = siblings_spec t p.
Proof.
  intros V. unfold siblings, siblings_spec. destruct p as [|i q] using rev_ind; [reflexivity|].
  rewrite parent_pos_snoc. destruct (valid_snoc _ _ _ V) as [Vq Hi].
  assert (E : match q ++ [i] with [] => [] | _ :: _ => map label (drop_nth (last (q ++ [i]) 0) (kids (sub t (removelast (q ++ [i]))))) end
              = map label (drop_nth i (kids (sub t q)))).
  { destruct (q ++ [i]) eqn:EQ; [destruct q; discriminate|]. rewrite <- EQ, last_last, removelast_last. reflexivity. }
  rewrite E. clear E. unfold children_pos.
  rewrite <- (labels_drop (kids (sub t q)) 0 i Hi).
  clear IHq. induction (seq 0 (length (kids (sub t q)))) as [|j l IH]; simpl; auto.
  rewrite pos_eqb_snoc. destruct (Nat.eqb j i); simpl; auto.
  rewrite IH, label_at_child by auto. unfold lab_at. rewrite Nat.sub_0_r. reflexivity.
Qed.

(** ---- downward attributes ---- *)
Theorem descendants_ok s : descendants s = descendants_spec s.
Proof. unfold descendants, descendants_spec. pose proof (c05_pre s) as E. unfold ftrue, sfalse in E. rewrite E. reflexivity. Qed.
Theorem size_ok s : size s = size_spec s.
Proof. unfold size, size_spec, descendants_spec. pose proof (c05_pre s) as E. unfold ftrue, sfalse in E. rewrite E. destruct s; reflexivity. Qed.
Theorem leaves_ok s : leaves s = leaves_spec s.
Proof.
  unfold leaves. induction s as [n cs IH] using tree_ind'. destruct cs as [|c cs]; [reflexivity|].
  cbn [pre_iter_nodes leaves_spec is_leaf_t kids length Nat.eqb app].
  apply flat_map_ext_Forall. exact IH.
Qed.
Theorem height_ok s : height s = height_spec s.
Proof.
  unfold height_spec. induction s as [n cs IH] using tree_ind'. destruct cs as [|c cs]; [reflexivity|].
  cbn [height theight].
  assert (G : forall l, Forall (fun t => height t = theight t) l -> l <> [] ->
              S (fold_right (fun c acc => Nat.max (height c) acc) 0 l)
              = fold_right (fun c acc => Nat.max (S (theight c)) acc) 0 l).
  { induction 1 as [|x l Hx Hl IHl]; [congruence|]. intros _.
    destruct l as [|y l'].
    - simpl. rewrite Hx. lia.
    - specialize (IHl ltac:(congruence)).
      change (S (Nat.max (height x) (fold_right (fun c acc => Nat.max (height c) acc) 0 (y :: l')))
              = Nat.max (S (theight x)) (fold_right (fun c acc => Nat.max (S (theight c)) acc) 0 (y :: l'))).
      rewrite <- IHl, Hx. lia. }
  apply G; [exact IH|congruence].
Qed.

(** ---- left / right sibling ---- *)
Lemma index_of_children q i n : i < n ->
  index_of (q ++ [i]) (map (fun j => q ++ [j]) (seq 0 n)) = Some i.
Proof.
  intros H.
  assert (G : forall off k, off <= i -> i < off + k ->
              index_of (q ++ [i]) (map (fun j => q ++ [j]) (seq off k)) = Some (i - off)).
  { intros off k; revert off. induction k as [|k IH]; intros off H1 H2; [lia|]. simpl.
    rewrite pos_eqb_snoc. destruct (Nat.eqb_spec off i) as [->|N].
    - replace (i - i) with 0 by lia. reflexivity.
    - rewrite IH by lia. f_equal. lia. }
  rewrite (G 0 n) by lia. f_equal. lia.
Qed.
Lemma nth_children q j n : nth_error (map (fun j => q ++ [j]) (seq 0 n)) j = if Nat.ltb j n then Some (q ++ [j]) else None.
Proof.
  destruct (Nat.ltb_spec j n) as [H|H].
  - rewrite nth_error_map, nth_error_nth' with (d := 0) by (rewrite seq_length; auto). rewrite seq_nth by auto. reflexivity.
  - apply nth_error_None. rewrite map_length, seq_length. auto.
Qed.
Lemma snoc_case (p : pos) : p = [] \/ exists q i, p = q ++ [i].
Proof. destruct p as [|i q] using rev_ind; eauto. Qed.

Theorem leftsibling_ok t p : valid t p -> leftsibling t p = leftsibling_spec t p.
Proof.
  intros V. unfold leftsibling, leftsibling_spec. destruct (snoc_case p) as [->|[q [i ->]]]; [reflexivity|].
  rewrite parent_pos_snoc. destruct (valid_snoc _ _ _ V) as [Vq Hi].
  assert (E : forall X Y : option id, match q ++ [i] with [] => X | _ :: _ => Y end = Y)
    by (intros; destruct (q ++ [i]) eqn:EQ; [destruct q; discriminate|reflexivity]).
  rewrite E, last_last, removelast_last. unfold children_pos. rewrite index_of_children by auto.
  destruct i as [|i]; [reflexivity|]. rewrite nth_children.
  destruct (Nat.ltb_spec i (length (kids (sub t q)))); [|lia].
  rewrite label_at_child by auto. destruct (nth_error (kids (sub t q)) i) eqn:N; [reflexivity|].
  apply nth_error_None in N. lia.
Qed.
Theorem rightsibling_ok t p : valid t p -> rightsibling t p = rightsibling_spec t p.
Proof.
  intros V. unfold rightsibling, rightsibling_spec. destruct (snoc_case p) as [->|[q [i ->]]]; [reflexivity|].
  rewrite parent_pos_snoc. destruct (valid_snoc _ _ _ V) as [Vq Hi].
  assert (E : forall X Y : option id, match q ++ [i] with [] => X | _ :: _ => Y end = Y)
    by (intros; destruct (q ++ [i]) eqn:EQ; [destruct q; discriminate|reflexivity]).
  rewrite E, last_last, removelast_last. unfold children_pos. rewrite index_of_children by auto.
  rewrite nth_children.
  destruct (Nat.ltb_spec (S i) (length (kids (sub t q)))).
  - rewrite label_at_child by auto. destruct (nth_error (kids (sub t q)) (S i)) eqn:N; [reflexivity|].
    apply nth_error_None in N. lia.
  - destruct (nth_error (kids (sub t q)) (S i)) eqn:N; [|reflexivity].
    assert (S i < length (kids (sub t q))) by (apply nth_error_Some; congruence). lia.
Qed.

(** ---- Walker ---- *)
Lemma filter_map_cons x (u v : list pos) :
  filter (fun xy => pos_eqb (fst xy) (snd xy)) (combine (map (cons x) u) (map (cons x) v))
  = map (fun xy => (x :: fst xy, x :: snd xy)) (filter (fun xy => pos_eqb (fst xy) (snd xy)) (combine u v)).
Proof.
  revert v; induction u as [|a u IH]; intros [|b v]; simpl; auto.
  unfold pos_eqb at 1. simpl. rewrite Nat.eqb_refl. simpl. fold (pos_eqb a b).
  destruct (pos_eqb a b); simpl; rewrite IH; reflexivity.
Qed.
Lemma filter_map_cons_ne x y (u v : list pos) : x <> y ->
  filter (fun xy => pos_eqb (fst xy) (snd xy)) (combine (map (cons x) u) (map (cons y) v)) = [].
Proof.
  intros N. revert v; induction u as [|a u IH]; intros [|b v]; simpl; auto.
  unfold pos_eqb at 1. simpl. destruct (Nat.eqb_spec x y); [contradiction|]. simpl. apply IH.
Qed.

Theorem calc_common_spec a : forall b, calc_common (prefixes a) (prefixes b) = prefixes (lcp a b).
Proof.
  unfold calc_common. induction a as [|x a IH]; intros [|y b]; simpl; auto.
  - destruct (map (cons x) (prefixes a)); reflexivity.
  - f_equal. destruct (Nat.eqb_spec x y) as [->|N].
    + rewrite filter_map_cons, map_map. simpl. rewrite <- IH, map_map. reflexivity.
    + rewrite filter_map_cons_ne by auto. reflexivity.
Qed.

Lemma last_prefixes p : last (prefixes p) [] = p.
Proof. destruct (snoc_case p) as [->|[q [i ->]]]; [reflexivity|]. rewrite prefixes_snoc. apply last_last. Qed.

Theorem walk_ok ts ia pa pb :
  walk ts (ia, pa) (ia, pb) = Ok (walk_spec (nth ia ts (T 0 [])) pa pb).
Proof.
  unfold walk, walk_spec. rewrite !path_pos_spec. cbn [bind]. rewrite Nat.eqb_refl. cbn [negb].
  rewrite calc_common_spec, last_prefixes, prefixes_length. f_equal. f_equal; [f_equal|].
  - destruct (pos_eqb pa (lcp pa pb)) eqn:E.
    + apply pos_eqb_spec in E. rewrite <- E. rewrite skipn_all2 by (rewrite prefixes_length; lia). reflexivity.
    + rewrite map_rev. reflexivity.
  - destruct (pos_eqb pb (lcp pa pb)) eqn:E; auto.
    apply pos_eqb_spec in E. rewrite <- E. rewrite skipn_all2 by (rewrite prefixes_length; lia). reflexivity.
Qed.

Theorem walk_error ts ia pa ib pb : ia <> ib -> walk ts (ia, pa) (ib, pb) = Err WalkError.
Proof.
  intros N. unfold walk. rewrite !path_pos_spec. cbn [bind].
  destruct (Nat.eqb_spec ia ib); [contradiction|]. reflexivity.
Qed.

(** ---- the spec's common node is the lowest common ancestor; mirror ---- *)
Definition is_prefix (c p : pos) : Prop := exists r, p = c ++ r.
Lemma lcp_prefix_l a : forall b, is_prefix (lcp a b) a.
Proof.
  induction a as [|x a IH]; intros [|y b]; simpl; try (exists []; reflexivity); try (eexists; reflexivity).
  destruct (Nat.eqb_spec x y) as [->|]; [|eexists; reflexivity].
  destruct (IH b) as [r E]. exists r. simpl. congruence.
Qed.
Lemma lcp_comm a : forall b, lcp a b = lcp b a.
Proof.
  induction a as [|x a IH]; intros [|y b]; simpl; auto.
  rewrite (Nat.eqb_sym y x). destruct (Nat.eqb_spec x y) as [->|]; auto. rewrite IH. reflexivity.
Qed.
Lemma lcp_prefix_r a b : is_prefix (lcp a b) b.
Proof. rewrite lcp_comm. apply lcp_prefix_l. Qed.
Lemma lcp_greatest a : forall b c, is_prefix c a -> is_prefix c b -> is_prefix c (lcp a b).
Proof.
  induction a as [|x a IH]; intros b c [r1 E1] [r2 E2].
  - destruct c; [exists []; reflexivity|discriminate].
  - destruct c as [|z c]; [eexists; reflexivity|].
    simpl in E1. injection E1 as <- E1. destruct b as [|y b]; [discriminate|].
    simpl in E2. injection E2 as <- E2. simpl. rewrite Nat.eqb_refl.
    destruct (IH b c) as [r E]; [eexists; eauto|eexists; eauto|]. exists r. simpl. congruence.
Qed.

Theorem walk_mirror t pa pb :
  let '(u, c, d) := walk_spec t pa pb in walk_spec t pb pa = (rev d, c, rev u).
Proof.
  unfold walk_spec. rewrite (lcp_comm pb pa), rev_involutive. reflexivity.
Qed.
