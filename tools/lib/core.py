"""Generic machinery of the checks: build of the Coq development, parsing of
the Print Assumptions output, running the implementation, evaluating case
shards inside Coq, classification, evidence and replay files."""
import ast
import concurrent.futures
import fcntl
import glob
import hashlib
import json
import os
import re
import shutil
import subprocess
import sys
import time

HERE = os.path.dirname(os.path.abspath(__file__))
TOOLS = os.path.dirname(HERE)
VERIF = os.path.dirname(TOOLS)
COQ = os.path.join(VERIF, "coq")
BUILD = os.path.join(VERIF, "build")
REPO = os.environ.get("VERIF_REPO", "/repo")
IMPL_PY = os.environ.get("VERIF_IMPL_PY", "/venv/bin/python")
JOBS = int(os.environ.get("VERIF_JOBS", "16"))

ALLOWED_AXIOMS = {
    # axioms declared by Coq's standard library; any that shows up is named in the evidence
    "functional_extensionality_dep", "FunctionalExtensionality.functional_extensionality_dep",
    "classic", "Classical_Prop.classic", "proof_irrelevance", "ProofIrrelevance.proof_irrelevance",
    "JMeq_eq", "JMeq.JMeq_eq", "Eqdep.Eq_rect_eq.eq_rect_eq", "eq_rect_eq",
    "propositional_extensionality", "PropExtensionality.propositional_extensionality",
}
FORBIDDEN = re.compile(r"\b(Admitted|admit|Axiom|Parameter|Parameters|Axioms|Conjecture|Hypothesis|Hypotheses|Variable|Variables|"
                       r"Unset\s+Guard|bypass_check|type-in-type|Admit\s+Obligations|impredicative-set)\b")


def sh(cmd, timeout=600, cwd=None, env=None, stdin=None):
    t0 = time.time()
    try:
        p = subprocess.run(cmd, cwd=cwd, env=env, input=stdin, stdout=subprocess.PIPE, stderr=subprocess.STDOUT,
                           timeout=timeout, text=True, errors="replace")
        return p.returncode, p.stdout, time.time() - t0
    except subprocess.TimeoutExpired as e:
        out = e.stdout or ""
        if isinstance(out, bytes):
            out = out.decode("utf-8", "replace")
        return 124, out + "\n[timeout after %ss]" % timeout, time.time() - t0


class Lock:
    def __init__(self, name="build"):
        os.makedirs(BUILD, exist_ok=True)
        self.path = os.path.join(BUILD, ".%s.lock" % name)

    def __enter__(self):
        self.fh = open(self.path, "w")
        fcntl.flock(self.fh, fcntl.LOCK_EX)
        return self

    def __exit__(self, *a):
        fcntl.flock(self.fh, fcntl.LOCK_UN)
        self.fh.close()


# ------------------------------------------------------------------ build
def ensure_makefile():
    mk = os.path.join(COQ, "Makefile")
    cp = os.path.join(COQ, "_CoqProject")
    if not os.path.exists(mk) or os.path.getmtime(mk) < os.path.getmtime(cp):
        rc, out, _ = sh(["coq_makefile", "-f", "_CoqProject", "-o", "Makefile"], cwd=COQ, timeout=120)
        if rc != 0:
            raise RuntimeError("coq_makefile failed:\n" + out)


def run_extract():
    rc, out, _ = sh([sys.executable, os.path.join(TOOLS, "extract.py"), "--repo", REPO], timeout=120)
    if rc != 0:
        raise RuntimeError("extractor crashed:\n" + out)
    with open(os.path.join(BUILD, "extract.json")) as fh:
        return json.load(fh)


def make(targets, timeout=1800):
    return sh(["timeout", str(timeout), "make", "-j%d" % JOBS] + targets, cwd=COQ, timeout=timeout + 30)


def coqchk(prop, timeout=1500):
    """independent re-check of Properties/<prop>.vo and everything it depends on; -o lists the axioms
    the checked context relies on.  -> dict(ok, axioms, wall_s, tail)"""
    rc, out, dt = sh(["timeout", str(timeout), "coqchk", "-silent", "-o", "-Q", ".", "AT", "AT.Properties." + prop],
                     cwd=COQ, timeout=timeout + 30)
    axioms = None
    m = re.search(r"\* Axioms:\s*(.*?)\n\s*\n\* Constants/Inductives relying on type-in-type:\s*(.*?)\n\s*\n"
                  r"\* Constants/Inductives relying on unsafe \(co\)fixpoints:\s*(.*?)\n\s*\n"
                  r"\* Inductives whose positivity is assumed:\s*(.*?)\n", out, re.S)
    clean = False
    if m:
        axioms = " ".join(m.group(1).split())
        clean = all(" ".join(g.split()) == "<none>" for g in m.groups()[1:])
    return {"ok": rc == 0 and m is not None and clean, "axioms": axioms, "wall_s": round(dt, 1), "tail": out[-600:]}


def hygiene():
    """forbidden vocabulary anywhere in the development (comments included);
    Variable/Hypothesis only inside a Section"""
    bad = []
    for path in sorted(glob.glob(os.path.join(COQ, "**", "*.v"), recursive=True)):
        depth = 0
        with open(path, encoding="utf-8") as fh:
            for i, line in enumerate(fh, 1):
                if re.match(r"^\s*Section\s+\w+\s*\.", line):
                    depth += 1
                elif re.match(r"^\s*End\s+\w+\s*\.", line):
                    depth -= 1
                for m in FORBIDDEN.finditer(line):
                    if m.group(1) in ("Variable", "Variables", "Hypothesis", "Hypotheses") and depth > 0:
                        continue
                    bad.append("%s:%d: %s" % (os.path.relpath(path, VERIF), i, line.strip()))
    return bad


def theorem_names(prop):
    path = os.path.join(COQ, "Properties", prop + ".v")
    with open(path, encoding="utf-8") as fh:
        text = fh.read()
    text_nc = re.sub(r"\(\*.*?\*\)", "", text, flags=re.S)
    thms = re.findall(r"^\s*Theorem\s+(\w+)", text_nc, flags=re.M)
    prints = re.findall(r"^\s*Print Assumptions\s+(\w+)\s*\.", text_nc, flags=re.M)
    return thms, prints


def parse_assumptions(out):
    """sequence of Print Assumptions results: list of (closed?, [axiom names])"""
    res = []
    lines = out.splitlines()
    i = 0
    while i < len(lines):
        ln = lines[i].strip()
        if ln == "Closed under the global context":
            res.append((True, []))
        elif ln.startswith("Axioms:"):
            axs = []
            i += 1
            while i < len(lines) and lines[i].strip() and not lines[i].startswith("Closed") and not lines[i].startswith("Axioms:"):
                m = re.match(r"^(\S+)\s*:", lines[i])
                if m:
                    axs.append(m.group(1))
                i += 1
            res.append((False, axs))
            continue
        i += 1
    return res


def build(prop, corr=None):
    """regenerate Extracted.v, build the model + correspondence driver and the
    property's theorem file; returns a dict describing the obligations"""
    info = {"prop": prop, "model_ok": False, "proofs_ok": False, "obligations": 0, "discharged": 0,
            "assumptions": {}, "log": "", "extract": None, "hygiene": []}
    with Lock():
        ex = run_extract()
        info["extract"] = ex
        ensure_makefile()
        rc, out, dt = make(["Corr/%s.vo" % (corr or prop)])
        info["model_ok"] = (rc == 0)
        info["log"] += out[-4000:]
        if rc != 0:
            return info
        rc, out, dt2 = make(["Properties/%s.vo" % prop])
        info["log"] += out[-4000:]
        thms, prints = theorem_names(prop)
        info["obligations"] = len(thms)
        info["theorems"] = thms
        info["build_s"] = round(dt + dt2, 1)
        if rc != 0:
            m = re.search(r'File "\./([^"]+)", line (\d+)', out)
            info["broken_at"] = "%s:%s" % (m.group(1), m.group(2)) if m else "unknown"
            info["broken_msg"] = out[-1500:]
            return info
        os.makedirs(os.path.join(BUILD, "props"), exist_ok=True)
        cmd = ["coqc", "-Q", COQ, "AT", os.path.join(COQ, "Properties", prop + ".v"),
               "-o", os.path.join(BUILD, "props", prop + ".vo")]
        rc, out, dt3 = sh(["timeout", "600"] + cmd, cwd=COQ, timeout=630)
        info["checker_cmd"] = "make -C coq Properties/%s.vo && %s" % (prop, " ".join(cmd))
        if rc != 0:
            info["broken_at"] = "Properties/%s.v" % prop
            info["broken_msg"] = out[-1500:]
            return info
        res = parse_assumptions(out)
        info["hygiene"] = hygiene()
        if thms != prints or len(res) != len(thms):
            info["hygiene"].append("Properties/%s.v: every Theorem must be followed by its Print Assumptions "
                                   "(theorems=%d prints=%d results=%d)" % (prop, len(thms), len(prints), len(res)))
        ok = 0
        for name, (closed, axs) in zip(thms, res):
            if closed:
                info["assumptions"][name] = "Closed under the global context"
                ok += 1
            else:
                foreign = [a for a in axs if a not in ALLOWED_AXIOMS]
                info["assumptions"][name] = "Axioms: " + ", ".join(axs)
                if not foreign:
                    ok += 1
                else:
                    info["hygiene"].append("%s depends on non-stdlib assumptions: %s" % (name, foreign))
        info["discharged"] = ok
        info["proofs_ok"] = (ok == len(thms) and not info["hygiene"])
    return info


# ------------------------------------------------------------------ impl
def impl_env(extra=None):
    env = dict(os.environ)
    env.update({"PYTHONPATH": REPO, "PYTHONHASHSEED": "0", "PYTHONDONTWRITEBYTECODE": "1",
                "ANYTREE_VERIF": "1"})
    env.pop("ANYTREE_ASSERTIONS", None)
    if extra:
        env.update(extra)
    return env


def run_dir(kind):
    """a scratch directory private to this process (two runs - even of the same property - never share files)"""
    d = os.path.join(BUILD, kind, "run%d" % os.getpid())
    if not os.path.isdir(d):
        # directories left behind by runs that were killed
        for old in glob.glob(os.path.join(BUILD, kind, "run*")):
            try:
                os.kill(int(os.path.basename(old)[3:]), 0)
            except (ValueError, ProcessLookupError):
                shutil.rmtree(old, ignore_errors=True)
            except PermissionError:
                pass
    os.makedirs(d, exist_ok=True)
    return d


def cleanup_run_dirs():
    for kind in ("impl", "cases"):
        shutil.rmtree(os.path.join(BUILD, kind, "run%d" % os.getpid()), ignore_errors=True)


def run_impl(prop, payload, extra_env=None, timeout=1800, tag=""):
    d = run_dir("impl")
    fin = os.path.join(d, "%s%s.in.json" % (prop, tag))
    fout = os.path.join(d, "%s%s.out.json" % (prop, tag))
    with open(fin, "w") as fh:
        json.dump(payload, fh)
    if os.path.exists(fout):
        os.remove(fout)
    env = impl_env(extra_env)
    env["VERIF_BUILD"] = d            # harness scratch files (file exporters) go to <d>/impl
    os.makedirs(os.path.join(d, "impl"), exist_ok=True)
    rc, out, dt = sh([IMPL_PY, os.path.join(TOOLS, "impl", "run_impl.py"), prop, fin, fout],
                     env=env, timeout=timeout, cwd=VERIF)
    if rc != 0 or not os.path.exists(fout):
        raise RuntimeError("implementation runner failed (rc=%s):\n%s" % (rc, out[-3000:]))
    with open(fout) as fh:
        res = json.load(fh)
    for f in (fin, fout):
        try:
            os.remove(f)
        except OSError:
            pass
    return res


def run_impl_parallel(prop, cases, extra_env=None, chunk=None, timeout=1800, tag=""):
    """split the case list over processes; result order preserved"""
    if not cases:
        return []
    n = len(cases)
    chunk = chunk or max(1, (n + JOBS - 1) // JOBS)
    parts = [cases[i:i + chunk] for i in range(0, n, chunk)]
    with concurrent.futures.ThreadPoolExecutor(max_workers=JOBS) as ex:
        futs = [ex.submit(run_impl, prop, {"cases": part}, extra_env, timeout, "%s.%d" % (tag, i)) for i, part in enumerate(parts)]
        out = []
        for f in futs:
            out.extend(f.result()["obs"])
    return out


def run_impl_split(prop, cases, tag=""):
    """like run_impl_parallel, but cases with a true "asrt" field run in interpreters started with
    ANYTREE_ASSERTIONS=1 (the switch is read at import time)"""
    obs = [None] * len(cases)
    for flag in (False, True):
        idx = [i for i, c in enumerate(cases) if bool(c.get("asrt")) == flag]
        if not idx:
            continue
        res = run_impl_parallel(prop, [cases[i] for i in idx], extra_env={"ANYTREE_ASSERTIONS": "1" if flag else "0"},
                                tag=tag + ("a" if flag else "n"))
        for i, r in zip(idx, res):
            obs[i] = r
    return obs


# ------------------------------------------------------------------ shards
def _parse_report(out):
    m = re.search(r"^\s*=\s*(.*?)^\s*:\s", out, flags=re.S | re.M)
    if not m:
        return None
    body = m.group(1)
    body = re.sub(r"%\w+", "", body)
    body = body.replace(";", ",")
    body = re.sub(r"\s+", " ", body).strip()
    try:
        return ast.literal_eval(body)
    except Exception:
        return None


def _run_shard(path, timeout):
    cmd = ["timeout", str(timeout), "coqc", "-Q", COQ, "AT", path]
    rc, out, dt = sh(cmd, cwd=os.path.dirname(path), timeout=timeout + 20)
    return rc, out, dt


def run_shards(prop, header, case_type, driver, literals, shard_size=400, timeout=900, tag=""):
    """literals: list of Coq terms of type case_type.  Returns (reports, errors)
    where reports is a list of (offset, parsed report)."""
    d = run_dir("cases")
    for old in glob.glob(os.path.join(d, "%s%s_*" % (prop, tag))) + glob.glob(os.path.join(d, ".%s%s_*" % (prop, tag))):
        try:
            os.remove(old)
        except OSError:
            pass
    paths = []
    for k, off in enumerate(range(0, len(literals), shard_size)):
        part = literals[off:off + shard_size]
        path = os.path.join(d, "%s%s_%04d.v" % (prop, tag, k))
        with open(path, "w", encoding="utf-8") as fh:
            fh.write("From Coq Require Import List ZArith NArith.\nImport ListNotations.\n")
            fh.write(header + "\n")
            fh.write("Definition cases : list %s := [\n" % case_type)
            fh.write(";\n".join(part))
            fh.write("\n].\nEval vm_compute in (%s cases).\n" % driver)
        paths.append((off, path))
    reports, errors = [], []
    with concurrent.futures.ThreadPoolExecutor(max_workers=JOBS) as ex:
        futs = [(off, path, ex.submit(_run_shard, path, timeout)) for off, path in paths]
        results = [(off, path, f.result()) for off, path, f in futs]
    if True:
        for off, path, (rc, out, dt) in results:
            if rc < 0 or rc in (137, 139):
                # coqc was killed by a signal (memory pressure while 16 shards ran at once): evaluate it again, alone
                rc, out, dt = _run_shard(path, timeout)
            rep = _parse_report(out) if rc == 0 else None
            if rep is None:
                errors.append({"shard": os.path.relpath(path, VERIF), "rc": rc, "out": out[-1500:]})
            else:
                reports.append((off, rep))
    # remove compiled by-products of shards
    for pat in ("*.vo", "*.vok", "*.vos", "*.glob", ".*.aux"):
        for f in glob.glob(os.path.join(d, pat)):
            if os.path.basename(f).lstrip(".").startswith(prop + tag + "_"):
                try:
                    os.remove(f)
                except OSError:
                    pass
    return reports, errors


def merge_reports(reports, width):
    """reports: list of (offset, (n, l1, l2, ...)); returns (n, [l1, l2, ...]) with global indices"""
    n = 0
    lists = [[] for _ in range(width)]
    for off, rep in reports:
        flat = _flatten(rep)
        n += flat[0]
        for i in range(width):
            lists[i].extend(off + j for j in flat[1 + i])
    return n, lists


def _flatten(rep):
    # Coq prints nested pairs left-associated: (((n, a), b), c) prints as (n, a, b, c)
    return list(rep)


# ------------------------------------------------------------------ results
def write_replay(prop, kind, payload):
    os.makedirs(os.path.join(VERIF, "replays"), exist_ok=True)
    body = json.dumps({"property": prop, "kind": kind, "payload": payload}, sort_keys=True, indent=1, default=str)
    h = hashlib.sha256(body.encode()).hexdigest()[:12]
    rel = "replays/%s-%s.json" % (prop, h)
    with open(os.path.join(VERIF, rel), "w") as fh:
        fh.write(body)
    return rel


def write_evidence(prop, tier, seed, coverage, assumptions, wall_s, violations):
    evdir = os.environ.get("VERIF_EVIDENCE_DIR") or os.path.join(VERIF, "evidence")   # dev runs may divert it
    os.makedirs(evdir, exist_ok=True)
    ev = {"property_id": prop, "tier": tier, "seed": seed, "level": "proof", "coverage": coverage,
          "assumptions": assumptions, "wall_s": round(wall_s, 2), "violations": violations}
    with open(os.path.join(evdir, prop + ".json"), "w") as fh:
        json.dump(ev, fh, indent=1, sort_keys=True, default=str)
    return ev


def load_known_findings():
    path = os.path.join(VERIF, "known_findings.json")
    if not os.path.exists(path):
        return []
    with open(path) as fh:
        return json.load(fh).get("findings", [])


def fingerprint_changes(extract_info):
    try:
        with open(os.path.join(TOOLS, "expected_fingerprints.json")) as fh:
            exp = json.load(fh)
    except Exception:
        return []
    cur = extract_info.get("fingerprints", {})
    return sorted(k for k in set(exp) | set(cur) if exp.get(k) != cur.get(k))
