"""The decision procedure of one check run (DESIGN.md section 3), generic over
property modules (tools/props/cXX.py)."""
import json
import os
import sys
import time

from . import core


def _load_corpus(mod):
    corpus_path = os.path.join(core.VERIF, "corpus", mod.PROP + ".json")
    if os.path.exists(corpus_path):
        with open(corpus_path) as fh:
            return json.load(fh)
    return []


def _impl(mod, cases):
    if not cases:
        return []
    if hasattr(mod, "run_impl"):
        return mod.run_impl(cases)
    return core.run_impl_parallel(getattr(mod, "IMPL", mod.PROP), cases)


def explore(mod, tier, seed, tag=""):
    """generate the cases of a tier, run the implementation and the Coq drivers.
    returns (cases, ev, meta, ncorpus) with ev = dict(n, lists, obs, errors)"""
    if hasattr(mod, "families"):
        return explore_families(mod, tier, seed, tag)
    corpus = _load_corpus(mod)
    if hasattr(mod, "gen_and_run"):
        cases, obs, meta = mod.gen_and_run(tier, seed)
        cobs = _impl(mod, corpus)
        cases, obs = corpus + cases, cobs + obs
    else:
        cases, meta = mod.gen_cases(tier, seed)
        cases = corpus + cases
        obs = _impl(mod, cases)
    lits = [mod.literal(c, o) for c, o in zip(cases, obs)]
    reports, errors = core.run_shards(mod.PROP, mod.HEADER, mod.CASE_TYPE, mod.DRIVER, lits,
                                      shard_size=getattr(mod, "SHARD", 400), tag=tag)
    n, lists = core.merge_reports(reports, mod.WIDTH)
    return cases, {"n": n, "lists": lists, "obs": obs, "errors": errors}, meta, len(corpus)


def explore_families(mod, tier, seed, tag=""):
    """a property decided through several correspondence drivers (families):
    each family brings its own driver, cases, observations and literals"""
    fams, meta = mod.families(tier, seed)
    cases, obs, errors = [], [], []
    n = 0
    lists = [[], [], []]
    for fam in fams:
        fm = fam["mod"]
        lits = [fam["literal"](c, o) for c, o in zip(fam["cases"], fam["obs"])]
        reports, errs = core.run_shards(mod.PROP, fm.HEADER, fm.CASE_TYPE, fm.DRIVER, lits,
                                        shard_size=getattr(fm, "SHARD", 400), tag=tag + fam["name"])
        fn, flists = core.merge_reports(reports, fm.WIDTH)
        flists = list(flists) + [[] for _ in range(3 - len(flists))]
        if fam.get("spec_is_model") or getattr(mod, "SPEC_IS_MODEL", False):
            # the property's predicate for this family is "the observation equals the model" (the family's own
            # specification, and its known findings, belong to another property)
            flists[1] = list(flists[0])
            flists[2] = []
        off = len(cases)
        for i in range(3):
            lists[i].extend(off + j for j in flists[i])
        n += fn
        errors += errs
        for c, o in zip(fam["cases"], fam["obs"]):
            cases.append({"family": fam["name"], "case": c})
            obs.append(o)
    return cases, {"n": n, "lists": lists, "obs": obs, "errors": errors}, meta, 0


def classify(mod, cases, ev, findings):
    """-> (violations, known, corr_only) as lists of case indices / (idx, finding)"""
    bad_model = set(ev["lists"][0])
    bad_spec = set(ev["lists"][1])
    out_guard = set(ev["lists"][2]) if mod.WIDTH >= 3 else set()
    listed = {f["id"]: f for f in findings if f.get("property") == mod.PROP and f.get("status") == "known"}
    violations, known, corr_only = [], [], []
    for i in sorted(bad_spec):
        fid = None
        if i in out_guard and i not in bad_model and hasattr(mod, "finding_class"):
            fid = mod.finding_class(cases[i], ev["obs"][i])
        if fid is not None and fid in listed:
            known.append((i, fid))
        else:
            violations.append(i)
    for i in sorted(bad_model - bad_spec):
        corr_only.append(i)
    return violations, known, corr_only


def shrink_case(mod, case, obs, findings, max_rounds=10):
    """greedy reduction of a failing case: while one of the smaller candidates proposed by the property
    module (mod.shrink) is still a violation, continue from the smallest of them"""
    cur, cur_obs = case, obs
    for _ in range(max_rounds):
        cands = list(mod.shrink(cur))
        if not cands:
            break
        cobs = _impl(mod, cands)
        lits = [mod.literal(c, o) for c, o in zip(cands, cobs)]
        reports, errors = core.run_shards(mod.PROP, mod.HEADER, mod.CASE_TYPE, mod.DRIVER, lits,
                                          shard_size=getattr(mod, "SHARD", 400), tag="s")
        if errors:
            break
        n, lists = core.merge_reports(reports, mod.WIDTH)
        ev = {"n": n, "lists": list(lists) + [[] for _ in range(3 - len(lists))], "obs": cobs, "errors": []}
        viol, _, _ = classify(mod, cands, ev, findings)
        if not viol:
            break
        j = min(viol, key=lambda i: size_of(mod, cands[i]))
        if size_of(mod, cands[j]) >= size_of(mod, cur):
            break
        cur, cur_obs = cands[j], cobs[j]
    return cur, cur_obs


def size_of(mod, case):
    if hasattr(mod, "size"):
        return mod.size(case)
    return len(json.dumps(case))


def run(mod, tier, seed):
    t0 = time.time()
    prop = mod.PROP
    findings = core.load_known_findings()
    binfo = core.build(prop, getattr(mod, "CORR", None))
    lines = []
    broken = []          # obligations that no longer check
    if not binfo["model_ok"]:
        # the model itself does not build (can only happen through a changed Extracted.v)
        rel = core.write_replay(prop, "model-does-not-build", {"log": binfo["log"][-3000:]})
        print("VIOLATION property=%s replay=%s no-failing-input-found" % (prop, rel))
        core.write_evidence(prop, tier, seed, {"obligations": 1, "discharged": 0, "checker_cmd": "make",
                                               "trusted_base": [], "explanation": "model does not build"},
                            [], time.time() - t0, 1)
        return 1
    ex = binfo["extract"] or {}
    used_by = ex.get("used_by", {})
    # a constant the extractor no longer recognises in the source (e.g. after a refactoring): the model keeps the
    # value it was written from (the fallback in Generated/Extracted.v) and the tie for that constant is the
    # correspondence alone - which is therefore run at the thorough tier; not an alarm by itself
    fallbacks = []
    for name, why in (ex.get("failed") or {}).items():
        if prop in used_by.get(name, []):
            fallbacks.append({"item": name, "why": why})
    if not binfo["proofs_ok"]:
        if "broken_at" in binfo:
            broken.append({"obligation": "theorem file Properties/%s.v no longer checks" % prop,
                           "at": binfo.get("broken_at"), "why": binfo.get("broken_msg", "")[-1200:]})
        for h in binfo["hygiene"]:
            broken.append({"obligation": "hygiene", "why": h})
    chk = None
    if tier == "thorough" and binfo["proofs_ok"]:
        with core.Lock():
            chk = core.coqchk(prop)
        if not chk["ok"]:
            broken.append({"obligation": "coqchk of Properties/%s.vo" % prop, "why": chk["tail"]})
    fp_changed = core.fingerprint_changes(ex)
    relevant_fp = [f for f in fp_changed if f in getattr(mod, "FILES", [])]
    eff_tier = tier
    cases, ev, meta, ncorpus = explore(mod, eff_tier, seed)
    violations, known, corr_only = classify(mod, cases, ev, findings)
    for e in ev["errors"]:
        broken.append({"obligation": "correspondence shard did not evaluate", "why": json.dumps(e)[-1500:]})
    if corr_only:
        i = min(corr_only, key=lambda j: size_of(mod, cases[j]))
        broken.append({"obligation": "correspondence %s (implementation differs from the model, property held)" % mod.DRIVER,
                       "first_differing_case": mod.describe(cases[i], ev["obs"][i]), "count": len(corr_only)})

    escalated = False
    # a broken obligation, or a changed source file of this property (not an alarm by itself), gets the
    # deeper run when the quick exploration found nothing
    if (broken or relevant_fp or fallbacks) and not violations and eff_tier == "quick" and os.environ.get("VERIF_NO_ESCALATE") != "1":
        escalated = True
        cases2, ev2, meta2, _ = explore(mod, "thorough", seed, tag="x")
        v2, k2, c2 = classify(mod, cases2, ev2, findings)
        if v2:
            cases, ev, violations, known, corr_only, meta = cases2, ev2, v2, k2, c2, meta2

    nviol = 0
    reported = []
    if violations:
        # distinct minimal violations: smallest first, at most 3 replay files
        order = sorted(violations, key=lambda j: size_of(mod, cases[j]))
        seen = set()
        for j in order:
            key = mod.violation_key(cases[j], ev["obs"][j]) if hasattr(mod, "violation_key") else "one"
            if key in seen:
                continue
            seen.add(key)
            if len(reported) >= 3:
                continue
            rcase, robs = cases[j], ev["obs"][j]
            if hasattr(mod, "shrink") and not hasattr(mod, "families"):
                try:
                    rcase, robs = shrink_case(mod, rcase, robs, findings)
                except Exception:  # shrinking is a convenience: never lose the original failing input
                    rcase, robs = cases[j], ev["obs"][j]
            rel = core.write_replay(prop, "failing-input", {"case": rcase, "observed": robs,
                                                            "described": mod.describe(rcase, robs),
                                                            "shrunk_from_size": size_of(mod, cases[j]),
                                                            "impl_differs_from_model": j in set(ev["lists"][0]),
                                                            "broken_obligations": broken})
            reported.append(rel)
            lines.append("VIOLATION property=%s replay=%s" % (prop, rel))
        nviol = len(violations)
    elif broken:
        rel = core.write_replay(prop, "obligation-broken", {"broken_obligations": broken,
                                                            "searched": {"tier": "thorough" if escalated else eff_tier,
                                                                         "cases": len(cases)}})
        lines.append("VIOLATION property=%s replay=%s no-failing-input-found" % (prop, rel))
        nviol = 1

    kf_seen = {}
    for i, fid in known:
        kf_seen.setdefault(fid, []).append(i)
    for fid, idxs in sorted(kf_seen.items()):
        f = [x for x in findings if x["id"] == fid][0]
        lines.append("KNOWN-FINDING: property=%s %s %s (%d cases in this run)" % (prop, fid, f["what_fails"], len(idxs)))

    # ---------------------------------------------------------- evidence
    keys = {}
    for c, o in zip(cases, ev["obs"]):
        k = mod.nontrivial_key(c, o)
        if k is not None:
            keys[k] = 1
    samples = [_shallow(mod.describe(cases[i], ev["obs"][i])) for i in _sample_idx(len(cases))]
    tb = ["Coq 8.16.1 kernel + VM (vm_compute evaluates Model/Spec on the cases; also used in Examples/refutations)",
          "tools/extract.py (constants regenerated from /repo on this run); tools/impl/run_impl.py + tools/props/%s.py "
          "(run /repo's code, canonicalise, write the case shards)" % prop.lower()]
    for name, a in sorted(binfo["assumptions"].items()):
        tb.append("Print Assumptions %s: %s" % (name, a))
    if chk is not None:
        tb.append("coqchk -o AT.Properties.%s (independent checker, whole dependency cone): %s; axioms: %s; %ss"
                  % (prop, "ok" if chk["ok"] else "FAILED", chk["axioms"], chk["wall_s"]))
    tb.extend(getattr(mod, "TRUSTED", []))
    coverage = {
        "obligations": max(binfo["obligations"], 1), "discharged": binfo["discharged"],
        "checker_cmd": binfo.get("checker_cmd", "make -C coq Properties/%s.vo" % prop),
        "trusted_base": tb,
        "evaluations": ev["n"], "distinct_nontrivial": len(keys),
        "rule": meta.get("rule", ""), "samples": samples,
        "traces_validated_against_impl": ev["n"],
        "exhaustive": bool(meta.get("exhaustive", False)) and not ev["errors"],
        "distribution": meta.get("distribution", {}),
        "corpus_cases": ncorpus,
        "impl_differs_from_model": len(ev["lists"][0]), "impl_differs_from_spec": len(ev["lists"][1]),
        "known_finding_cases": {k: len(v) for k, v in kf_seen.items()},
        "outside_guard": len(ev["lists"][2]) if mod.WIDTH >= 3 else 0,
        "theorems": binfo.get("theorems", []),
        "broken_obligations": broken, "escalated_to_thorough": escalated or (eff_tier != tier),
        "fingerprints_changed": fp_changed,
        "extractor_fallbacks": fallbacks,
        "extract_changed_from_expected": sorted((ex.get("changed_from_expected") or {}).keys()),
        "build_s": binfo.get("build_s"),
    }
    core.write_evidence(prop, tier, seed, coverage, getattr(mod, "ASSUMPTIONS", []), time.time() - t0, nviol)
    for ln in lines:
        print(ln)
    print("%s: tier=%s cases=%d impl!=model=%d impl!=spec=%d known=%d obligations=%d/%d wall=%.1fs" % (
        prop, tier, ev["n"], len(ev["lists"][0]), len(ev["lists"][1]), len(known),
        binfo["discharged"], binfo["obligations"], time.time() - t0))
    return 1 if nviol else 0


def _shallow(obj, depth=0, maxdepth=24):
    """evidence files must stay readable by any JSON parser: structures nested deeper than maxdepth
    (the deep degenerate trees) are replaced by a short description"""
    if depth >= maxdepth:
        return "<nested deeper than %d levels: %d characters of JSON omitted>" % (maxdepth, len(json.dumps(obj, default=str)))
    if isinstance(obj, dict):
        return {k: _shallow(v, depth + 1, maxdepth) for k, v in obj.items()}
    if isinstance(obj, (list, tuple)):
        return [_shallow(v, depth + 1, maxdepth) for v in obj]
    return obj


def _sample_idx(n):
    if n == 0:
        return []
    idx = sorted(set([0, n // 3, (2 * n) // 3, n - 1]))
    return idx
