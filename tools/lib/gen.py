"""Enumerators and random generators of the inputs of the correspondence
checks.  Everything random derives from one random.Random(seed)."""
import itertools
import random
from functools import lru_cache


@lru_cache(maxsize=None)
def _forests(n):
    """all ordered forests with n nodes, as nested tuples of children"""
    if n == 0:
        return ((),)
    out = []
    for k in range(1, n + 1):          # size of the first tree
        for first_kids in _forests(k - 1):
            for rest in _forests(n - k):
                out.append((first_kids,) + rest)
    return tuple(out)


def shapes(n):
    """all ordered rooted trees with exactly n nodes (unlabelled: nested tuples)"""
    return [kids for kids in _forests(n - 1)]


def label_preorder(shape, start=0):
    """shape (tuple of child shapes) -> (label, [children]) labelled in pre-order
    (= creation order when the tree is built top-down, left to right)"""
    counter = [start]

    def go(kids):
        n = counter[0]
        counter[0] += 1
        return (n, [go(k) for k in kids])
    return go(shape)


def trees_upto(n):
    """all labelled-in-preorder trees with 1..n nodes"""
    out = []
    for k in range(1, n + 1):
        for s in shapes(k):
            out.append(label_preorder(s))
    return out


def forests_upto(n, start=0):
    """all ordered forests with 1..n nodes, labelled in pre-order"""
    out = []
    for k in range(1, n + 1):
        for f in _forests(k):
            c = start
            ts = []
            for kids in f:
                t = label_preorder(kids, c)
                c += tsize(t)
                ts.append(t)
            out.append(ts)
    return out


def tsize(t):
    return 1 + sum(tsize(c) for c in t[1])


def theight(t):
    return max([1 + theight(c) for c in t[1]], default=0)


def labels(t):
    out = [t[0]]
    for c in t[1]:
        out.extend(labels(c))
    return out


def subtrees(t):
    """every (position, subtree) in pre-order"""
    out = []

    def go(t, p):
        out.append((p, t))
        for i, c in enumerate(t[1]):
            go(c, p + [i])
    go(t, [])
    return out


def subsets(xs):
    xs = list(xs)
    for r in range(len(xs) + 1):
        for c in itertools.combinations(xs, r):
            yield list(c)


def random_shape(rng, n):
    """random ordered tree with n nodes (uniform attachment, random insertion
    position among the siblings), as unlabelled nested tuple"""
    kids = {0: []}
    for i in range(1, n):
        p = rng.randrange(i)
        kids[i] = []
        kids[p].insert(rng.randrange(len(kids[p]) + 1), i)

    def go(i):
        return tuple(go(c) for c in kids[i])
    return go(0)


def random_tree(rng, n):
    return label_preorder(random_shape(rng, n))


def chain(n, start=0):
    """a degenerate tree: a single path of n nodes, labelled start.. from the root down (built iteratively)"""
    t = (start + n - 1, [])
    for lbl in range(start + n - 2, start - 1, -1):
        t = (lbl, [t])
    return t


def comb(n, start=0):
    """a spine of n nodes, each spine node with one extra leaf child (labels in pre-order)"""
    # pre-order: spine_i, then its spine child subtree, then its leaf
    def lab(i):
        return start + i
    t = None
    total = 2 * n
    # spine node i has label i (pre-order along the spine), leaves get labels n.. from the bottom up so that
    # pre-order labelling is not needed by the callers (labels only have to be distinct)
    for i in range(n - 1, -1, -1):
        leaf = (lab(total - 1 - i), [])
        t = (lab(i), [t, leaf] if t is not None else [leaf])
    return t


ADV_KINDS = ["always_equal", "never_equal", "falsy", "zero_len", "unhashable", "container", "ordering", "tuple_based"]


def sprinkle_adv(cases, every=6):
    """every n-th case is run on a node class with user-defined special methods
    (the properties quantify over any node class); kinds rotate"""
    k = 0
    for i, c in enumerate(cases):
        if i % every == every - 1 and "adv" not in c:
            c["adv"] = ADV_KINDS[k % len(ADV_KINDS)]
            k += 1
    return cases


def rng_for(seed, salt):
    return random.Random("%s/%s" % (seed, salt))
