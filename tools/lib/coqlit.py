"""Rendering of Python values as Coq literals (text).  Trees are nested
tuples (label, [children])."""


def nat(n):
    assert isinstance(n, int) and n >= 0
    return "%d%%nat" % n


def z(n):
    assert isinstance(n, int)
    return "(%d)%%Z" % n


def bigN(n):
    return "%d%%N" % n


def boolean(b):
    return "true" if b else "false"


def lst(xs, f=None):
    if f is not None:
        xs = [f(x) for x in xs]
    return "[" + "; ".join(xs) + "]"


def opt(x, f=None):
    if x is None:
        return "None"
    return "(Some %s)" % (f(x) if f else x)


def tup(*xs):
    return "(" + ", ".join(xs) + ")"


def string(s):
    """Python str -> list N of code points"""
    return lst([bigN(ord(c)) for c in s])


def ostring(s):
    return opt(s, string)


def tree(t):
    n, cs = t
    return "(T %d%%nat %s)" % (n, lst([tree(c) for c in cs]))


def nats(xs):
    return lst([nat(x) for x in xs])


def onats(xs):
    return opt(xs, nats)


def oz(x):
    return opt(x, z)


def pos(p):
    return nats(p)
