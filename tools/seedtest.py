#!/usr/bin/env python3
"""Confirm a seeded change and run the checks against it.

  seedtest.py <seed-id> <property> <patch.diff> <demo.py> [--checks C01,C02,...] [--needs "..."]

1. In a scratch worktree of /repo (under /var/tmp, removed afterwards): the
   demo passes without the patch, fails with it, and the repository's test
   suite still has its 160 passing tests with the patch.
2. The patch is applied to /repo's working tree, the named checks (default:
   the property's own) are run at the quick tier, and the working tree is
   restored (`git checkout -- .`) whatever happens.  With --scratch the
   checks are instead pointed (VERIF_REPO) at a second scratch worktree that
   carries the patch, evidence goes to a scratch directory, and /repo is not
   touched: several seeds can then be tried at once.
3. /verif/seeded/<seed-id>/ receives patch.diff, the demo and meta.json.
"""
import json
import os
import shutil
import subprocess
import sys
import time

VERIF = os.path.dirname(os.path.dirname(os.path.abspath(__file__)))
REPO = "/repo"
PY = "/venv/bin/python"


def sh(cmd, cwd=None, env=None, timeout=3600):
    p = subprocess.run(cmd, cwd=cwd, env=env, stdout=subprocess.PIPE, stderr=subprocess.STDOUT, text=True, timeout=timeout)
    return p.returncode, p.stdout


def main(argv):
    seed, prop, patch, demo = argv[:4]
    checks = [prop]
    needs = ""
    if "--checks" in argv:
        checks = argv[argv.index("--checks") + 1].split(",")
    if "--needs" in argv:
        needs = argv[argv.index("--needs") + 1]
    out = os.path.join(VERIF, "seeded", seed)
    os.makedirs(out, exist_ok=True)
    shutil.copy(patch, os.path.join(out, "patch.diff"))
    shutil.copy(demo, os.path.join(out, os.path.basename(demo)))
    meta = {"seed": seed, "property": prop, "needs": needs, "ran": [], "confirmed": {}, "checks": {}}
    wt = "/var/tmp/seedwt_%s_%d" % (seed, os.getpid())
    rc, o = sh(["git", "-C", REPO, "worktree", "add", "-q", "--detach", wt, "HEAD"])
    try:
        env = dict(os.environ, PYTHONPATH=wt, PYTHONDONTWRITEBYTECODE="1")
        rc0, o0 = sh([PY, os.path.join(out, os.path.basename(demo))], cwd=wt, env=env, timeout=600)
        meta["confirmed"]["demo_without_patch_rc"] = rc0
        rca, oa = sh(["git", "-C", wt, "apply", os.path.join(out, "patch.diff")])
        meta["confirmed"]["patch_applies"] = (rca == 0)
        if rca != 0:
            meta["confirmed"]["apply_output"] = oa[-500:]
        rc1, o1 = sh([PY, os.path.join(out, os.path.basename(demo))], cwd=wt, env=env, timeout=600)
        meta["confirmed"]["demo_with_patch_rc"] = rc1
        meta["confirmed"]["demo_with_patch_tail"] = o1[-400:]
        rct, ot = sh([PY, "-m", "pytest", "-q", "-p", "no:cacheprovider", "--timeout=900"], cwd=wt, timeout=1800)
        meta["confirmed"]["pytest_with_patch"] = ot.strip().splitlines()[-1] if ot.strip() else ""
        meta["ran"].append("scratch worktree %s: demo without patch, git apply, demo with patch, pytest" % wt)
    finally:
        sh(["git", "-C", REPO, "worktree", "remove", "--force", wt])
    ok = (meta["confirmed"].get("demo_without_patch_rc") == 0 and meta["confirmed"].get("patch_applies")
          and meta["confirmed"].get("demo_with_patch_rc") not in (0, None)
          and "160 passed" in meta["confirmed"].get("pytest_with_patch", ""))
    meta["confirmed"]["kept"] = bool(ok)
    if ok and "--scratch" in argv:
        wt2 = "/var/tmp/seedrun_%s_%d" % (seed, os.getpid())
        sh(["git", "-C", REPO, "worktree", "add", "-q", "--detach", wt2, "HEAD"])
        try:
            rc, o = sh(["git", "-C", wt2, "apply", os.path.join(out, "patch.diff")])
            env2 = dict(os.environ, VERIF_REPO=wt2, VERIF_EVIDENCE_DIR="/var/tmp/ev_seed_%s" % seed)
            for chk in checks:
                t0 = time.time()
                rc, o = sh(["python3", os.path.join(VERIF, "tools", "check.py"), chk, "--tier", "quick"], cwd=VERIF, env=env2, timeout=7200)
                lines = [ln for ln in o.splitlines() if ln.startswith("VIOLATION") or ln.startswith("KNOWN-FINDING") or ln.startswith(chk + ":")]
                meta["checks"][chk] = {"exit": rc, "detected": rc == 1 and any(l.startswith("VIOLATION") for l in lines),
                                       "lines": [l[:300] for l in lines][:8], "wall_s": round(time.time() - t0, 1)}
                meta["ran"].append("scratch worktree with patch.diff applied; VERIF_REPO=<worktree> python3 tools/check.py %s --tier quick; worktree removed" % chk)
        finally:
            sh(["git", "-C", REPO, "worktree", "remove", "--force", wt2])
            shutil.rmtree("/var/tmp/ev_seed_%s" % seed, ignore_errors=True)
    elif ok:
        rc, o = sh(["git", "-C", REPO, "status", "--porcelain", "--untracked-files=no"])
        if o.strip():
            raise SystemExit("refusing: /repo working tree is not clean:\n" + o)
        try:
            rc, o = sh(["git", "-C", REPO, "apply", os.path.join(out, "patch.diff")])
            if rc != 0:
                raise SystemExit("patch does not apply to /repo: " + o)
            for chk in checks:
                t0 = time.time()
                rc, o = sh(["python3", os.path.join(VERIF, "tools", "check.py"), chk, "--tier", "quick"], cwd=VERIF, timeout=7200)
                lines = [ln for ln in o.splitlines() if ln.startswith("VIOLATION") or ln.startswith("KNOWN-FINDING") or ln.startswith(chk + ":")]
                meta["checks"][chk] = {"exit": rc, "detected": rc == 1 and any(l.startswith("VIOLATION") for l in lines),
                                       "lines": [l[:300] for l in lines][:8], "wall_s": round(time.time() - t0, 1)}
                meta["ran"].append("git -C /repo apply patch.diff; python3 tools/check.py %s --tier quick; git -C /repo checkout -- ." % chk)
        finally:
            sh(["git", "-C", REPO, "checkout", "--", "."])
            rc, o = sh(["git", "-C", REPO, "status", "--porcelain", "--untracked-files=no"])
            if o.strip():
                print("WARNING: /repo not clean after restore:\n" + o)
    with open(os.path.join(out, "meta.json"), "w") as fh:
        json.dump(meta, fh, indent=1)
    print(json.dumps({"seed": seed, "kept": ok, "confirmed": meta["confirmed"],
                      "checks": {k: (v["detected"], v["lines"][:2]) for k, v in meta["checks"].items()}}, indent=1)[:3000])
    return 0


if __name__ == "__main__":
    sys.exit(main(sys.argv[1:]))
