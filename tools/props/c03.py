"""C03 - a refused or hook-vetoed structural change leaves the whole forest untouched."""
import json

from lib import gen
from props import mutcommon as mc

PROP = "C03"
CORR = "Mut"
HEADER = mc.HEADER
CASE_TYPE = "case_mut"
DRIVER = "corr_C03"
WIDTH = 3
SHARD = 1500
FILES = mc.FILES
ASSUMPTIONS = mc.ASSUMPTIONS


def run_impl(cases):
    return mc.run_impl(cases, PROP)


def gen_and_run(tier, seed):
    rng = gen.rng_for(seed, PROP)
    base = []
    for kk in range(1, 4):
        base += mc.exhaustive(kk, mc.CLASSES if tier == "thorough" else ["mixin", "light", "symlink"], False, rng,
                              asrt_every=4)
    obs0 = mc.run_impl(base, PROP)
    pool = list(zip(base, obs0))
    fc = mc.expand_faults([c for c, _ in pool], [o for _, o in pool], rng, persistent=False, doubles=0.2)
    pers = []
    for c, o in pool:
        if not mc.obs_ok(o) or not o["kinds"]:
            continue
        for kind, node in sorted(set((k, n) for k, n in o["kinds"])):
            if kind.startswith("Pre"):
                pers.append(dict(c, faults=[[], [[kind, node]]]))
        # a read-only class: every pre hook of every node vetoes
        if len(c["heap"]) <= 3 and rng.random() < 0.2:
            pers.append(dict(c, faults=[[], [[k, n] for k in ("PreDetach", "PreAttach") for n in range(len(c["heap"]))]]))
    if tier == "quick":
        rng.shuffle(fc)
        fc = fc[:60000]
        rng.shuffle(pers)
        pers = pers[:25000]
    fobs = mc.run_impl(fc + pers, PROP)
    cases = base + fc + pers
    obs = obs0 + fobs
    nexh = len(cases)
    if tier == "thorough":
        b4 = mc.exhaustive(4, ["mixin", "light"], False, rng, asrt_every=4, rich=False)
        rng.shuffle(b4)
        b4 = b4[:60000]
        o4 = mc.run_impl(b4, PROP)
        f4 = mc.expand_faults(b4, o4, rng, persistent=False, doubles=0.1, limit=250000)
        fo4 = mc.run_impl(f4, PROP)
        cases += b4 + f4
        obs += o4 + fo4
    hs = mc.random_histories(rng, 300 if tier == "quick" else 4000, 6 if tier == "quick" else 9,
                             12 if tier == "quick" else 40, mc.CLASSES, fault_ratio=0.6)
    hobs = mc.run_impl(hs, PROP)
    hc, ho = mc.flatten_histories(hs, hobs)
    cases += hc
    obs += ho
    dist = {"exhaustive_cases": nexh, "history_steps": len(hc), "by_op": {}, "by_outcome": {},
            "single_fault": sum(1 for c in cases if len(c["faults"][0]) == 1 and not c["faults"][1]),
            "persistent": sum(1 for c in cases if c["faults"][1]),
            "double_fault": sum(1 for c in cases if len(c["faults"][0]) > 1)}
    for c, o in zip(cases, obs):
        dist["by_op"][c["op"][0]] = dist["by_op"].get(c["op"][0], 0) + 1
        k_ = o["out"][0] if mc.obs_ok(o) else "harness-crash"
        dist["by_outcome"][k_] = dist["by_outcome"].get(k_, 0) + 1
    meta = {"rule": "every labelled ordered forest on <= 3 nodes x every call (valid and invalid arguments) fault-free, "
                    "x every single fault position of its hook sequence, x persistent pre-hook vetoes per (hook, node) "
                    "and whole-class read-only vetoes, x sampled double faults; then random faulted histories on live "
                    "objects. The spec predicate (refusal or pre-hook veto => complete link map unchanged) is evaluated "
                    "in Coq on the observed states. non-trivial = the call raised; distinct by (class, state, call, faults)",
            "exhaustive": True, "distribution": dist}
    return cases, obs, meta


def literal(c, o):
    return mc.case_lit(c, o)


def nontrivial_key(c, o):
    if not mc.obs_ok(o) or o["out"][0] == "Ok":
        return None
    return json.dumps([c["cls"], c["heap"], c["op"], c["faults"]])


describe = mc.describe
size = mc.size


def _fired(c, o):
    """hook invocations of the run that raised"""
    idx = set(c["faults"][0])
    pers = set((k, n) for k, n in c["faults"][1])
    return [i for i, (k, n) in enumerate(o["kinds"]) if i in idx or (k, n) in pers]


def finding_class(c, o):
    """the known-finding class a failing case falls in (None = not a listed class)"""
    if not mc.obs_ok(o):
        return None
    op, out, heap, kinds = c["op"], o["out"], c["heap"], o["kinds"]
    fired = _fired(c, o)
    names = [k for k, _ in kinds]
    if op[0] == "set_parent":
        if out[0] == "Hook" and len(fired) == 1 and kinds[out[1]][0] == "PreAttach" and heap[op[1]][0] is not None:
            return "KF-C03-1"
        return None
    if op[0] not in ("set_children", "del_children"):
        return None
    if out[0] == "RecursionError":
        pk = set(k for k, _ in c["faults"][1])
        if op[0] == "set_children" and pk and pk <= {"PreAttachChildren"} and not c["faults"][0]:
            return "KF-C03-5"
        return None
    # a second _pre_detach_children invocation marks the start of the rollback (nested children assignment)
    pdc = [i for i, k in enumerate(names) if k == "PreDetachChildren"]
    rollback_start = pdc[1] if len(pdc) > 1 else None
    if rollback_start is not None and any(i >= rollback_start for i in fired):
        return "KF-C03-4"
    # deletion phase = up to the first PostDetachChildren
    end_del = names.index("PostDetachChildren") if "PostDetachChildren" in names else len(names)
    if out[0] == "Hook" and len(fired) == 1 and out[1] < end_del and kinds[out[1]][0] == "PreDetach" and out[1] >= 2:
        return "KF-C03-2"
    if op[0] == "set_children" and isinstance(op[2], list):
        n, xs = op[1], op[2]
        stolen = [x for x in xs if isinstance(x, int) and x < len(heap) and heap[x][0] not in (None, n)]
        if stolen and out[0] in ("Hook", "LoopError"):
            return "KF-C03-3"
    return None


def violation_key(c, o):
    return (c["op"][0], o["out"][0] if mc.obs_ok(o) else "crash")
