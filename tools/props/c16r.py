"""C16 / C01, family "reentrant": the four notification hooks of the moving node
detach other nodes while the parent setter runs (Model/Reentry.v)."""
import itertools
import json

from lib import coqlit as L
from lib import gen
from props import mutcommon as mc

HEADER = ("Require Import AT.Model.Base AT.Model.Heap AT.Model.Mutate AT.Model.Reentry AT.Corr.Mut "
          "AT.Corr.Reentry.")
CASE_TYPE = "case_re"
DRIVER = "corr_C16r"
WIDTH = 2
SHARD = 500
HOOKS = ["PreDetach", "PostDetach", "PreAttach", "PostAttach"]


def act_lists(others, maxlen):
    out = [[]]
    for ln in range(1, maxlen + 1):
        out.extend(list(p) for p in itertools.permutations(others, ln))
    return out


def gen_cases(tier, seed):
    rng = gen.rng_for(seed, "C16r")
    cases = []
    maxk = 4
    for k in range(2, maxk + 1):
        forests = mc.forests(k)
        if k == 4:
            rng.shuffle(forests)
            forests = forests[:40 if tier == "quick" else 1500]
        for heap in forests:
            for n in range(k):
                others = [x for x in range(k) if x != n]
                for v in [None] + list(range(k)):
                    lists = act_lists(others, 2 if k <= 3 else 1)
                    combos = []
                    # one hook acts (every list), and pairs of hooks acting
                    for hk in HOOKS:
                        for xs in lists[1:]:
                            combos.append([[hk, xs]])
                    for h1, h2 in itertools.combinations(HOOKS, 2):
                        for xs in lists[1:]:
                            for ys in lists[1:]:
                                combos.append([[h1, xs], [h2, ys]])
                    combos.append([])
                    if tier == "quick" and len(combos) > 12:
                        rng.shuffle(combos)
                        combos = combos[:12 if k <= 3 else 6]
                    elif len(combos) > 60:
                        rng.shuffle(combos)
                        combos = combos[:60]
                    for cb in combos:
                        cls = "light" if len(cases) % 3 == 2 else ("mixin" if len(cases) % 3 == 0 else "anynode")
                        cases.append({"cls": cls, "heap": heap, "op": ["set_parent", n, v], "faults": [[], []],
                                      "asrt": len(cases) % 7 == 3, "log": True,
                                      "acts": [[hk, n, xs] for hk, xs in cb]})
    dist = {"by_nodes": {}, "by_acting_hooks": {}}
    for c in cases:
        a = str(len(c["heap"]))
        dist["by_nodes"][a] = dist["by_nodes"].get(a, 0) + 1
        b = "+".join(sorted(h for h, _, _ in c["acts"])) or "none"
        dist["by_acting_hooks"][b] = dist["by_acting_hooks"].get(b, 0) + 1
    meta = {"rule": "re-entrant hooks: every labelled ordered forest on 2..3 nodes (4 nodes: sampled) x every parent "
                    "assignment x one or two of the four hooks of the moving node detaching one or two other nodes "
                    "(sampled combinations); outcome, final link map and hook log (with the link map each hook "
                    "observes) compared with Model/Reentry.v; the statement's clauses evaluated on the observation",
            "distribution": dist}
    return cases, meta


def gen_and_run(tier, seed):
    cases, meta = gen_cases(tier, seed)
    obs = mc.run_impl(cases, "C16")
    return cases, obs, meta


def acts_lit(acts):
    return L.lst(["(%s, %s)" % (hk, L.nats(xs)) for hk, _, xs in acts])


def literal(c, o):
    n, v = c["op"][1], c["op"][2]
    if not mc.obs_ok(o) or o.get("log") is None:
        return L.tup(mc.heap_lit(c["heap"]), L.nat(n), L.opt(v, L.nat), acts_lit(c["acts"]), "OutOfFuel", "[]", "[]")
    log = L.lst(["(%s, %s, %s, %s)" % (e[0], L.nat(e[1]), L.nats(e[2]), mc.heap_lit(e[3])) for e in o["log"]])
    return L.tup(mc.heap_lit(c["heap"]), L.nat(n), L.opt(v, L.nat), acts_lit(c["acts"]), mc.out_lit(o["out"]),
                 mc.heap_lit(o["heap"]), log)


def nontrivial_key(c, o):
    if not mc.obs_ok(o) or not o.get("nkinds") or not c["acts"]:
        return None
    return json.dumps([c["cls"], c["heap"], c["op"], c["acts"]])
