"""C17 - tree operations use node identity only, never user-defined special methods.

The cases of the other properties' correspondence checks are re-run on node
classes that define their own comparison, hashing, truth-value, container and
ordering methods (each logging every invocation, one variant raising on any
use).  The observation must equal the MODEL (which has no access to those
methods at all) and the invocation log must be empty."""
import json

from lib import core, gen
from props import c01, c04, c06, c07, c08, c09, c12, c13, c14, c15
from props import mutcommon as mc

PROP = "C17"
CORR = "C17"
WIDTH = 3
SPEC_IS_MODEL = True
HEADER = ""
CASE_TYPE = ""
DRIVER = "corr_* of the re-used families"
FILES = ["anytree/node/nodemixin.py", "anytree/node/lightnodemixin.py", "anytree/util/__init__.py", "anytree/resolver.py",
         "anytree/walker.py", "anytree/render.py", "anytree/iterators/abstractiter.py",
         "anytree/exporter/dotexporter.py", "anytree/exporter/mermaidexporter.py", "anytree/search.py"]
KINDS = ["always_equal", "never_equal", "falsy", "zero_len", "unhashable", "container", "ordering", "raising"]
ASSUMPTIONS = ["which Python operation dispatches to which special method is CPython's semantics (encoded by hand in "
               "Model/Special.v for the refuted pre-repair functions); the adversarial classes log every invocation",
               "the model functions have no access to user special methods at all: equality of the observation with the "
               "model is the statement 'same result as for a plain class'"]


def _fam(name, mod, cases, literal, impl, rng, quota):
    rng.shuffle(cases)
    cases = cases[:quota]
    for i, c in enumerate(cases):
        c["adv"] = KINDS[i % len(KINDS)]
        c["family"] = impl
    return {"name": name, "mod": mod, "cases": cases, "literal": literal}


def _wrap(lit):
    def f(c, o):
        if isinstance(o, dict) and o.get("speclog"):
            o = {"crash": "special methods invoked: %s" % o["speclog"]}
        return lit(c, o)
    return f


def families(tier, seed):
    rng = gen.rng_for(seed, PROP)
    q = 1600 if tier == "quick" else 16000
    fams = []
    cs, _ = c04.gen_cases("quick", seed)
    fams.append(_fam("nav", c04, cs, _wrap(c04.literal), "C04", rng, q))
    cs, _ = c15.gen_cases("quick", seed)
    fams.append(_fam("walk", c15, cs, _wrap(c15.literal), "C15", rng, q // 2))
    cs, _ = c06.gen_cases("quick", seed)
    fams.append(_fam("iter", c06, cs, _wrap(c06.literal), "C06", rng, q))
    cs, _ = c14.gen_cases("quick", seed)
    fams.append(_fam("search", c14, cs, _wrap(c14.literal), "C14", rng, q // 2))
    cs, _ = c07.gen_cases("quick", seed)
    fams.append(_fam("get", c07, cs, _wrap(c07.literal), "C07", rng, q))
    cs, _ = c07.gen_get_cases("quick", seed, True, ["*", "?", "a*", "**"], "C17g")
    for c in cs:
        c["glob"] = True
    fams.append(_fam("glob", c08, cs, _wrap(c08.literal), "C08", rng, q))
    cs, _ = c09.gen_cases("quick", seed)
    cs = [c for c in cs if c["mode"] == "rows"]
    fams.append(_fam("render", c09, cs, _wrap(c09.literal), "C09", rng, q // 2))
    cs, _ = c12.gen_for(["dot", "unique"], "quick", seed, "C17d")
    cs = [c for c in cs if not c["stop"]]          # the DOT stop class is C12's known finding, not C17's subject
    fams.append(_fam("dot", c12, cs, _wrap(c12.literal), "C12", rng, q // 2))
    cs, _ = c12.gen_for(["mermaid_default", "mermaid"], "quick", seed, "C17m")
    fams.append(_fam("mermaid", c13, cs, _wrap(c13.literal), "C13", rng, q // 2))
    # mutations: every forest on <= 3 nodes x every call, fault-free, equal-comparing siblings in every order
    base = []
    for kk in range(1, 4):
        base += mc.exhaustive(kk, ["mixin", "light", "symlink"], False, rng, asrt_every=0)
    fams.append(_fam("mut", c01, base, _wrap(c01.literal), "C01", rng, q * 2))
    for fam in fams:
        fam["obs"] = core.run_impl_parallel(PROP, fam["cases"], tag=fam["name"])
    dist = {f["name"]: len(f["cases"]) for f in fams}
    dist["by_kind"] = {k: sum(1 for f in fams for c in f["cases"] if c["adv"] == k) for k in KINDS}
    dist["special_method_invocations_seen"] = sum(1 for f in fams for o in f["obs"] if isinstance(o, dict) and o.get("speclog"))
    meta = {"rule": "the case sets of C01 (mutations, every forest <= 3 nodes x every call), C04, C05/C06, C07, C08, C09, C12, "
                    "C13, C14, C15 at quick size, re-run on node classes with adversarial special methods (always-equal, "
                    "never-equal-even-to-self, falsy via __bool__, zero __len__, unhashable, container methods, ordering "
                    "methods, every special method raising), kinds rotating over the cases; the observation must equal the "
                    "model and no special method may have been invoked. non-trivial = tree/forest with >= 2 nodes",
            "exhaustive": False, "distribution": dist}
    return fams, meta


def nontrivial_key(c, o):
    return json.dumps(c, sort_keys=True, default=str)[:400] if len(json.dumps(c["case"], default=str)) > 120 else None


def describe(c, o):
    return {"family": c["family"], "case": c["case"], "observed": o}


def size(c):
    return len(json.dumps(c["case"], default=str))


def violation_key(c, o):
    return (c["family"], c["case"].get("adv"))
