"""C02 - attach, move, detach and children assignment have exactly the specified effect."""
import json

from lib import gen
from props import mutcommon as mc

PROP = "C02"
CORR = "Mut"
HEADER = mc.HEADER
CASE_TYPE = "case_mut"
DRIVER = "corr_C02"
WIDTH = 2
SHARD = 1500
FILES = mc.FILES
ASSUMPTIONS = ["fault-free calls (hooks do not raise); non-node arguments are exercised on NodeMixin-based classes only "
               "(for LightNodeMixin the statement promises nothing about them)"]


def run_impl(cases):
    return mc.run_impl(cases, PROP)


def gen_and_run(tier, seed):
    rng = gen.rng_for(seed, PROP)
    cases = []
    for kk in range(1, 4):
        cases += mc.exhaustive(kk, mc.CLASSES, False, rng, asrt_every=4)
    nexh3 = len(cases)
    b4 = mc.exhaustive(4, ["mixin", "light"] if tier == "quick" else mc.CLASSES, False, rng, asrt_every=5, rich=False)
    rng.shuffle(b4)
    b4 = b4[:40000] if tier == "quick" else b4[:250000]
    cases += b4
    cases += [dict(c, adv=gen.ADV_KINDS[i % len(gen.ADV_KINDS)]) for i, c in enumerate(cases[:nexh3]) if i % 5 == 0]
    # wide families (a node with three children) on classes with value-based __eq__: detaching the middle child
    cases += [dict(c, adv=["always_equal", "container", "ordering"][i % 3]) for i, c in enumerate(b4[:6000])]
    cases += mc.fresh_cases(mc.CLASSES)
    # the children argument as a one-shot iterable (iterator, generator, reversed, map): same effect as the list
    its = [c for c in cases[:nexh3] if c["op"][0] in ("set_children", "construct") and c["op"][-1] not in (None, "notiterable")]
    cases += [dict(c, iterarg=["iter", "gen", "reversed", "map"][k % 4]) for k, c in enumerate(its) if k % 3 == 0]
    # a deep chain (600 levels) moved as a whole: a structural call must not need stack proportional to the depth
    n = 600
    chain = [[None if i == 0 else i - 1, [i + 1] if i + 1 < n else []] for i in range(n)] + [[None, []]]
    for cls in ("mixin", "light", "anynode"):
        cases.append(mc.mk(cls, chain, ["set_parent", 0, n]))
        cases.append(mc.mk(cls, chain, ["set_children", n, [0]]))
        cases.append(mc.mk(cls, chain, ["set_parent", n, n - 1]))
        # ... and the loop check must reach the root of a chain deeper than the recursion limit
        cases.append(mc.mk(cls, chain, ["set_parent", 0, n - 1]))
        cases.append(mc.mk(cls, chain, ["set_children", n - 1, [0]]))
    obs = mc.run_impl(cases, PROP)
    hs = mc.random_histories(rng, 400 if tier == "quick" else 5000, 6 if tier == "quick" else 9,
                             12 if tier == "quick" else 40, mc.CLASSES, fault_ratio=0.0)
    hobs = mc.run_impl(hs, PROP)
    hc, ho = mc.flatten_histories(hs, hobs)
    cases += hc
    obs += ho
    dist = {"exhaustive_3_nodes": nexh3, "four_node_cases": len(b4), "history_steps": len(hc), "by_op": {}, "by_outcome": {}}
    for c, o in zip(cases, obs):
        dist["by_op"][c["op"][0]] = dist["by_op"].get(c["op"][0], 0) + 1
        k_ = o["out"][0] if mc.obs_ok(o) else "harness-crash"
        dist["by_outcome"][k_] = dist["by_outcome"].get(k_, 0) + 1
    meta = {"rule": "fault-free: every labelled ordered forest on <= 3 nodes x every call (see C01) x 5 classes; forests on 4 "
                    "nodes x every call (%s); random fault-free histories on live objects. The observed outcome and the "
                    "complete link map of the universe are compared with the pointwise specification (what changes and "
                    "that nothing else does; refusal iff). non-trivial = the call changed a link or was refused"
                    % ("40000 sampled, 2 classes" if tier == "quick" else "250000 sampled, 5 classes"),
            "exhaustive": True, "distribution": dist}
    return cases, obs, meta


def literal(c, o):
    return mc.case_lit(c, o)


def nontrivial_key(c, o):
    if not mc.obs_ok(o):
        return None
    if o["out"][0] != "Ok" or o["heap"][:len(c["heap"])] != c["heap"]:
        return json.dumps([c["cls"], c["heap"], c["op"]])
    return None


describe = mc.describe
size = mc.size


def violation_key(c, o):
    return c["op"][0]
