"""C11 - JSON export and import."""
from props import c10

PROP = "C11"
CORR = "C10"
IMPL = "C11"
HEADER = c10.HEADER
CASE_TYPE = c10.CASE_TYPE
DRIVER = c10.DRIVER
WIDTH = 2
SHARD = 400
FILES = ["anytree/exporter/jsonexporter.py", "anytree/importer/jsonimporter.py", "anytree/exporter/dictexporter.py",
         "anytree/importer/dictimporter.py"]
ASSUMPTIONS = c10.ASSUMPTIONS + ["the codec is CPython's json: loads(dumps(v)) = v is checked on every exported value, not proved "
                                 "(floats NaN/inf excluded)"]


def gen_cases(tier, seed):
    return c10.gen_for(tier, seed, PROP, True)


literal = c10.literal
nontrivial_key = c10.nontrivial_key
describe = c10.describe
size = c10.size
