"""C13 - Mermaid export."""
from props import c12

PROP = "C13"
CORR = "C12"
IMPL = "C13"
HEADER = c12.HEADER
CASE_TYPE = c12.CASE_TYPE
DRIVER = c12.DRIVER
WIDTH = 3
SHARD = 300
FILES = ["anytree/exporter/mermaidexporter.py", "anytree/iterators/preorderiter.py", "anytree/iterators/abstractiter.py"]
ASSUMPTIONS = c12.ASSUMPTIONS
TRUSTED = c12.TRUSTED


def gen_cases(tier, seed):
    return c12.gen_for(["mermaid_default", "mermaid"], tier, seed, PROP)


literal = c12.literal
nontrivial_key = c12.nontrivial_key
describe = c12.describe
size = c12.size
violation_key = c12.violation_key
