"""C18 - LightNodeMixin behaves identically to NodeMixin (mutation part: lock-step)."""
import json

from lib import coqlit as L
from lib import core, gen
from props import mutcommon as mc

PROP = "C18"
CORR = "C17"          # the drivers of the mutation core and of the re-used query families
HEADER = mc.HEADER
CASE_TYPE = "case18"
DRIVER = "corr_C18"
WIDTH = 2
SHARD = 500
FILES = mc.FILES
ASSUMPTIONS = mc.ASSUMPTIONS + ["arguments are tree nodes (the statement's quantifier)"]


def run_impl(cases):
    return mc.run_impl(cases, PROP)


def non_node_arg(op):
    """C18 speaks of calls with tree-node arguments (the two mixins refuse non-nodes with different exceptions)"""
    return (op[0] == "set_parent" and op[2] in ("other", "other0", "otherp")) or mc.uses_non_node(op)


def gen_and_run(tier, seed):
    rng = gen.rng_for(seed, PROP)
    base = []
    for kk in range(1, 4):
        for c in mc.exhaustive(kk, ["mixin"], False, rng, asrt_every=4, log=True):
            if non_node_arg(c["op"]) or c["op"] == ["set_children", c["op"][1], "notiterable"]:
                continue
            c["cls2"] = "light"
            base.append(c)
    if tier == "thorough":
        b4 = [c for c in mc.exhaustive(4, ["mixin"], False, rng, asrt_every=4, log=True, rich=False)
              if not non_node_arg(c["op"])]
        rng.shuffle(b4)
        for c in b4[:40000]:
            c["cls2"] = "light"
            base.append(c)
    # the same lock-step on node classes with user-defined __eq__/__bool__/__len__/__hash__ (both mixins get
    # the same special methods): identity-only code behaves identically, value-based code does not
    nb = len(base)
    # the kind is chosen by a running count: i % n under the selection stride reaches only some residues
    base += [dict(c, adv=gen.ADV_KINDS[k % len(gen.ADV_KINDS)])
             for k, c in enumerate([c for i, c in enumerate(base[:nb]) if i % 4 == 1])]
    obs0 = mc.run_impl(base, PROP)
    flat = [o["a"] if isinstance(o, dict) and "a" in o else o for o in obs0]
    sample = list(zip(base, flat))
    if tier == "quick":
        rng.shuffle(sample)
        sample = sample[:2500]
    fc = mc.expand_faults([c for c, _ in sample], [o for _, o in sample], rng, persistent=False, doubles=0.1)
    pers = []
    for c, o in sample[:1500 if tier == "quick" else 20000]:
        if mc.obs_ok(o):
            for kind, node in sorted(set((k, n) for k, n in o["kinds"])):
                pers.append(dict(c, faults=[[], [[kind, node]]]))
    fobs = mc.run_impl(fc + pers, PROP)
    cases = base + fc + pers
    obs = obs0 + fobs
    dist = {"fault_free": len(base), "single_or_double_fault": len(fc), "persistent": len(pers), "by_op": {}}
    for c in cases:
        dist["by_op"][c["op"][0]] = dist["by_op"].get(c["op"][0], 0) + 1
    meta = {"rule": "lock-step: the same forest (<= 3 nodes, all), the same call with node arguments and the same fault "
                    "oracle run on a NodeMixin subclass and on a LightNodeMixin subclass; outcome class, final link map and "
                    "hook log (with state snapshots) must be equal to each other and to the model; fault-free, single "
                    "faults, persistent vetoes. The read-only queries are covered by the source-parallelism obligation "
                    "(extracted hunk list) and by running C04-C09's real code on LightNodeMixin trees in their checks. "
                    "non-trivial = a hook fired or the call raised",
            "exhaustive": True, "distribution": dist}
    return cases, obs, meta


def literal(c, o):
    if not (isinstance(o, dict) and "a" in o and mc.obs_ok(o["a"]) and mc.obs_ok(o["b"])):
        a = mc.case_lit(c, None, typed=True)
        return "(%s, (OutOfFuel, [], None))" % a
    a = mc.case_lit(c, o["a"], typed=True)
    b = o["b"]
    return "(%s, (%s, %s, %s))" % (a, mc.out_lit(b["out"]), mc.heap_lit(b["heap"]), mc.log_lit(b.get("log")))


def families(tier, seed):
    """C18 is decided by two kinds of correspondence: the lock-step of the structural calls (this module's
    driver) and the read-only queries of C04, C06, C14, C15, C07, C08, C09 re-run on LightNodeMixin trees
    (harness switch base="light"): their observations must equal the model, i.e. the NodeMixin behaviour"""
    import sys
    from props import c04, c06, c07, c08, c09, c14, c15
    rng = gen.rng_for(seed, PROP + "q")
    q = 1200 if tier == "quick" else 12000
    cases, obs, meta = gen_and_run(tier, seed)
    fams = [{"name": "main", "mod": sys.modules[__name__], "cases": cases, "obs": obs, "literal": literal}]

    def qfam(name, mod, cs, lit, impl, quota):
        cs = [c for c in cs if "adv" not in c]
        rng.shuffle(cs)
        cs = cs[:quota]
        for c in cs:
            c["base"] = "light"
            c["family"] = impl
            if "cls" in c:
                c["cls"] = "any"          # the harness' AnyNode trees become LightNodeMixin trees
        return {"name": name, "mod": mod, "cases": cs, "literal": lit, "spec_is_model": True}

    cs, _ = c04.gen_cases("quick", seed)
    fams.append(qfam("nav", c04, cs, c04.literal, "C04", q))
    cs, _ = c15.gen_cases("quick", seed)
    fams.append(qfam("walk", c15, cs, c15.literal, "C15", q // 2))
    cs, _ = c06.gen_cases("quick", seed)
    fams.append(qfam("iter", c06, cs, c06.literal, "C06", q))
    cs, _ = c14.gen_cases("quick", seed)
    fams.append(qfam("search", c14, [c for c in cs if not c.get("via")], c14.literal, "C14", q // 2))
    cs, _ = c07.gen_cases("quick", seed)
    fams.append(qfam("get", c07, cs, c07.literal, "C07", q))
    cs, _ = c07.gen_get_cases("quick", seed, True, ["*", "?", "a*", "**"], "C18g")
    for c in cs:
        c["glob"] = True
    fams.append(qfam("glob", c08, cs, c08.literal, "C08", q // 2))
    cs, _ = c09.gen_cases("quick", seed)
    fams.append(qfam("render", c09, [c for c in cs if c["mode"] == "rows"], c09.literal, "C09", q // 2))
    for fam in fams[1:]:
        fam["obs"] = core.run_impl_parallel(PROP, fam["cases"], tag=fam["name"])
    meta = dict(meta)
    meta["rule"] += (" || read-only queries: the quick case sets of C04 (navigation), C15 (Walker), C06 (five iterators "
                     "with filter/stop/maxlevel), C14 (search), C07/C08 (Resolver get/glob) and C09 (RenderTree rows) "
                     "re-run on LightNodeMixin trees; each observation must equal the model (= the NodeMixin behaviour)")
    meta["distribution"] = {"main": meta["distribution"], "queries_on_light_trees": {f["name"]: len(f["cases"]) for f in fams[1:]}}
    return fams, meta


def nontrivial_key(w, o):
    c = w["case"]
    if w["family"] != "main":
        return "q" + json.dumps(c, sort_keys=True, default=str)[:300]
    if not (isinstance(o, dict) and "a" in o and mc.obs_ok(o["a"])):
        return None
    if o["a"].get("nkinds") or o["a"]["out"][0] != "Ok":
        return json.dumps([c["heap"], c["op"], c["faults"]])
    return None


def describe(w, o):
    return {"family": w["family"], "case": w["case"], "observed": o}


def size(w):
    return mc.size(w["case"]) if w["family"] == "main" else len(json.dumps(w["case"], default=str))


def violation_key(w, o):
    return w["family"]
