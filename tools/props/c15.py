"""C15 - Walker.walk returns the unique tree path between two nodes."""
import json

from lib import coqlit as L
from lib import gen

PROP = "C15"
CORR = "C04"
HEADER = "Require Import AT.Model.Base AT.Model.Rose AT.Corr.C04."
CASE_TYPE = "case15"
DRIVER = "corr_C15"
WIDTH = 2
SHARD = 1000
FILES = ["anytree/walker.py", "anytree/node/nodemixin.py", "anytree/node/lightnodemixin.py"]
ASSUMPTIONS = ["a node is (tree index, position); plain node classes"]


def gen_cases(tier, seed):
    rng = gen.rng_for(seed, PROP)
    full = 5 if tier == "quick" else 7
    cases = []
    k = 0
    for f in gen.forests_upto(full):
        nodes = [(i, p) for i, t in enumerate(f) for p, _ in gen.subtrees(t)]
        for a in nodes:
            for b in nodes:
                k += 1
                cases.append({"forest": f, "a": [a[0], a[1]], "b": [b[0], b[1]], "cls": ["any", "light", "mixin", "symmix"][k % 4],
                              "how": "direct" if k % 5 else "history", "seed": k})
    nexh = len(cases)
    nrand = 1500 if tier == "quick" else 15000
    for i in range(nrand):
        f = [gen.label_preorder(gen.random_shape(rng, rng.randint(1, 10)), 100 * j) for j in range(rng.randint(1, 2))]
        nodes = [(j, p) for j, t in enumerate(f) for p, _ in gen.subtrees(t)]
        a, b = rng.choice(nodes), rng.choice(nodes)
        cases.append({"forest": f, "a": [a[0], a[1]], "b": [b[0], b[1]], "cls": rng.choice(["any", "light", "mixin", "symmix"]),
                      "how": rng.choice(["direct", "history"]), "seed": i})
    # a deep degenerate tree (450 levels, run under the interpreter's default recursion limit): the walk must not depend on the interpreter's recursion depth
    deep = gen.chain(450)
    leaf, mid = [0] * 449, [0] * 200
    for a, b in (([0, leaf], [0, []]), ([0, []], [0, leaf]), ([0, leaf], [0, mid])):
        for cls in ("any", "light"):
            cases.append({"forest": [deep], "a": a, "b": b, "cls": cls, "how": "direct", "seed": 0,
                          "reclimit_default": True, "adv": None})
    gen.sprinkle_adv(cases)
    meta = {"rule": "every ordered forest with <= %d nodes x every ordered pair of nodes (same tree and different trees); "
                    "classes rotate, a fifth of the forests is reached through a mutation history; then %d random pairs in "
                    "larger forests. non-trivial = the two nodes differ; distinct by (forest, pair)" % (full, nrand),
            "exhaustive": True,
            "distribution": {"exhaustive_cases": nexh, "random_cases": nrand,
                             "different_trees": sum(1 for c in cases if c["a"][0] != c["b"][0])}}
    return cases, meta


def literal(c, o):
    if isinstance(o, dict) and "up" in o:
        obs = "(Ok (%s, %s, %s))" % (L.nats(o["up"]), L.nat(o["common"]), L.nats(o["down"]))
    elif isinstance(o, dict) and o.get("err") == "WalkError":
        obs = "(Err WalkError)"
    else:
        obs = "(Err OtherError)"
    node = lambda x: "(%s, %s)" % (L.nat(x[0]), L.nats(x[1]))
    return L.tup(L.lst([L.tree(t) for t in c["forest"]]), node(c["a"]), node(c["b"]), obs)


def nontrivial_key(c, o):
    if c["a"] == c["b"]:
        return None
    return json.dumps([c["forest"], c["a"], c["b"]])


def describe(c, o):
    return {"case": c, "observed": o}


def size(c):
    return sum(gen.tsize(t) for t in c["forest"])
