"""Case generation and rendering shared by the mutation-core properties
(C01, C02, C03, C16, C18)."""
import itertools
import json

from lib import coqlit as L
from lib import core, gen

KINDS = ["PreDetach", "PostDetach", "PreAttach", "PostAttach",
         "PreDetachChildren", "PostDetachChildren", "PreAttachChildren", "PostAttachChildren"]
CLASSES = ["mixin", "node", "anynode", "symlink", "light"]
TYPED = {"mixin": True, "node": True, "anynode": True, "symlink": True, "light": False}
HEADER = "Require Import AT.Model.Base AT.Model.Heap AT.Model.Mutate AT.Corr.Mut."
FILES = ["anytree/node/nodemixin.py", "anytree/node/lightnodemixin.py", "anytree/node/node.py",
         "anytree/node/anynode.py", "anytree/node/symlinknode.py", "anytree/node/symlinknodemixin.py",
         "anytree/config.py", "anytree/node/exceptions.py"]
ASSUMPTIONS = ["hooks only observe and possibly raise (hooks that mutate the tree are outside the property's quantifier)",
               "the outcome of an unbounded children-setter re-entrancy (RecursionError) is compared by class; the "
               "final state only when it does not depend on the interpreter's recursion limit"]


def forests(k):
    """all labelled ordered forests on nodes 0..k-1 as heaps [[parent, [children]], ...]"""
    out = []
    for par in itertools.product([None] + list(range(k)), repeat=k):
        ok = True
        for n in range(k):
            seen, x = set(), n
            while x is not None:
                if x in seen:
                    ok = False
                    break
                seen.add(x)
                x = par[x]
            if not ok:
                break
        if not ok:
            continue
        kids = [[c for c in range(k) if par[c] == p] for p in range(k)]
        for orders in itertools.product(*[list(itertools.permutations(ks)) for ks in kids]):
            out.append([[par[n], list(orders[n])] for n in range(k)])
    return out


def all_ops(k, rich=True):
    nodes = list(range(k))
    ops = []
    for n in nodes:
        for v in [None] + nodes + ["other", "other0"]:
            ops.append(["set_parent", n, v])
        ops.append(["del_children", n])
        seqs = []
        for ln in range(0, k + 1):
            seqs.extend(list(s) for s in itertools.product(nodes, repeat=ln))
        for s in seqs:
            ops.append(["set_children", n, s])
        ops.append(["set_children", n, "notiterable"])
        if rich and k >= 1:
            ops.append(["set_children", n, ["other"]])
            ops.append(["set_children", n, [None]])
            ops.append(["set_children", n, [nodes[-1], "other"]])
            ops.append(["set_children", n, [nodes[-1], "otherp"]])
            ops.append(["set_children", n, ["other", nodes[0], nodes[0]]])
    for p in [None] + nodes + ["other", "other0"]:
        ops.append(["construct", p, None])
    for p in [None] + nodes[:1]:
        for c in [[], "notiterable"] + [[x] for x in nodes] + ([[nodes[0], nodes[-1]], [nodes[-1], nodes[-1]]] if k >= 2 else []):
            ops.append(["construct", p, c])
    return ops


def uses_non_node(op):
    if op[0] == "set_parent":
        return False      # a non-node parent: TreeError (NodeMixin) / AttributeError (LightNodeMixin), nothing changed

    if op[0] == "set_children":
        return op[2] != "notiterable" and any(v is None or v in ("other", "otherp") for v in op[2])
    if op[0] == "construct":
        c = op[2]
        return op[1] in ("other", "other0") or (isinstance(c, list) and any(v is None or v in ("other", "otherp") for v in c))
    return False


def mk(cls, heap, op, faults=None, asrt=False, log=False):
    return {"cls": cls, "heap": heap, "op": op, "faults": faults or [[], []], "asrt": asrt, "log": log}


def fresh_cases(classes):
    """calls on nodes that were never inspected before (no attribute read, no children list created yet)"""
    out = []
    for k in (1, 2):
        heap = [[None, []] for _ in range(k)]
        for op in all_ops(k, rich=False):
            for cls in classes:
                if not TYPED[cls] and uses_non_node(op):
                    continue
                out.append(dict(mk(cls, heap, op, log=True), fresh=True))
    return out


def run_impl(cases, prop):
    """cases with asrt False / True go to interpreter processes with the matching ANYTREE_ASSERTIONS"""
    obs = [None] * len(cases)
    for flag in (False, True):
        idx = [i for i, c in enumerate(cases) if bool(c.get("asrt")) == flag]
        if not idx:
            continue
        env = {"ANYTREE_ASSERTIONS": "1"} if flag else {"ANYTREE_ASSERTIONS": "0"}
        res = core.run_impl_parallel(prop, [cases[i] for i in idx], extra_env=env, tag=("a" if flag else "n"))
        for i, r in zip(idx, res):
            obs[i] = r
    return obs


# ------------------------------------------------------------- rendering
def heap_lit(heap):
    return L.lst(["(%s, %s)" % (L.opt(p, L.nat), L.nats(cs)) for p, cs in heap])


def value_lit(v):
    if v is None:
        return "VNone"
    if v in ("other", "other0", "otherp"):
        return "VOther"
    return "(VNode %s)" % L.nat(v)


def carg_lit(a):
    if a == "notiterable":
        return "CNotIterable"
    return "(CList %s)" % L.lst([value_lit(v) for v in a])


def op_lit(op):
    k = op[0]
    if k == "set_parent":
        return "(SetParent %s %s)" % (L.nat(op[1]), value_lit(op[2]))
    if k == "set_children":
        return "(SetChildren %s %s)" % (L.nat(op[1]), carg_lit(op[2]))
    if k == "del_children":
        return "(DelChildren %s)" % L.nat(op[1])
    if k == "construct":
        return "(Construct %s %s)" % (value_lit(op[1]), "None" if op[2] is None else "(Some %s)" % carg_lit(op[2]))
    raise ValueError(k)


def faults_lit(f):
    return "(%s, %s)" % (L.nats(f[0]), L.lst(["(%s, %s)" % (k, L.nat(n)) for k, n in f[1]]))


def out_lit(out):
    k = out[0]
    if k == "Ok":
        return "(Ok tt)"
    if k == "Hook":
        return "(Err (HookExn %s))" % L.nat(out[1])
    if k in ("LoopError", "TreeError", "TypeError", "AssertionError", "AttributeError", "RecursionError"):
        return "(Err %s)" % k
    return "(Err OtherError)"


def log_lit(log):
    if log is None:
        return "None"
    return "(Some %s)" % L.lst(["(%s, %s, %s, %s)" % (e[0], L.nat(e[1]), L.nats(e[2]), heap_lit(e[3])) for e in log])


def obs_ok(o):
    return isinstance(o, dict) and "out" in o


def case_lit(c, o, typed=None):
    typed = TYPED[c["cls"]] if typed is None else typed
    if not obs_ok(o):
        # harness crash / timeout: an observation no model run can equal
        return L.tup(L.boolean(typed), L.boolean(c["asrt"]), heap_lit(c["heap"]), op_lit(c["op"]),
                     faults_lit(c["faults"]), "OutOfFuel", "[]", "None")
    return L.tup(L.boolean(typed), L.boolean(c["asrt"]), heap_lit(c["heap"]), op_lit(c["op"]),
                 faults_lit(c["faults"]), out_lit(o["out"]), heap_lit(o["heap"]), log_lit(o.get("log")))


def describe(c, o):
    return {"case": c, "observed": o}


def size(c):
    return len(c["heap"]) * 1000 + len(json.dumps(c["op"])) * 10 + len(json.dumps(c["faults"]))


# ------------------------------------------------------------- generators
def exhaustive(k, classes, with_faults, rng, asrt_every=0, log=False, sample_faults=None, rich=True,
               skip_non_node_light=True):
    """fault-free cases for every forest x op x class; optionally the faulted variants.
    Faulted variants need the fault-free log first: they are generated by `expand_faults`."""
    cases = []
    i = 0
    for heap in forests(k):
        for op in all_ops(k, rich):
            for cls in classes:
                if skip_non_node_light and not TYPED[cls] and uses_non_node(op):
                    continue
                i += 1
                asrt = bool(asrt_every and i % asrt_every == 0)
                cases.append(mk(cls, heap, op, asrt=asrt, log=log))
    return cases


def expand_faults(cases, obs, rng, persistent=True, doubles=0.1, limit=None):
    """from fault-free runs (with 'kinds' lists) derive single-fault, persistent
    and a sample of double-fault cases"""
    out = []
    for c, o in zip(cases, obs):
        if not obs_ok(o):
            continue
        kinds = o.get("kinds") or []
        m = len(kinds)
        for i in range(m):
            out.append(dict(c, faults=[[i], []]))
        if persistent and o.get("log") is not None:
            seen = set()
            for e in o["log"]:
                key = (e[0], e[1])
                if key not in seen:
                    seen.add(key)
                    out.append(dict(c, faults=[[], [[e[0], e[1]]]]))
        elif persistent:
            pass
        if m >= 1 and rng.random() < doubles:
            i = rng.randrange(m)
            out.append(dict(c, faults=[[i, i + 1 + rng.randrange(3)], []]))
    if limit is not None and len(out) > limit:
        rng.shuffle(out)
        out = out[:limit]
    return out


def random_histories(rng, count, nodes, length, classes, asrt_ratio=0.25, fault_ratio=0.35):
    hs = []
    for _ in range(count):
        k = rng.randint(2, nodes)
        cls = rng.choice(classes)
        steps = []
        for _ in range(rng.randint(3, length)):
            # only the k initial nodes are named by calls (constructed nodes take part through links)
            n = rng.randrange(k)
            r = rng.random()
            if r < 0.4:
                op = ["set_parent", n, rng.choice([None] + list(range(k)))]
            elif r < 0.8:
                ln = rng.randint(0, min(4, k))
                if rng.random() < 0.8:
                    xs = rng.sample(range(k), ln)
                else:
                    xs = [rng.randrange(k) for _ in range(ln)]
                op = ["set_children", n, xs]
            elif r < 0.9:
                op = ["del_children", n]
            else:
                op = ["construct", rng.choice([None] + list(range(k))),
                      rng.choice([None, [], [rng.randrange(k)], rng.sample(range(k), min(2, k))])]
            if rng.random() < fault_ratio:
                if rng.random() < 0.7:
                    faults = [[rng.randrange(8)], []]
                else:
                    faults = [[], [[rng.choice(KINDS[:4] + KINDS[4:6]), rng.randrange(k)]]]
            else:
                faults = [[], []]
            steps.append([op, faults])
        heap = [[None, []] for _ in range(k)]
        hs.append({"cls": cls, "heap": heap, "steps": steps, "asrt": rng.random() < asrt_ratio})
    return hs


def flatten_histories(hs, obs):
    """history observations -> single-step cases (state before each step = the
    state OBSERVED after the previous one)"""
    cases, outs = [], []
    for hcase, o in zip(hs, obs):
        if not isinstance(o, dict) or "steps" not in o:
            cases.append(mk(hcase["cls"], hcase["heap"], hcase["steps"][0][0], hcase["steps"][0][1], hcase["asrt"]))
            outs.append(o)
            continue
        for (op, faults), so in zip(hcase["steps"], o["steps"]):
            c = mk(hcase["cls"], so["before"], op, faults, hcase["asrt"])
            c["from_history"] = True
            cases.append(c)
            outs.append({"out": so["out"], "heap": so["heap"], "log": None, "kinds": so["kinds"]})
    return cases, outs
