"""C08 - Resolver.glob: correspondence cases."""
import json

from lib import coqlit as L
from lib import core, gen
from props import c07

PROP = "C08"
CORR = "C08"
HEADER = "Require Import AT.Model.Base AT.Model.Rose AT.Corr.C07 AT.Corr.C08."
CASE_TYPE = "case08"
DRIVER = "corr_C08"
WIDTH = 3
SHARD = 600
FILES = ["anytree/resolver.py", "anytree/iterators/preorderiter.py"]
ASSUMPTIONS = c07.ASSUMPTIONS + ["the regex engine is replaced by a matcher for the fragment __translate can emit; its "
                                 "agreement with `re` is part of this correspondence",
                                 "cache transparency on the implementation: every call of a history is compared with the "
                                 "same call on a fresh resolver state"]


def gobs(o):
    if isinstance(o, dict) and "list" in o:
        return "(GList %s)" % L.lst([L.nats(p) for p in o["list"]])
    if isinstance(o, dict) and "err" in o:
        return "(GErr %s)" % c07.ERR.get(o["err"][0], "OtherError")
    return "(GErr OtherError)"


def literal(c, o):
    ok = isinstance(o, dict) and "glob" in o
    names = o["names"] if ok else {str(x): "?" for x in gen.labels(c["tree"])}
    nm = L.lst(["(%s, %s)" % (L.nat(int(k)), L.string(v)) for k, v in sorted(names.items(), key=lambda kv: int(kv[0]))])
    return L.tup(L.tree(c["tree"]), nm, L.nats(c["pos"]), L.string(c["path"]), L.string(c["sep"]),
                 L.boolean(c["ic"]), L.boolean(c["relax"]), gobs(o["glob"] if ok else None), gobs(o["get"] if ok else None))


def gen_and_run(tier, seed):
    cases, rng = c07.gen_get_cases(tier, seed, True, ["*", "?", "a*", "*a", "?*", "**"], PROP)
    for c in cases:
        c["glob"] = True
    # the known class and its neighbours, explicitly
    extra = []
    for t in gen.trees_upto(4):
        for path in ("*/**/../..", "*/../**/..", "**/..", "*/**/..", "*/**", "**/*", "**/**", "*/*/..", "a*/**/../../..", "**/../*"):
            for relax in (False, True):
                names = {str(x): rng.choice(["a", "ab", "b"]) for x in gen.labels(t)}
                extra.append({"glob": True, "tree": t, "names": names, "pos": [], "path": path, "sep": "/", "ic": False,
                              "relax": relax, "attr": "name"})
    # within one name: every character other than '*' and '?' stands for itself (bracket expressions,
    # negations, ranges, escapes, alternations and anchors of other pattern languages are literal text)
    mnames = ["a", "b", "[ab]", "!a", "a.b", "axb", "A", "a-b", "[!a]", "a|b", "\\a", "a]", "^a", "a$", "(a)", "a+", "aa"]
    mpats = ["[ab]", "[!a]", "[a-b]", "a.b", "a?b", "a[", "*]", "\\a", "a|b", "(a)", "a+", "^a", "a$", "!a", "[*]", "?", "a*", "[?b]"]
    t3 = (0, [(1, []), (2, []), (3, [])])
    for i, pat in enumerate(mpats):
        for j in range(6 if tier == "quick" else 30):
            names = {"0": "r", "1": rng.choice(mnames), "2": rng.choice(mnames), "3": pat}
            extra.append({"glob": True, "tree": t3, "names": names, "pos": [], "path": pat, "sep": "/",
                          "ic": (i + j) % 2 == 0, "relax": j % 3 != 0, "attr": "name"})
    cases += extra
    obs = core.run_impl_parallel(PROP, cases)
    # cache histories: > _MAXCACHE distinct patterns, two resolvers with different ignorecase
    hist_cases = []
    nh = 6 if tier == "quick" else 40
    for i in range(nh):
        t = gen.random_tree(rng, rng.randint(3, 6))
        names = {str(x): rng.choice(["a", "A", "ab", "Ab", "b", "a.b", "a+"]) for x in gen.labels(t)}
        pats = ["*", "a*", "A*", "?", "a?", "*b", "a.b", "a+", "??", "*a*", "[x", "a", "A", "ab", "AB", "b", "B",
                "?b", "*B", "a.?", "A.?", "x*", "*x", "**", "a*/..", "*/*", "a/b", "A*/*", "?/?"]
        history = []
        for _ in range(60):
            history.append([rng.random() < 0.5, True, rng.choice(pats)])
        hist_cases.append({"tree": t, "names": names, "history": history})
    hobs = core.run_impl_parallel(PROP, hist_cases, tag="h")
    # replay every call of every history on its own in a fresh interpreter state: single calls = ordinary cases
    singles = []
    for hc, ho in zip(hist_cases, hobs):
        for (ic, relax, path), res in zip(hc["history"], ho.get("results", []) if isinstance(ho, dict) else []):
            singles.append(({"glob": True, "tree": hc["tree"], "names": hc["names"], "pos": [], "path": path, "sep": "/",
                             "ic": ic, "relax": relax, "attr": "name", "from_history": True}, res))
    # fresh runs: one process per chunk, each case on a new Resolver with the class cache cleared by process start
    fresh = core.run_impl_parallel(PROP, [s for s, _ in singles], chunk=1 if len(singles) < 64 else 25, tag="f")
    history_mismatch = 0
    for (sc, hres), fo in zip(singles, fresh):
        cases.append(sc)
        if isinstance(fo, dict) and "glob" in fo and fo["glob"] != hres:
            history_mismatch += 1
            fo = dict(fo, glob={"err": ["Other", "history-dependent: %r vs fresh %r" % (hres, fo["glob"])]})
        obs.append(fo)
    dist = {"pattern_cases": len(cases) - len(singles), "history_calls": len(singles), "history_dependent": history_mismatch,
            "relax": sum(1 for c in cases if c["relax"]),
            "cache_crossed": sum(1 for ho in hobs if isinstance(ho, dict) and ho.get("maxcache") is not None)}
    meta = {"rule": "trees <= %d nodes x name assignments (duplicates among siblings, regex metacharacters) x every pattern "
                    "of <= 2 components and sampled 3-component patterns over {names, unknown, '..', '.', '', '*', '?', "
                    "'a*', '*a', '?*', '**'}, relative and absolute x ignorecase x relax x separator; the D6 pattern class "
                    "explicitly; glob and get on the same path; %d cache histories of 60 calls by resolvers with "
                    "different ignorecase over %d patterns (crossing _MAXCACHE), every call compared with a cold-cache run. "
                    "non-trivial = a wildcard, '**' or '..' component" % (4 if tier == "quick" else 5, nh, 29),
            "exhaustive": False, "distribution": dist}
    return cases, obs, meta


def nontrivial_key(c, o):
    if any(x in c["path"] for x in ("*", "?", "..")):
        return json.dumps([c["tree"], c["names"], c["pos"], c["path"], c["sep"], c["ic"], c["relax"]], sort_keys=True)
    return None


def describe(c, o):
    return {"case": c, "observed": o}


def size(c):
    return gen.tsize(c["tree"]) * 100 + len(c["path"])


def finding_class(c, o):
    if not c["relax"]:
        return "KF-C08-1"
    return None


def violation_key(c, o):
    return (c["relax"], c.get("from_history", False))
