"""C01 - parent and children links always describe one consistent forest."""
import json
import zlib

from lib import gen
from props import mutcommon as mc

PROP = "C01"
CORR = "Mut"
HEADER = mc.HEADER
CASE_TYPE = "case_mut"
DRIVER = "corr_C01"
WIDTH = 2
SHARD = 1500
FILES = mc.FILES
ASSUMPTIONS = mc.ASSUMPTIONS


def run_impl(cases):
    return mc.run_impl(cases, PROP)


def gen_and_run(tier, seed):
    rng = gen.rng_for(seed, PROP)
    k = 3
    base = []
    for kk in range(1, k + 1):
        base += mc.exhaustive(kk, mc.CLASSES, False, rng, asrt_every=3)
    obs0 = mc.run_impl(base, PROP)
    # faulted variants: classes rotate over the cases to keep the volume down in the quick tier
    pool = list(zip(base, obs0))
    if tier == "quick":
        pool = [x for i, x in enumerate(pool) if i % 5 == (zlib.crc32(json.dumps(x[0]["op"]).encode()) % 5)]
    fc = mc.expand_faults([c for c, _ in pool], [o for _, o in pool], rng, persistent=False, doubles=0.15)
    # persistent vetoes: every (pre/post hook kind, node) pair
    pers = []
    for c, o in pool:
        if not mc.obs_ok(o) or not o["kinds"]:
            continue
        n = len(c["heap"])
        for kind in sorted(set(k for k, _ in o["kinds"])):
            for node in range(n):
                pers.append(dict(c, faults=[[], [[kind, node]]]))
    if tier == "quick" and len(pers) > 20000:
        rng.shuffle(pers)
        pers = pers[:20000]
    # node classes whose instances compare equal / are falsy (any node class is in the quantifier)
    advs = []
    for i, c in enumerate(base):
        if i % 4 == 0:
            advs.append(dict(c, adv=["always_equal", "falsy", "zero_len", "never_equal"][(i // 4) % 4]))
    for i, c in enumerate(fc):
        if i % 9 == 0:
            advs.append(dict(c, adv=["always_equal", "falsy"][(i // 9) % 2]))
    # wide families (three children under one parent) on value-comparing classes
    b4q = mc.exhaustive(4, ["mixin", "light"], False, rng, rich=False)
    rng.shuffle(b4q)
    advs += [dict(c, adv=["always_equal", "container", "ordering"][i % 3]) for i, c in enumerate(b4q[:3000])]
    advs += mc.fresh_cases(mc.CLASSES)
    # a chain deeper than the interpreter's recursion limit (the harness runs the call under a limit of 250):
    # the loop check must still see the root - a node may not be put below its deepest descendant
    n = 600
    chain = [[None if i == 0 else i - 1, [i + 1] if i + 1 < n else []] for i in range(n)]
    for cls in ("mixin", "light", "anynode"):
        advs.append(mc.mk(cls, chain, ["set_parent", 0, n - 1]))
        advs.append(mc.mk(cls, chain, ["set_children", n - 1, [0]]))
        advs.append(mc.mk(cls, chain, ["set_parent", 1, n - 1]))
    fobs = mc.run_impl(fc + pers + advs, PROP)
    cases = base + fc + pers + advs
    obs = obs0 + fobs
    nexh = len(cases)
    if tier == "thorough":
        b4 = mc.exhaustive(4, ["mixin", "light"], False, rng, asrt_every=4, rich=False)
        rng.shuffle(b4)
        b4 = b4[:120000]
        o4 = mc.run_impl(b4, PROP)
        f4 = mc.expand_faults(b4[:20000], o4[:20000], rng, persistent=False, doubles=0.1, limit=150000)
        fo4 = mc.run_impl(f4, PROP)
        cases += b4 + f4
        obs += o4 + fo4
    hs = mc.random_histories(rng, 400 if tier == "quick" else 4000, 6 if tier == "quick" else 9,
                             12 if tier == "quick" else 40, mc.CLASSES)
    hobs = mc.run_impl(hs, PROP)
    hc, ho = mc.flatten_histories(hs, hobs)
    cases += hc
    obs += ho
    dist = {"exhaustive_cases": nexh, "history_steps": len(hc), "by_class": {}, "by_op": {}, "by_outcome": {},
            "faulted": sum(1 for c in cases if c["faults"] != [[], []]),
            "assertions_on": sum(1 for c in cases if c["asrt"])}
    for c, o in zip(cases, obs):
        dist["by_class"][c["cls"]] = dist["by_class"].get(c["cls"], 0) + 1
        dist["by_op"][c["op"][0]] = dist["by_op"].get(c["op"][0], 0) + 1
        k_ = o["out"][0] if mc.obs_ok(o) else "harness-crash"
        dist["by_outcome"][k_] = dist["by_outcome"].get(k_, 0) + 1
    meta = {"rule": "exhaustive: every labelled ordered forest on <= 3 nodes x every parent assignment (None, every "
                    "node, a non-node), every children assignment (all sequences with repeats up to length 3, "
                    "non-iterable, non-node elements), del children, constructors x 5 node classes (NodeMixin "
                    "subclass, Node, AnyNode, SymlinkNode, LightNodeMixin subclass) fault-free; every single fault "
                    "position of the fault-free hook sequence, persistent (hook kind, node) vetoes and sampled double "
                    "faults (class rotating in the quick tier); ANYTREE_ASSERTIONS=1 for every third case (separate "
                    "interpreter); then random histories on live objects (each step checked from the observed state "
                    "before it). non-trivial = the call changed a link or raised; distinct by (class, state, call, faults)",
            "exhaustive": True, "distribution": dist}
    return cases, obs, meta


def literal(c, o):
    return mc.case_lit(c, o)


def nontrivial_key(c, o):
    if not mc.obs_ok(o):
        return None
    if o["out"][0] != "Ok" or o["heap"][:len(c["heap"])] != c["heap"]:
        return json.dumps([c["cls"], c["heap"], c["op"], c["faults"], c["asrt"]])
    return None


describe = mc.describe
size = mc.size


def violation_key(c, o):
    return c["op"][0]
