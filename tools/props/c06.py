"""C06 - restricted iterators: correspondence cases."""
import json

from lib import coqlit as L
from lib import gen

PROP = "C06"
CORR = "C06"
HEADER = "Require Import AT.Model.Base AT.Model.Rose AT.Corr.C06."
CASE_TYPE = "case06"
DRIVER = "corr_C06"
WIDTH = 2
SHARD = 1000
FILES = ["anytree/iterators/abstractiter.py", "anytree/iterators/preorderiter.py",
         "anytree/iterators/postorderiter.py", "anytree/iterators/levelorderiter.py",
         "anytree/iterators/levelordergroupiter.py", "anytree/iterators/zigzaggroupiter.py"]
ASSUMPTIONS = ["filter_/stop are pure predicates on the node (given as label sets)",
               "generator laziness is not modelled: outputs are compared as complete lists; the harness checks "
               "that draining the iterators leaves the tree unchanged"]


def mk(tree, filt=None, stop=None, ml=None, embed=False):
    mk.counter += 1
    # every third case runs with ANYTREE_ASSERTIONS=1 (a separate interpreter)
    return {"tree": tree, "filt": filt, "stop": stop, "ml": ml, "embed": embed, "asrt": mk.counter % 3 == 0}


mk.counter = 0


def run_impl(cases):
    from lib import core
    return core.run_impl_split("C06", cases)


def gen_cases(tier, seed):
    rng = gen.rng_for(seed, "C06")
    full = 4 if tier == "quick" else 5
    cases = []
    for t in gen.trees_upto(full):
        labs = gen.labels(t)
        h = gen.theight(t)
        mls = [None, -1] + list(range(0, h + 3))
        for stop in gen.subsets(labs):
            for filt in gen.subsets(labs):
                for ml in mls:
                    cases.append(mk(t, filt, stop or None if False else stop, ml, embed=(len(cases) % 3 == 0)))
        cases.append(mk(t, None, None, None))
        for ml in mls:
            cases.append(mk(t, None, None, ml, embed=True))
    # one size beyond: every stop subset, sampled filters
    for s in gen.shapes(full + 1):
        t = gen.label_preorder(s)
        labs = gen.labels(t)
        h = gen.theight(t)
        for stop in gen.subsets(labs):
            for ml in [None] + list(range(0, h + 2)):
                filt = rng.choice([None, [x for x in labs if rng.random() < 0.5], [x for x in labs if rng.random() < 0.8]])
                cases.append(mk(t, filt, stop, ml, embed=rng.random() < 0.3))
    nexh = len(cases)
    nrand = 2000 if tier == "quick" else 20000
    maxr = 10 if tier == "quick" else 16
    for _ in range(nrand):
        n = rng.randint(full + 2, maxr)
        t = gen.random_tree(rng, n)
        labs = gen.labels(t)
        pick = lambda p: [x for x in labs if rng.random() < p]
        filt = None if rng.random() < 0.2 else pick(rng.choice([0.3, 0.6, 0.9]))
        stop = None if rng.random() < 0.3 else pick(rng.choice([0.1, 0.25]))
        ml = rng.choice([None, None, -1, 0, 1, 2, 3, 4, gen.theight(t), gen.theight(t) + 1])
        cases.append(mk(t, filt, stop, ml, embed=rng.random() < 0.3))
    gen.sprinkle_adv(cases)
    dist = {"exhaustive_cases": nexh, "random_cases": nrand, "by_tree_size": {}, "maxlevel": {}}
    for c in cases:
        k = str(gen.tsize(c["tree"]))
        dist["by_tree_size"][k] = dist["by_tree_size"].get(k, 0) + 1
        k = str(c["ml"])
        dist["maxlevel"][k] = dist["maxlevel"].get(k, 0) + 1
    meta = {"rule": "exhaustive: every ordered tree shape with <= %d nodes x every stop subset x every filter subset x "
                    "maxlevel in {None,-1,0..h+2}; shapes with %d nodes x every stop subset x maxlevel x sampled "
                    "filters; then %d random cases on trees up to %d nodes; a third of the cases start at an inner "
                    "node of a larger tree. Each case drains all five iterators. non-trivial = >= 2 nodes and some "
                    "restriction removes a node; distinct by full case" % (full, full + 1, nrand, maxr),
            "exhaustive": True, "distribution": dist}
    return cases, meta


def obs_lit(o):
    if "pre" not in o:
        return "None"
    g = lambda xs: L.lst([L.nats(x) for x in xs])
    return "(Some (%s, %s, %s, %s, %s))" % (L.nats(o["pre"]), L.nats(o["post"]), L.nats(o["level"]),
                                            g(o["group"]), g(o["zigzag"]))


def literal(c, o):
    return L.tup(L.tree(c["tree"]), L.onats(c["filt"]), L.onats(c["stop"]), L.oz(c["ml"]), obs_lit(o))


def nontrivial_key(c, o):
    n = gen.tsize(c["tree"])
    if n < 2 or "pre" not in o:
        return None
    if len(o["pre"]) < n:
        return json.dumps([c["tree"], c["filt"], c["stop"], c["ml"]])
    return None


def describe(c, o):
    return {"case": c, "observed": o}


def size(c):
    return gen.tsize(c["tree"]) * 1000 + len(c["filt"] or []) + len(c["stop"] or []) + (0 if c["ml"] is None else 1)
