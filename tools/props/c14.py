"""C14 - search functions: correspondence cases."""
import json

from lib import coqlit as L
from lib import gen

PROP = "C14"
HEADER = "Require Import AT.Model.Base AT.Model.Rose AT.Corr.C14."
CASE_TYPE = "case14"
DRIVER = "corr_C14"
WIDTH = 2
SHARD = 1000
FILES = ["anytree/search.py", "anytree/cachedsearch.py", "anytree/iterators/preorderiter.py",
         "anytree/iterators/abstractiter.py"]
TRUSTED = ["CountError numbers are parsed from the message text; attribute values are small integers"]
ASSUMPTIONS = ["fastcache is not installed in this sandbox: cachedsearch falls back to the forwarding wrapper",
               "filter_/stop callables are pure predicates on the node (given as label sets)"]

FN = {"findall": "FindAll", "find": "Find", "findall_by_attr": "FindAllByAttr", "find_by_attr": "FindByAttr"}


def mk(fn, tree, cached=False, filt=None, stop=None, ml=None, lo=None, hi=None, attrs=(), value=0):
    mk.counter += 1
    return {"fn": fn, "cached": cached, "tree": tree, "filt": filt, "stop": stop, "ml": ml, "lo": lo, "hi": hi,
            "attrs": [list(a) for a in attrs], "value": value, "embed": mk.counter % 3 == 0}


mk.counter = 0


def _unused():
    return None


def gen_cases(tier, seed):
    maxn = 4 if tier == "quick" else 5
    cases = []
    for t in gen.trees_upto(maxn):
        labs = gen.labels(t)
        n = len(labs)
        h = gen.theight(t)
        mls = [None] + list(range(0, h + 3))
        stops = [None] + [[x] for x in labs] + ([labs[1:3]] if n >= 3 else [])
        if tier == "thorough":
            stops = [None] + list(gen.subsets(labs))[1:]
        # A: filter x stop x maxlevel, no bounds
        for filt in gen.subsets(labs):
            for stop in stops:
                for ml in mls:
                    cases.append(mk("findall", t, filt=filt, stop=stop, ml=ml))
                    cases.append(mk("find", t, filt=filt, stop=stop, ml=ml, cached=(n <= 3)))
        # B: count bounds, every (mincount, maxcount) in {None, 0..n+1}^2
        bounds = [None] + list(range(0, n + 2))
        for filt in [None] + list(gen.subsets(labs)):
            for lo in bounds:
                for hi in bounds:
                    for ml in (None, 1, 2):
                        cases.append(mk("findall", t, filt=filt, ml=ml, lo=lo, hi=hi, cached=(lo == hi)))
        # D: by_attr: every assignment over {absent, 0, 1}
        for code in range(3 ** n):
            attrs = []
            c = code
            for x in labs:
                r = c % 3
                c //= 3
                if r:
                    attrs.append((x, r - 1))
            for value in (0, 1, 99):
                for ml in (None, 1, 2):
                    if value == 99:
                        # None as the searched value, and as the value of some nodes' attribute
                        attrs99 = [(x, 99 if (x + code) % 2 else v) for x, v in attrs]
                        cases.append(mk("findall_by_attr", t, attrs=attrs99, value=99, ml=ml))
                        cases.append(mk("find_by_attr", t, attrs=attrs99, value=99, ml=ml, cached=True))
                        continue
                    cases.append(mk("find_by_attr", t, attrs=attrs, value=value, ml=ml, cached=(code % 2 == 0)))
                    for lo, hi in ((None, None), (1, None), (None, 1), (2, 2), (0, 0)):
                        cases.append(mk("findall_by_attr", t, attrs=attrs, value=value, ml=ml, lo=lo, hi=hi,
                                        cached=(code % 2 == 1)))
    nexh = len(cases)
    rng = gen.rng_for(seed, "C14")
    nrand = 3000 if tier == "quick" else 30000
    maxr = 9 if tier == "quick" else 14
    for _ in range(nrand):
        n = rng.randint(5, maxr)
        t = gen.random_tree(rng, n)
        labs = gen.labels(t)
        pick = lambda p: [x for x in labs if rng.random() < p]
        filt = None if rng.random() < 0.2 else pick(rng.choice([0.3, 0.6, 0.9]))
        stop = None if rng.random() < 0.4 else pick(rng.choice([0.1, 0.3]))
        ml = rng.choice([None, None, 0, 1, 2, 3, 4, gen.theight(t) + 1])
        bound = lambda: rng.choice([None, None, 0, 1, 2, 3, rng.randint(0, n + 1)])
        fn = rng.choice(list(FN))
        vals = [0, 1, 0, 1, 97, 96, 99]          # 97 = the tuple (0, 1), 96 = the list [0], 99 = None
        attrs = [(x, rng.choice(vals)) for x in labs if rng.random() < 0.6]
        c = mk(fn, t, cached=rng.random() < 0.5, filt=filt, stop=stop, ml=ml, lo=bound(), hi=bound(),
               attrs=attrs, value=rng.choice(vals))
        c["pct"] = rng.random() < 0.3
        cases.append(c)
    gen.sprinkle_adv(cases)
    k = 0
    for c in cases:
        if c["fn"].endswith("by_attr") and "adv" not in c and c["attrs"]:
            k += 1
            if k % 4 == 0:
                c["via"] = "class" if k % 8 == 0 else "property"
            elif k % 4 == 2:
                c["aname"] = "parent.a" if k % 8 == 2 else "x.y"
    dist = {"exhaustive_cases": nexh, "random_cases": nrand, "by_fn": {}, "by_tree_size": {}}
    for c in cases:
        dist["by_fn"][c["fn"]] = dist["by_fn"].get(c["fn"], 0) + 1
        k = str(gen.tsize(c["tree"]))
        dist["by_tree_size"][k] = dist["by_tree_size"].get(k, 0) + 1
    meta = {"rule": "exhaustive: every ordered tree shape with <= %d nodes x (A) every filter subset x stop sets x "
                    "maxlevel in {None,0..h+2} for findall/find, (B) every (mincount,maxcount) in {None,0..n+1}^2 x "
                    "filter subsets, (D) every attribute assignment over {absent,0,1} x value x maxlevel for "
                    "*_by_attr; search and cachedsearch; then %d random cases on trees of 5..%d nodes. "
                    "non-trivial = tree with >= 2 nodes and (a non-empty result or a CountError); distinct by full case"
                    % (maxn, nrand, maxr),
            "exhaustive": True, "distribution": dist}
    return cases, meta


def obs_lit(o):
    if "ok" in o:
        return "(Ok %s)" % L.nats(o["ok"])
    if "err" in o:
        e = o["err"]
        if e[0] == "CountAtLeast":
            return "(Err (CountAtLeast %s %s))" % (L.z(e[1]), L.z(e[2]))
        if e[0] == "CountAtMost":
            return "(Err (CountAtMost %s %s))" % (L.z(e[1]), L.z(e[2]))
    return "(Err OtherError)"


def literal(c, o):
    return L.tup(FN[c["fn"]], L.boolean(c["cached"]), L.tree(c["tree"]), L.onats(c["filt"]), L.onats(c["stop"]),
                 L.oz(c["ml"]), L.oz(c["lo"]), L.oz(c["hi"]),
                 L.lst(["(%s, %s)" % (L.nat(k), L.z(v)) for k, v in c["attrs"]]), L.z(c["value"]), obs_lit(o))


def nontrivial_key(c, o):
    if gen.tsize(c["tree"]) < 2:
        return None
    if ("ok" in o and o["ok"]) or "err" in o:
        return json.dumps(c, sort_keys=True)
    return None


def describe(c, o):
    return {"case": c, "observed": o}


def size(c):
    return gen.tsize(c["tree"]) * 100 + len(json.dumps(c))


def violation_key(c, o):
    return c["fn"]
