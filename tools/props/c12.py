"""C12 / C13 - DOT and Mermaid export: correspondence cases (shared)."""
import json

from lib import coqlit as L
from lib import gen

PROP = "C12"
CORR = "C12"
HEADER = "Require Import AT.Model.Base AT.Model.Rose AT.Corr.C12."
CASE_TYPE = "case12"
DRIVER = "corr_C12"
WIDTH = 3
SHARD = 300
KINDS = ["dot", "legacy", "unique"]
FILES = ["anytree/exporter/dotexporter.py", "anytree/dotexport.py", "anytree/iterators/preorderiter.py",
         "anytree/iterators/abstractiter.py"]
ASSUMPTIONS = ["str() of names and of custom function results is computed by Python and shipped as text",
               "id() of live node objects is unique (UniqueDotExporter / MermaidExporter number nodes by id())"]
TRUSTED = ["to_dotfile / to_file output is compared with the iterated lines by the harness (file I/O is CPython's)"]
NAMEPOOL = ["a", "b", "a", 'q"x', "back\\slash", "sp ace", "ä中", '\\"', "", "x\\", 'a"b\\c"', "n\nl",
            " a", "a ", " ", "\ta", "a\n", "50%", "%s", "a %d b", "100%%"]
COQKIND = {"dot": "KDot", "legacy": "KDot", "unique": "KUnique", "mermaid": "KMermaid", "mermaid_default": "KMermaidDefault"}


def mk(rng, kind, t, filt, stop, ml, rich):
    labs = gen.labels(t)
    names = {str(x): rng.choice(NAMEPOOL) if rich else "n%d" % x for x in labs}
    edges = [(p[0], c[0]) for _, p in gen.subtrees(t) for c in p[1]]
    c = {"kind": kind, "tree": t, "filt": filt, "stop": stop, "ml": ml, "names": names,
         "custom_name": bool(rich and rng.random() < 0.5),
         "options": None, "indent": None, "graph": None, "gname": None, "nattr": {}, "eattr": [], "etype": [],
         "edefault": "-->" if kind.startswith("mermaid") else "->", "tofile": bool(rich and rng.random() < 0.2),
         "embed": rng.random() < 0.34, "slots": rng.random() < 0.15}
    if rich:
        if rng.random() < 0.5:
            c["options"] = rng.choice([[], ["rankdir=LR;"], ['node [shape="box"];', "x=1"]])
        if rng.random() < 0.5:
            c["indent"] = rng.choice([0, 1, 2, 8])
        if rng.random() < 0.4:
            c["graph"] = rng.choice(["graph", "digraph", "flowchart"])
        if rng.random() < 0.4:
            c["gname"] = rng.choice(["G", "my tree", "LR"])
        if rng.random() < 0.5:
            c["nattr"] = {str(x): rng.choice(["shape=box", 'label="%s"' % x, ""]) for x in labs if rng.random() < 0.6}
        if rng.random() < 0.5 and not kind.startswith("mermaid"):
            c["eattr"] = [[a, b, rng.choice(["color=red", "label=x"])] for a, b in edges if rng.random() < 0.5]
        if rng.random() < 0.5:
            c["etype"] = [[a, b, rng.choice(["--", "-.->", "==>"])] for a, b in edges if rng.random() < 0.5]
    if kind == "mermaid":
        c["custom_name"] = True
    return c


def defaults(c):
    """the values the exporter's constructor defaults give"""
    mer = c["kind"].startswith("mermaid")
    return {"graph": c["graph"] if c["graph"] is not None else ("graph" if mer else "digraph"),
            "gname": c["gname"] if c["gname"] is not None else ("TD" if mer else "tree"),
            "options": c["options"] or [],
            "indent": c["indent"] if c["indent"] is not None else (0 if mer else 4)}


def gen_for(kinds, tier, seed, salt):
    rng = gen.rng_for(seed, salt)
    full = 4 if tier == "quick" else 5
    cases = []
    for t in gen.trees_upto(full):
        labs = gen.labels(t)
        h = gen.theight(t)
        subs = list(gen.subsets(labs))
        for stop in subs:
            filts = subs if (len(labs) <= 3 or tier == "thorough") else [None] + rng.sample(subs, 5)
            for filt in filts:
                for ml in [None] + list(range(0, h + 3)):
                    kind = kinds[len(cases) % len(kinds)]
                    cases.append(mk(rng, kind, t, filt, stop if stop else (None if rng.random() < 0.5 else []), ml, rich=False))
    nexh = len(cases)
    nrich = 1500 if tier == "quick" else 12000
    for _ in range(nrich):
        t = gen.random_tree(rng, rng.randint(1, 7))
        labs = gen.labels(t)
        pick = lambda p: [x for x in labs if rng.random() < p]
        cases.append(mk(rng, rng.choice(kinds), t, None if rng.random() < 0.4 else pick(0.7),
                        None if rng.random() < 0.5 else pick(0.2),
                        rng.choice([None, None, 0, 1, 2, 3]), rich=True))
    gen.sprinkle_adv(cases)
    dist = {"exhaustive_cases": nexh, "rich_random_cases": nrich, "by_kind": {}}
    for c in cases:
        dist["by_kind"][c["kind"]] = dist["by_kind"].get(c["kind"], 0) + 1
    meta = {"rule": "every ordered tree shape with <= %d nodes x every stop subset x filter subsets (all for <= 3 nodes, "
                    "sampled above) x maxlevel in {None,0..h+2}, exporter kinds %s rotating, exact line text compared; "
                    "then %d random cases with names containing quotes, backslashes, spaces, newlines, non-ASCII and "
                    "collisions, custom name/attribute/edge functions, options, indent, graph/name, file output read "
                    "back; every exporter is iterated twice. non-trivial = >= 2 nodes and a restriction or a custom "
                    "setting is active" % (full, kinds, nrich),
            "exhaustive": True, "distribution": dist}
    return cases, meta


def gen_cases(tier, seed):
    return gen_for(KINDS, tier, seed, PROP)


def literal(c, o):
    d = defaults(c)
    labs = gen.labels(c["tree"])
    names = L.lst(["(%s, %s)" % (L.nat(x), L.string(str(c["names"][str(x)]))) for x in labs])
    nattr = L.lst(["(%s, %s)" % (L.nat(int(k)), L.string(v)) for k, v in sorted(c["nattr"].items(), key=lambda kv: int(kv[0]))])
    e3 = lambda xs: L.lst(["(%s, %s, %s)" % (L.nat(a), L.nat(b), L.string(v)) for a, b, v in xs])
    if isinstance(o, dict) and "l1" in o:
        obs = "(Some (%s, %s))" % (L.lst([L.string(x) for x in o["l1"]]), L.lst([L.string(x) for x in o["l2"]]))
    else:
        obs = "None"
    return L.tup(COQKIND[c["kind"]], L.tree(c["tree"]), L.onats(c["filt"]), L.onats(c["stop"]), L.oz(c["ml"]),
                 L.string(d["graph"]), L.string(d["gname"]), L.lst([L.string(x) for x in d["options"]]), L.nat(d["indent"]),
                 names, nattr, e3(c["eattr"]), e3(c["etype"]), L.string(c["edefault"]), obs)


def nontrivial_key(c, o):
    if gen.tsize(c["tree"]) < 2:
        return None
    if c["filt"] is not None or c["stop"] or c["ml"] is not None or c["nattr"] or c["eattr"] or c["etype"]:
        return json.dumps([c["kind"], c["tree"], c["filt"], c["stop"], c["ml"], c["names"], c["nattr"], c["eattr"], c["etype"],
                           c["options"], c["indent"]], sort_keys=True)
    return None


def describe(c, o):
    return {"case": c, "observed": o}


def size(c):
    return gen.tsize(c["tree"]) * 100 + len(c["filt"] or []) + len(c["stop"] or []) + (0 if c["ml"] is None else 1) \
        + len(json.dumps([c["nattr"], c["eattr"], c["etype"], c["options"]]))


def finding_class(c, o):
    """KF-C12-1: DOT edge to a child that satisfies stop (and filter_) under a declared parent"""
    if c["kind"] in ("dot", "legacy", "unique") and c["stop"]:
        return "KF-C12-1"
    return None


def violation_key(c, o):
    return c["kind"]
