"""C10 / C11 - dictionary and JSON export/import: correspondence cases."""
import json

from lib import coqlit as L
from lib import gen

PROP = "C10"
CORR = "C10"
HEADER = "Require Import AT.Model.Base AT.Model.DictIO AT.Corr.C10."
CASE_TYPE = "case10"
DRIVER = "corr_C10"
WIDTH = 2
SHARD = 400
FILES = ["anytree/exporter/dictexporter.py", "anytree/importer/dictimporter.py"]
ASSUMPTIONS = ["attribute values are opaque tokens (exporter and importer only copy them); a pool of ints, floats, "
               "strings, None, booleans, nested lists and dicts is used",
               "node classes with an instance __dict__ (AnyNode, Node, a user NodeMixin class)"]
KEYS = ["k0", "k1", "z", "a b", "päö", "id", "size", "depth", "root", "_id", "_", "_links", "__x"]
NPOOL = 20
JSON_SAFE = [0, 1, 2, 3, 4, 5, 6, 7, 8, 9, 10, 11, 12, 13, 14, 15, 16, 17, 18, 19]
AI = {"identity": "AIdentity", "sort": "ASort", "dropk0": "ADropK0", "last": "ALast"}
CI = {"list": "CListK", "reversed": "CReversed", "droplast": "CDropLast"}
NC = {"any": "NAny", "user": "NAny", "node": "NNode"}


def attr_tree(rng, shape, need_name, pool):
    def go(kids):
        attrs = []
        for k in rng.sample(KEYS, rng.randint(0, 3)):
            attrs.append([k, rng.choice(pool)])
        if need_name:
            attrs.insert(rng.randint(0, len(attrs)), ["name", rng.choice([4, 5, 15, 0])])
        return [attrs, [go(k) for k in kids]]
    return go(shape)


def iheight(t):
    return max([1 + iheight(c) for c in t[1]], default=0)


def rand_dict(rng, shape, need_name, pool):
    def go(kids):
        items = [[k, rng.choice(pool)] for k in rng.sample(KEYS, rng.randint(0, 3))]
        if need_name:
            items.insert(rng.randint(0, len(items)), ["name", rng.choice([4, 5, 15])])
        if kids:
            return [items, [go(k) for k in kids]]
        return [items, rng.choice([None, None, []])]
    return go(shape)


def gen_for(tier, seed, salt, use_json):
    rng = gen.rng_for(seed, salt)
    full = 5 if tier == "quick" else 6
    pool = list(range(NPOOL))
    cases = []
    for n in range(1, full + 1):
        for shape in gen.shapes(n):
            for rep in range(2 if tier == "quick" else 4):
                cls = rng.choice(["any", "node", "user"])
                icls = rng.choice(["any", "node"]) if cls == "node" else rng.choice(["any", "user"])
                t = attr_tree(rng, shape, "node" in (cls, icls), pool)
                h = iheight(t)
                for ml in [None] + list(range(0, h + 3)):
                    c = {"mode": "tree", "tree": t, "cls": cls, "icls": icls, "ml": ml, "jml": None, "embed": len(cases) % 3 == 1,
                         "aiter": rng.choice(["identity", "identity", "sort", "dropk0", "last"]),
                         "citer": rng.choice(["list", "list", "reversed", "droplast"]),
                         "lazy": rng.random() < 0.4,       # childiter returns an iterator, not a list
                         "ordered": rng.random() < 0.5}
                    if use_json:
                        c["json"] = {"custom": rng.random() < 0.5,
                                     "kwargs": rng.choice([{}, {"indent": 2, "sort_keys": True}, {"ensure_ascii": False},
                                                           {"separators": [",", ":"]}, {"indent": None},
                                                           {"indent": None, "sort_keys": True}])}
                        c["jml"] = rng.choice([None, None, 0, 1, 2, h + 1])
                        if not c["json"]["custom"]:
                            c["ml"] = None
                            c["aiter"], c["citer"] = "identity", "list"
                    cases.append(c)
                if not use_json:
                    d = rand_dict(rng, shape, icls == "node", pool)
                    cases.append({"mode": "dict", "dict": d, "cls": cls, "icls": icls, "ordered": rng.random() < 0.5})
    nexh = len(cases)
    for _ in range(300 if tier == "quick" else 3000):
        shape = gen.random_shape(rng, rng.randint(full + 1, 12))
        cls = rng.choice(["any", "node", "user"])
        icls = rng.choice(["any", "node"]) if cls == "node" else rng.choice(["any", "user"])
        t = attr_tree(rng, shape, "node" in (cls, icls), pool)
        c = {"mode": "tree", "tree": t, "cls": cls, "icls": icls, "ml": rng.choice([None, None, 1, 2, 3]), "jml": None,
             "aiter": rng.choice(["identity", "sort", "dropk0", "last"]), "citer": rng.choice(["list", "reversed", "droplast"]),
             "lazy": rng.random() < 0.4, "ordered": rng.random() < 0.5}
        if use_json:
            c["json"] = {"custom": True, "kwargs": rng.choice([{}, {"indent": 1}, {"ensure_ascii": False}])}
            c["jml"] = rng.choice([None, 1, 2])
        cases.append(c)
    dist = {"shape_cases": nexh, "random_cases": len(cases) - nexh, "by_mode": {}, "by_class": {}}
    for c in cases:
        dist["by_mode"][c["mode"]] = dist["by_mode"].get(c["mode"], 0) + 1
        dist["by_class"][c["cls"] + ">" + c["icls"]] = dist["by_class"].get(c["cls"] + ">" + c["icls"], 0) + 1
    meta = {"rule": "every ordered tree shape with <= %d nodes x random attribute dictionaries (0-3 keys from a pool with "
                    "non-ASCII and spaces, values from a pool of ints/big ints/floats/strings with control characters/None/"
                    "booleans/nested lists and dicts) x every maxlevel in {None,0..h+2} x attriter in {None, sort, drop-key} "
                    "x childiter in {list, reversed, drop-last} x dictcls in {dict, OrderedDict} x node classes {AnyNode, "
                    "Node, user NodeMixin}; export, import(export), export(import(export)); arbitrary dictionaries with and "
                    "without empty 'children' lists; the harness deep-copies arguments to check they are not modified%s. "
                    "non-trivial = >= 2 nodes" % (full, "; JSON: option sets, custom/default dictexporter, write/read "
                                                  "through StringIO and a real file" if use_json else ""),
            "exhaustive": False, "distribution": dist}
    return cases, meta


def gen_cases(tier, seed):
    return gen_for(tier, seed, PROP, False)


def items_lit(items):
    return L.lst(["(%s, %s)" % (L.string(k), L.z(v)) for k, v in items])


def itree_lit(t):
    return "(I %s %s)" % (items_lit(t[0]), L.lst([itree_lit(c) for c in t[1]]))


def dtree_lit(d):
    return "(D %s %s)" % (items_lit(d[0]), "None" if d[1] is None else "(Some %s)" % L.lst([dtree_lit(c) for c in d[1]]))


def literal(c, o):
    ok = isinstance(o, dict) and "py_ok" in o
    if c["mode"] == "tree":
        if ok:
            return "(CaseT %s %s %s %s %s %s %s (Some (%s, %s, %s)) %s)" % (
                itree_lit(o["stores"]), AI[c["aiter"]], CI[c["citer"]], L.oz(c["ml"]), L.oz(c["jml"]), NC[c["icls"]],
                L.boolean(bool(c.get("json"))),
                dtree_lit(o["d"]), itree_lit(strip_book(o["t2"])), dtree_lit(o["d3"]), L.boolean(o["py_ok"]))
        return "(CaseT (I [] []) AIdentity CListK None None NAny false None false)"
    if ok:
        return "(CaseD %s %s (Some (%s, %s)) %s)" % (dtree_lit(c["dict"]), NC[c["icls"]], itree_lit(strip_book(o["t"])),
                                                     dtree_lit(o["d2"]), L.boolean(o["py_ok"]))
    return "(CaseD %s NAny None false)" % dtree_lit(c["dict"])


def strip_book(t):
    return [[kv for kv in t[0] if not kv[0].startswith("_NodeMixin__")], [strip_book(c) for c in t[1]]]


def nontrivial_key(c, o):
    if c["mode"] == "tree" and c["tree"][1]:
        return json.dumps(c, sort_keys=True)
    if c["mode"] == "dict" and c["dict"][1]:
        return json.dumps(c, sort_keys=True)
    return None


def describe(c, o):
    return {"case": c, "observed": o}


def size(c):
    return len(json.dumps(c))
