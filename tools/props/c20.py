"""C20 - a symlink node has its own tree position and forwards the rest to its target."""
import json

from lib import coqlit as L
from lib import gen

PROP = "C20"
CORR = "C20"
HEADER = "Require Import AT.Model.Base AT.Model.Symlink AT.Corr.C20."
CASE_TYPE = "case20"
DRIVER = "corr_C20"
WIDTH = 2
SHARD = 400
FILES = ["anytree/node/symlinknodemixin.py", "anytree/node/symlinknode.py", "anytree/node/nodemixin.py"]
ASSUMPTIONS = ["Python's attribute lookup order (instance dictionary and class attributes before __getattr__) is CPython's; "
               "'every other attribute' = data attributes, i.e. names no node class defines",
               "links are created after their targets (no self-targeting link)"]
NAMES = ["foo", "bar", "k", "name", "x_1", "__tag__", "_private", "kind", "ro"]


def gen_cases(tier, seed):
    rng = gen.rng_for(seed, PROP)
    cases = []

    def value(lo, hi):
        # tokens 1..7 are Python values that are equal to each other / falsy / None (see impl_c20.SPECIAL)
        return rng.randint(1, 7) if rng.random() < 0.4 else rng.randint(lo, hi)
    n = 1500 if tier == "quick" else 15000
    for i in range(n):
        ops = []
        nobj = 0
        kinds = []
        for _ in range(rng.randint(3, 14 if tier == "quick" else 30)):
            r = rng.random()
            if nobj == 0 or r < 0.12:
                kwp = [[k, value(8, 9)] for k in rng.sample(NAMES, rng.randint(0, 2)) if k != "ro"]
                ops.append(["newplain", kwp] + (["ro"] if rng.random() < 0.25 else []))
                kinds.append("plain")
                nobj += 1
            elif r < 0.32:
                t = rng.randrange(nobj)
                kw = [[k, value(10, 19)] for k in rng.sample(NAMES, rng.randint(0, 2)) if k != "ro"]
                if kw and rng.random() < 0.3:
                    kw[0][1] = 4          # None as a constructor keyword value
                ops.append(["newlink", t, kw, rng.choice(["node", "mixin", "slot", "kind"])])
                if kw:
                    ops.append(["get", rng.randrange(nobj + 1), kw[0][0]])
                kinds.append("link")
                nobj += 1
            elif r < 0.55:
                x = rng.randrange(nobj)
                k = rng.choice(NAMES)
                if rng.random() < 0.3:
                    # two writes of values that compare equal but are different objects (1, True, 1.0 / 0, False)
                    a, b = rng.choice([(1, 2), (2, 3), (3, 1), (5, 6), (6, 5), (2, 1)])
                    ops.append(["set", rng.randrange(nobj), k, a])
                    ops.append(["set", x, k, b])
                else:
                    ops.append(["set", x, k, value(20, 99)])
                ops.append(["get", x, k])
                # ... and through every other object: a link to it, or its target
                ops.append(["get", rng.randrange(nobj), k])
            elif r < 0.8:
                ops.append(["get", rng.randrange(nobj), rng.choice(NAMES + ["nosuch"])])
            elif r < 0.92:
                ops.append(["move", rng.randrange(nobj), rng.choice([None] + list(range(nobj)))])
            else:
                ops.append(["setchildren", rng.randrange(nobj), rng.sample(range(nobj), rng.randint(0, min(3, nobj)))])
        cases.append({"ops": ops})
    dist = {"cases": n, "ops": sum(len(c["ops"]) for c in cases),
            "link_to_link": sum(1 for c in cases if _has_link_to_link(c)),
            "structural_ops": sum(1 for c in cases for o in c["ops"] if o[0] in ("move", "setchildren"))}
    meta = {"rule": "%d random interleavings of: create plain node / SymlinkNode / SymlinkNodeMixin subclass (links to "
                    "links included) with constructor keyword attributes, write through any object followed by reads "
                    "through it and through another object, reads of present and absent names, structural moves and "
                    "children assignments of links and targets (same and different trees). The attribute trace is compared "
                    "with the model and with the final-target specification; the harness checks that structural calls "
                    "leave all other nodes' positions and all attribute dictionaries unchanged. non-trivial = a link is "
                    "read or written" % n,
            "exhaustive": False, "distribution": dist}
    return cases, meta


def _has_link_to_link(c):
    kinds = []
    for o in c["ops"]:
        if o[0] == "newplain":
            kinds.append("p")
        elif o[0] == "newlink":
            if kinds[o[1]] == "l":
                return True
            kinds.append("l")
    return False


def kw_lit(kw):
    return L.lst(["(%s, %s)" % (L.string(k), L.z(v)) for k, v in kw])


def op_lit(o):
    k = o[0]
    if k == "get":
        return "(AGet %s %s)" % (L.nat(o[1]), L.string(o[2]))
    if k == "set":
        return "(ASet %s %s %s)" % (L.nat(o[1]), L.string(o[2]), L.z(o[3]))
    if k == "newlink":
        return "(ANewLink %s %s)" % (L.nat(o[1]), kw_lit(o[2]))
    if k == "newplain":
        return "(ANewPlain %s)" % kw_lit(o[1])
    return None


def out_lit(x):
    if x[0] == "val":
        return "(OVal %s)" % L.z(x[1]) if isinstance(x[1], int) else "(OErr OtherError)"
    if x[0] == "done":
        return "ODone"
    return "(OErr %s)" % ("AttributeError" if x[1] == "AttributeError" else "RecursionError")


def cls_lit(c):
    """class-level attributes of every created object, in creation order"""
    out = []
    for o in c["ops"]:
        if o[0] == "newplain":
            out.append(kw_lit([["ro", 72]]) if (len(o) > 2 and o[2] == "ro") else "[]")
        elif o[0] == "newlink":
            out.append(kw_lit([["kind", 71]]) if o[3] == "kind" else "[]")
    return L.lst(out)


def literal(c, o):
    ops = [op_lit(x) for x in c["ops"]]
    ops = [x for x in ops if x is not None]
    if isinstance(o, dict) and "outs" in o:
        return "(%s, %s, %s, %s)" % (L.lst(ops), cls_lit(c), L.lst([out_lit(x) for x in o["outs"]]), L.boolean(o["struct_ok"]))
    return "(%s, %s, [], false)" % (L.lst(ops), cls_lit(c))


def nontrivial_key(c, o):
    if any(x[0] == "newlink" for x in c["ops"]):
        return json.dumps(c["ops"])
    return None


def describe(c, o):
    return {"case": c, "observed": o}


def size(c):
    return len(c["ops"])


def shrink(c):
    """smaller interleavings: drop one operation that creates no object (indices of objects stay valid),
    or cut the tail"""
    ops = c["ops"]
    for i in range(len(ops) - 1, -1, -1):
        if ops[i][0] not in ("newplain", "newlink"):
            yield {"ops": ops[:i] + ops[i + 1:]}
    for cut in range(len(ops) - 1, 0, -1):
        yield {"ops": ops[:cut]}
