"""C19 - pickle and deepcopy yield an independent, consistent, isomorphic tree."""
import json
import zlib

from lib import coqlit as L
from lib import gen

PROP = "C19"
CORR = "C19"
HEADER = "Require Import AT.Model.Base AT.Corr.C19."
CASE_TYPE = "case19"
DRIVER = "corr_C19"
WIDTH = 2
SHARD = 300
FILES = ["anytree/node/nodemixin.py", "anytree/node/lightnodemixin.py", "anytree/node/symlinknodemixin.py",
         "anytree/node/symlinknode.py"]
ASSUMPTIONS = ["pickle and copy.deepcopy are CPython's: their contract (an isomorphic copy of the reachable object graph) is "
               "evaluated on every explored copy, not proved; __reduce_ex__/__setstate__ mechanics and recursion limits on "
               "deep trees are outside the model"]


def gen_cases(tier, seed):
    rng = gen.rng_for(seed, PROP)
    full = 4 if tier == "quick" else 6
    cases = []
    hows = ["deepcopy", 0, 1, 2, 3, 4, 5]
    for t in gen.trees_upto(full):
        labs = gen.labels(t)
        for rep in range(2):
            # the shape's nodes in pre-order with their parents; classes mixed; links to same-tree and other-tree nodes
            parents = {}
            def go(node, par):
                parents[node[0]] = par
                for c in node[1]:
                    go(c, node[0])
            go(t, None)
            light = rng.random() < 0.2
            nodes = []
            for x in labs:
                if light:
                    nodes.append([rng.choice(["light", "lights"]), parents[x], rng.randint(0, 9)])
                else:
                    nodes.append([rng.choice(["any", "node", "umix"]), parents[x], rng.randint(0, 9)])
            if not light:
                # a second small tree, and symlinks: to a node of the same tree, of the other tree, and to a link
                base = len(nodes)
                nodes.append(["any", None, 5])
                nodes.append(["node", base, 6])
                k = len(nodes)
                nodes.append(["link", rng.choice(labs), rng.randrange(k)])
                nodes.append(["link", rng.choice(labs), len(nodes) - 1])
                nodes.append(["link", base, rng.choice(labs)])
            for entry in range(len(nodes)):
                for how in hows:
                    if light and how in (0, 1):
                        continue        # pickle protocols 0/1 cannot handle __slots__ classes (Python's restriction)
                    if tier == "quick" and rng.random() < 0.5:
                        continue
                    cases.append({"nodes": nodes, "entry": entry, "how": how})
    meta = {"rule": "every ordered tree shape with <= %d nodes, nodes of mixed classes (AnyNode, Node, user NodeMixin) plus a "
                    "second tree and SymlinkNodes (to the same tree, to the other tree, to a link), or all LightNodeMixin "
                    "(__slots__); every node as the entry point; copy.deepcopy and pickle protocols 0-5 (2-5 for __slots__); "
                    "the copy's object graph is read back, matched with the original in lock step and verified in Coq: "
                    "reachable set, bijective renaming, shape/order/classes/attributes/targets, consistency; copy and "
                    "original are mutated in turn. non-trivial = >= 2 nodes" % full,
            "exhaustive": False, "distribution": {"cases": len(cases)}}
    return cases, meta


def cells_lit(cells):
    return L.lst(["(%s, %s, %s, %s, %s)" % (L.opt(p, L.nat), L.nats(cs), L.opt(t, L.nat), L.nat(tag),
                                           L.lst(["(%s, %s)" % (L.string(str(k)), L.z(v if isinstance(v, int) else zlib.crc32(str(v).encode()) % 100000))
                                                  for k, v in attrs]))
                  for p, cs, t, tag, attrs in cells])


def literal(c, o):
    if isinstance(o, dict) and "orig" in o:
        return "(%s, %s, %s, %s, %s, %s)" % (cells_lit(o["orig"]), L.nat(c["entry"]), cells_lit(o["copy"]), L.nat(o["entry2"]),
                                              L.lst(["(%s, %s)" % (L.nat(a), L.nat(b)) for a, b in o["ren"]]), L.boolean(o["py_ok"]))
    return "([], 0%nat, [], 0%nat, [], false)"


def nontrivial_key(c, o):
    if len(c["nodes"]) >= 2:
        return json.dumps(c)
    return None


def describe(c, o):
    return {"case": c, "observed": o}


def size(c):
    return len(c["nodes"])
