"""C04 - navigation attributes and sibling/ancestor helpers equal their definitions."""
import json

from lib import coqlit as L
from lib import gen

PROP = "C04"
HEADER = "Require Import AT.Model.Base AT.Model.Rose AT.Corr.C04."
CASE_TYPE = "case04"
DRIVER = "corr_C04"
WIDTH = 2
SHARD = 1000
FILES = ["anytree/node/nodemixin.py", "anytree/node/lightnodemixin.py", "anytree/util/__init__.py",
         "anytree/iterators/preorderiter.py", "anytree/iterators/abstractiter.py"]
ASSUMPTIONS = ["plain node classes (default __eq__/__bool__): the adversarial classes belong to C17",
               "a node is represented as (root tree, position); the bridge to the link heap is the C01 invariant"]


def gen_cases(tier, seed):
    rng = gen.rng_for(seed, PROP)
    full = 5 if tier == "quick" else 7
    cases = []
    k = 0
    for t in gen.trees_upto(full):
        poss = [p for p, _ in gen.subtrees(t)]
        for p in poss:
            k += 1
            # commonancestors: none, the node alone, with one and with two other nodes
            sets = [[], [p]]
            for q in poss:
                sets.append([p, q])
            if len(poss) <= 5:
                for q in poss:
                    for r in poss:
                        sets.append([p, q, r])
            else:
                for _ in range(4):
                    sets.append([p, rng.choice(poss), rng.choice(poss)])
            for cps in sets:
                k += 1
                cases.append({"tree": t, "pos": p, "cps": cps, "cls": ["any", "light", "mixin", "symmix"][k % 4],
                              "how": "direct" if k % 4 else "history", "seed": k})
    nexh = len(cases)
    nrand = 1500 if tier == "quick" else 15000
    for i in range(nrand):
        t = gen.random_tree(rng, rng.randint(full + 1, 12 if tier == "quick" else 25))
        poss = [p for p, _ in gen.subtrees(t)]
        p = rng.choice(poss)
        cps = [rng.choice(poss) for _ in range(rng.randint(0, 4))]
        cases.append({"tree": t, "pos": p, "cps": cps, "cls": rng.choice(["any", "light", "mixin", "symmix"]),
                      "how": rng.choice(["direct", "history"]), "seed": i})
    dist = {"exhaustive_cases": nexh, "random_cases": nrand, "via_mutation_history": sum(1 for c in cases if c["how"] == "history"),
            "by_class": {}}
    for c in cases:
        dist["by_class"][c["cls"]] = dist["by_class"].get(c["cls"], 0) + 1
    gen.sprinkle_adv(cases)
    meta = {"rule": "every ordered tree shape with <= %d nodes x every node x commonancestors argument lists (none, the "
                    "node, every pair, every triple on small shapes); a quarter of the trees is reached through a "
                    "mutation history (wrong attachments, moves, children reassignments) before the attributes are read; "
                    "AnyNode / NodeMixin / LightNodeMixin classes rotate; then %d random larger trees. "
                    "non-trivial = tree with >= 3 nodes; distinct by (tree, node, arguments)" % (full, nrand),
            "exhaustive": True, "distribution": dist}
    return cases, meta


def literal(c, o):
    if not isinstance(o, dict) or "path" not in o:
        obs = "None"
    else:
        obs = "(Some (%s))" % ", ".join([
            L.nats(o["path"]), L.nats(o["ancestors"]), L.nat(o["root"]), L.nat(o["depth"]), L.boolean(o["is_root"]),
            L.boolean(o["is_leaf"]), L.nats(o["siblings"]), L.nats(o["descendants"]), L.nats(o["leaves"]),
            L.nat(o["size"]), L.nat(o["height"]), L.nats(o["common"]), L.opt(o["left"], L.nat), L.opt(o["right"], L.nat)])
    return L.tup(L.tree(c["tree"]), L.nats(c["pos"]), L.lst([L.nats(p) for p in c["cps"]]), obs)


def nontrivial_key(c, o):
    if gen.tsize(c["tree"]) < 3:
        return None
    return json.dumps([c["tree"], c["pos"], c["cps"]])


def describe(c, o):
    return {"case": c, "observed": o}


def size(c):
    return gen.tsize(c["tree"]) * 100 + len(c["cps"])
