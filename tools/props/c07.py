"""C07 - Resolver.get: correspondence cases (also the generator core for C08)."""
import itertools
import json

from lib import coqlit as L
from lib import gen

PROP = "C07"
CORR = "C07"
HEADER = "Require Import AT.Model.Base AT.Model.Rose AT.Corr.C07."
CASE_TYPE = "case07rt"
DRIVER = "corr_C07"
WIDTH = 3
SHARD = 800
FILES = ["anytree/resolver.py", "anytree/walker.py", "anytree/node/nodemixin.py"]
ASSUMPTIONS = ["names are ASCII when ignorecase is set (str.upper and the model's upper-casing agree on ASCII)",
               "str(getattr(node, pathattr, None)) is computed by Python and shipped per node"]
NAMES = ["a", "A", "b", "a.b", "a+", "[x", "x/y", "..", ".", "", "a::b", "B", "zz", "a*", "(", "\\", "$", "^a", "n\nl", "None", "a:", ":a"]
SEPS = ["/", ".", "::"]
ERR = {"RootResolverError": "RootResolverError", "ChildResolverError": "ChildResolverError",
       "ResolverError": "ResolverError", "AttributeError": "AttributeError"}


def obs_lit(o):
    if not isinstance(o, dict):
        return "(RErr OtherError)"
    if "node" in o:
        return "(RNode %s)" % L.nat(o["node"])
    if "none" in o:
        return "RNone"
    if "list" in o:
        return "(RList %s)" % L.nats(o["list"])
    if "err" in o:
        return "(RErr %s)" % ERR.get(o["err"][0], "OtherError")
    return "(RErr OtherError)"


def literal(c, o):
    names = (o or {}).get("names") if isinstance(o, dict) else None
    if names is None:
        names = {str(x): "?" for x in gen.labels(c["tree"])}
    nm = L.lst(["(%s, %s)" % (L.nat(int(k)), L.string(v)) for k, v in sorted(names.items(), key=lambda kv: int(kv[0]))])
    path = o.get("path", c["path"]) if isinstance(o, dict) else c["path"]
    base = L.tup(L.boolean(c["glob"]), L.tree(c["tree"]), nm, L.nats(c["pos"]), L.string(path), L.string(c["sep"]),
                 L.boolean(c["ic"]), L.boolean(c["relax"]), obs_lit(o))
    if "rt" in c and isinstance(o, dict) and "target" in o:
        rt = "(Some (%s, %s, %s))" % (L.nat(o["target"]), L.boolean(c["rt"]["kind"] == "abs"),
                                      L.lst(["(%s, %s)" % (L.boolean(a), L.string(b)) for a, b in o["comps"]]))
    else:
        rt = "None"
    return "(%s, %s)" % (base, rt)


def name_assignments(rng, t, unique, ic, count):
    labs = gen.labels(t)
    out = []
    for _ in range(count):
        names = {}
        def assign(node):
            used = set()
            for c in node[1]:
                for _try in range(50):
                    nm = rng.choice(NAMES)
                    key = nm.upper() if ic else nm
                    if not unique or key not in used:
                        used.add(key)
                        break
                names[str(c[0])] = nm
                assign(c)
        names[str(t[0])] = rng.choice(NAMES)
        assign(t)
        out.append(names)
    return out


def gen_get_cases(tier, seed, glob, comps_extra, salt):
    rng = gen.rng_for(seed, salt)
    full = 4 if tier == "quick" else 5
    cases = []
    per_tree = 2 if tier == "quick" else 4
    for t in gen.trees_upto(full):
        poss = [p for p, _ in gen.subtrees(t)]
        for names in name_assignments(rng, t, unique=not glob or rng.random() < 0.5, ic=False, count=per_tree):
            present = sorted(set(names.values()))
            alphabet = present[:4] + ["nosuch", "..", ".", ""] + comps_extra
            paths = []
            for ln in (1, 2):
                for comps in itertools.product(alphabet, repeat=ln):
                    paths.append(list(comps))
            l3 = list(itertools.product(alphabet, repeat=3))
            paths += [list(x) for x in rng.sample(l3, min(len(l3), 60 if tier == "quick" else 400))]
            for comps in paths:
                sep = rng.choice(SEPS)
                for absolute in (False, True):
                    text = sep.join(comps)
                    if absolute:
                        text = sep + (rng.choice([names[str(t[0])], names[str(t[0])], "nosuch", ""]) + sep if rng.random() < 0.9 else "") + text
                    p = rng.choice(poss)
                    ic = rng.random() < 0.4
                    relax = rng.random() < 0.5
                    cases.append({"glob": glob, "tree": t, "names": names, "pos": p, "path": text, "sep": sep,
                                  "ic": ic and all(ord(ch) < 128 for v in names.values() for ch in v), "relax": relax,
                                  "attr": rng.choice(["name", "name", "key", "missing"])})
    gen.sprinkle_adv(cases)
    return cases, rng


def gen_cases(tier, seed):
    cases, rng = gen_get_cases(tier, seed, False, [], PROP)
    nbase = len(cases)
    # round trips: every (m, n) pair, absolute and Walker-spelled relative paths, sibling-unique names
    full = 4 if tier == "quick" else 5
    rts = []
    for t in gen.trees_upto(full):
        poss = [p for p, _ in gen.subtrees(t)]
        for ic in (False, True):
            for names in name_assignments(rng, t, unique=True, ic=ic, count=3 if tier == "quick" else 6):
                for m in poss:
                    for n in poss:
                        for kind in ("abs", "rel"):
                            rts.append({"glob": False, "tree": t, "names": names, "pos": m, "path": "", "sep": rng.choice(SEPS),
                                        "ic": ic, "relax": rng.random() < 0.3, "attr": rng.choice(["name", "key"]),
                                        "rt": {"kind": kind, "target": n}})
    if tier == "quick" and len(rts) > 25000:
        rng.shuffle(rts)
        rts = rts[:25000]
    cases += rts
    dist = {"component_paths": nbase, "round_trips": len(rts), "relax": sum(1 for c in cases if c["relax"]),
            "ignorecase": sum(1 for c in cases if c["ic"]), "by_sep": {}}
    for c in cases:
        dist["by_sep"][c["sep"]] = dist["by_sep"].get(c["sep"], 0) + 1
    meta = {"rule": "every ordered tree shape with <= %d nodes x name assignments from a pool with regex/wildcard "
                    "characters, the other separators, '', '.', '..', case variants x every path of <= 2 components and "
                    "sampled 3-component paths over {names present, unknown, '..', '.', ''}, relative and absolute "
                    "(right / wrong / missing root component) x ignorecase x relax x separator in {/, ., ::} x pathattr in "
                    "{name, other attribute, missing attribute}; plus round trips for every node pair (absolute path and "
                    "Walker-spelled relative path) on sibling-unique names. non-trivial = path with >= 2 components"
                    % full,
            "exhaustive": False, "distribution": dist}
    return cases, meta


def nontrivial_key(c, o):
    if "rt" in c or c["path"].count(c["sep"]) >= 1:
        return json.dumps([c["tree"], c["names"], c["pos"], c["path"], c["sep"], c["ic"], c["relax"], c.get("rt")], sort_keys=True)
    return None


def describe(c, o):
    return {"case": c, "observed": o}


def size(c):
    return gen.tsize(c["tree"]) * 100 + len(c["path"]) + (50 if "rt" in c else 0)


def finding_class(c, o):
    if "rt" in c:
        return "KF-C07-2"
    return None


def violation_key(c, o):
    return ("rt" in c, c["relax"])
