"""C05 - unrestricted iterators: correspondence cases."""
import json

from lib import coqlit as L
from lib import gen
from props import c06

PROP = "C05"
CORR = "C06"
IMPL = "C05"
HEADER = c06.HEADER
CASE_TYPE = "case05"
DRIVER = "corr_C05"
WIDTH = 2
SHARD = 1000
FILES = c06.FILES
ASSUMPTIONS = c06.ASSUMPTIONS


def run_impl(cases):
    from lib import core
    return core.run_impl_split("C05", cases)


def gen_cases(tier, seed):
    rng = gen.rng_for(seed, "C05")
    full = 6 if tier == "quick" else 8
    cases = []
    for t in gen.trees_upto(full):
        # every start node = every subtree; standalone and embedded
        cases.append(c06.mk(t, embed=False))
        cases.append(c06.mk(t, embed=True))
    nexh = len(cases)
    nrand = 1500 if tier == "quick" else 10000
    maxr = 14 if tier == "quick" else 40
    for _ in range(nrand):
        t = gen.random_tree(rng, rng.randint(full + 1, maxr))
        cases.append(c06.mk(t, embed=rng.random() < 0.3))
    # deep trees (a chain and a comb of 700 levels): iteration must not depend on the recursion depth
    for deep in (gen.chain(700), gen.comb(700)):
        c = c06.mk(deep, embed=False)
        c["reclimit_default"] = True      # under the interpreter's default recursion limit
        c["adv"] = None
        cases.append(c)
    gen.sprinkle_adv(cases)
    dist = {"exhaustive_cases": nexh, "random_cases": nrand, "by_tree_size": {}}
    for c in cases:
        k = str(gen.tsize(c["tree"]))
        dist["by_tree_size"][k] = dist["by_tree_size"].get(k, 0) + 1
    meta = {"rule": "exhaustive: every ordered tree shape with <= %d nodes (= every start node of every shape), each "
                    "standalone and as an inner node of a larger tree; then %d random trees up to %d nodes. Each case "
                    "drains all five iterators with default arguments and checks the tree is unchanged. "
                    "non-trivial = height >= 1; distinct by shape and embedding" % (full, nrand, maxr),
            "exhaustive": True, "distribution": dist}
    return cases, meta


def literal(c, o):
    """the C06 literal plus the link map of the start node's subtree as read from the live objects"""
    from props import mutcommon as mc
    links = o.get("links") if isinstance(o, dict) else None
    return L.tup(c06.literal(c, o), "None" if links is None else "(Some %s)" % mc.heap_lit(links))


describe = c06.describe


def nontrivial_key(c, o):
    if gen.theight(c["tree"]) < 1:
        return None
    return json.dumps([c["tree"], c["embed"]])


def size(c):
    return gen.tsize(c["tree"])
