"""C16 - notification hooks fire exactly once and in order around each link change."""
import json
import zlib

from lib import gen
from props import mutcommon as mc

PROP = "C16"
CORR = "Reentry"
HEADER = mc.HEADER
CASE_TYPE = "case_mut"
DRIVER = "corr_C16"
WIDTH = 2
SHARD = 600
FILES = mc.FILES
ASSUMPTIONS = mc.ASSUMPTIONS + ["each logged invocation carries the complete link map the hook could observe"]


def run_impl(cases):
    return mc.run_impl(cases, PROP)


def gen_and_run(tier, seed):
    rng = gen.rng_for(seed, PROP)
    base = []
    classes = mc.CLASSES
    for kk in range(1, 4):
        b = mc.exhaustive(kk, classes, False, rng, asrt_every=5, log=True)
        if tier == "quick" and kk == 3:
            b = [c for i, c in enumerate(b) if i % 5 == (zlib.crc32(json.dumps(c["op"]).encode()) % 5) or c["cls"] == "mixin"]
        base += b
    if tier == "thorough":
        b4 = mc.exhaustive(4, ["mixin", "light"], False, rng, asrt_every=5, log=True, rich=False)
        rng.shuffle(b4)
        base += b4[:60000]
    # node classes with user-defined __bool__/__len__/__eq__ (a sixth of the fault-free cases)
    nb = len(base)
    # the kind is chosen by a running count: i % n under the selection stride reaches only some residues
    base += [dict(c, adv=gen.ADV_KINDS[k % len(gen.ADV_KINDS)])
             for k, c in enumerate([c for i, c in enumerate(base[:nb]) if i % 6 == 5])]
    obs0 = mc.run_impl(base, PROP)
    # single faults: parent assignments at every position (post hooks: no rollback); a sample for the others
    sp = [(c, o) for c, o in zip(base, obs0) if c["op"][0] == "set_parent"]
    other = [(c, o) for c, o in zip(base, obs0) if c["op"][0] != "set_parent"]
    rng.shuffle(other)
    other = other[:3000 if tier == "quick" else 20000]
    fc = mc.expand_faults([c for c, _ in sp + other], [o for _, o in sp + other], rng, persistent=False, doubles=0.0)
    fobs = mc.run_impl(fc, PROP)
    cases = base + fc
    obs = obs0 + fobs
    dist = {"fault_free": len(base), "single_fault": len(fc), "by_op": {}, "log_lengths": {}}
    for c, o in zip(cases, obs):
        dist["by_op"][c["op"][0]] = dist["by_op"].get(c["op"][0], 0) + 1
        if mc.obs_ok(o):
            k_ = str(min(o.get("nkinds", 0), 20))
            dist["log_lengths"][k_] = dist["log_lengths"].get(k_, 0) + 1
    meta = {"rule": "every labelled ordered forest on <= 3 nodes x every call x node classes with all eight hooks logging "
                    "(kind, node, argument, complete link map at the time of the call): the observed log of every "
                    "fault-free call is compared with the specified log (order, exactly-once, arguments, state "
                    "snapshots; refused and no-op calls: empty); every single fault position of every parent assignment "
                    "(post-hook faults: the preceding step stays done). non-trivial = at least one hook fired",
            "exhaustive": True, "distribution": dist}
    return cases, obs, meta


def literal(c, o):
    return mc.case_lit(c, o)


def families(tier, seed):
    """two correspondence drivers decide C16: the hook logs of the mutation core (hooks observe and may
    raise) and the re-entrant family (hooks of the moving node detach other nodes)"""
    import sys
    from props import c16r
    cases, obs, meta = gen_and_run(tier, seed)
    rc, ro, rmeta = c16r.gen_and_run(tier, seed)
    meta = dict(meta)
    meta["rule"] = meta["rule"] + " || " + rmeta["rule"]
    meta["distribution"] = {"main": meta["distribution"], "reentrant": rmeta["distribution"]}
    fams = [{"name": "main", "mod": sys.modules[__name__], "cases": cases, "obs": obs, "literal": literal},
            {"name": "reentrant", "mod": c16r, "cases": rc, "obs": ro, "literal": c16r.literal}]
    return fams, meta


def nontrivial_key(w, o):
    c = w["case"]
    if w["family"] == "reentrant":
        from props import c16r
        k = c16r.nontrivial_key(c, o)
        return None if k is None else "r" + k
    if not mc.obs_ok(o) or not o.get("nkinds"):
        return None
    return json.dumps([c["cls"], c["heap"], c["op"], c["faults"]])


def describe(w, o):
    return {"family": w["family"], "case": w["case"], "observed": o}


def size(w):
    return mc.size(w["case"]) + len(json.dumps(w["case"].get("acts", [])))


def violation_key(w, o):
    return w["family"] + ":" + w["case"]["op"][0]
