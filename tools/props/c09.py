"""C09 - RenderTree rows, text and node reprs."""
import json

from lib import coqlit as L
from lib import gen

PROP = "C09"
CORR = "C09"
HEADER = "Require Import AT.Model.Base AT.Model.Rose AT.Corr.C09."
CASE_TYPE = "case09all"
DRIVER = "corr_C09all"
WIDTH = 2
SHARD = 400
FILES = ["anytree/render.py", "anytree/node/node.py", "anytree/node/anynode.py", "anytree/node/util.py"]
ASSUMPTIONS = ["repr(), str() and str.splitlines() are CPython's: the lines of each node's text are shipped as Python split "
               "them; the Node repr is modelled for names whose repr is the plainly quoted text"]
STYLEK = {"ascii": "SAscii", "cont": "SCont", "contround": "SContRound", "double": "SDouble"}
CITERK = {"list": "C9List", "reversed": "C9Reversed", "dropfirst": "C9DropFirst", "droplast": "C9DropLast",
          "sortdesc": "C9SortDesc"}
VALS = ["", "one", "l1\nl2\nl3", [], ["a", "b"], {"tuple": ["x", "y", "z"]}, "trail\n", "\n", 7, None, {"tuple": []}]


def gen_cases(tier, seed):
    rng = gen.rng_for(seed, PROP)
    full = 5 if tier == "quick" else 7
    cases = []
    styles = ["ascii", "cont", "contround", "double", ["| ", "+-", "`-"], ["||| ", "|-- ", "`-- "]]
    for t in gen.trees_upto(full):
        labs = gen.labels(t)
        h = gen.theight(t)
        for ml in [None] + list(range(0, h + 2)):
            for citer in CITERK:
                vals = {str(x): rng.choice(VALS) for x in labs}
                cases.append({"mode": "rows", "tree": t, "style": rng.choice(styles), "citer": citer, "ml": ml, "vals": vals,
                              "selector": rng.choice(["attr", "callable", "str", "missing"]),
                              "style_as_class": rng.random() < 0.3, "embed": len(cases) % 3 == 0})
    nexh = len(cases)
    for _ in range(400 if tier == "quick" else 4000):
        t = gen.random_tree(rng, rng.randint(full + 1, 14))
        labs = gen.labels(t)
        cases.append({"mode": "rows", "tree": t, "style": rng.choice(styles), "citer": rng.choice(list(CITERK)),
                      "ml": rng.choice([None, None, 1, 2, 3, 4]), "vals": {str(x): rng.choice(VALS) for x in labs},
                      "selector": rng.choice(["attr", "callable", "str", "missing"]), "style_as_class": False})
    nrepr = 0
    for _ in range(300 if tier == "quick" else 2000):
        chain = []
        for _d in range(rng.randint(1, 4)):
            attrs = {k: rng.choice([1, "v", None, [1, 2], 2.5]) for k in rng.sample(["b", "a", "_hidden", "zz", "Capital", "x1", "x", "foo", "foo2"], rng.randint(0, 5))}
            chain.append([rng.choice(["n", "top", "sub0", "a b", "x1"]), sorted(attrs.items(), key=lambda kv: rng.random())])
        cases.append({"mode": "repr", "node": rng.random() < 0.6, "sep": rng.choice(["/", ".", "::"]), "chain": chain})
        nrepr += 1
    gen.sprinkle_adv(cases)
    meta = {"rule": "every ordered tree shape with <= %d nodes x every maxlevel in {None,0..h+1} x childiter in {list, "
                    "reversed, drop-first, drop-last, sort} x styles (4 built-in, 2 custom equal-width) x attribute values "
                    "(empty, one line, three lines, trailing newline, [], list, tuple, int, None) x selector (attribute "
                    "name, callable, str(), missing attribute); rows and the full text compared; %d repr cases (Node and "
                    "AnyNode subclasses, separators, public/hidden attributes). non-trivial = >= 2 rows"
                    % (full, nrepr),
            "exhaustive": False,
            "distribution": {"shape_cases": nexh, "random_cases": len(cases) - nexh - nrepr, "repr_cases": nrepr}}
    return cases, meta


def literal(c, o):
    if c["mode"] == "repr":
        if isinstance(o, dict) and "repr" in o:
            return "(inr (%s, %s, %s, %s, %s, %s))" % (
                L.boolean(c["node"]), L.string(o["classname"]), L.string(c["sep"]), L.lst([L.string(x) for x in o["names"]]),
                L.lst(["(%s, %s)" % (L.string(k), L.string(v)) for k, v in o["items"]]), L.string(o["repr"]))
        return "(inr (false, [], [], [], [], [63%N]))"
    st = c["style"]
    style = STYLEK[st] if isinstance(st, str) else "(SCustom %s %s %s)" % tuple(L.string(x) for x in st)
    if isinstance(o, dict) and "rows" in o:
        lines = L.lst(["(%s, %s)" % (L.nat(int(k)), L.lst([L.string(x) for x in v])) for k, v in sorted(o["lines"].items(), key=lambda kv: int(kv[0]))])
        obs = "(Some (%s, %s))" % (L.lst(["(%s, %s, %s)" % (L.string(p), L.string(f), L.nat(n)) for p, f, n in o["rows"]]),
                                   L.string(o["text"]))
    else:
        lines, obs = "[]", "None"
    return "(inl (%s, %s, %s, %s, %s, %s))" % (L.tree(c["tree"]), style, CITERK[c["citer"]], L.oz(c["ml"]), lines, obs)


def nontrivial_key(c, o):
    if c["mode"] == "rows" and isinstance(o, dict) and len(o.get("rows", [])) >= 2:
        return json.dumps([c["tree"], c["style"], c["citer"], c["ml"], c["vals"], c["selector"]], sort_keys=True)
    if c["mode"] == "repr":
        return json.dumps(c, sort_keys=True)
    return None


def describe(c, o):
    return {"case": c, "observed": o}


def size(c):
    return len(json.dumps(c))
