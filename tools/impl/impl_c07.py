from anytree import AnyNode, NodeMixin, Resolver, Walker
from anytree.resolver import ChildResolverError, ResolverError, RootResolverError

_CLS = {}


def cls_for(sep):
    import implutil
    key = (sep, implutil.ADV, implutil.BASE)
    if key not in _CLS:
        _CLS[key] = type("SepNode", (implutil.adv(AnyNode),), {"separator": sep})
    return _CLS[key]


def build(t, names, cls, attr, parent=None, nodes=None, pos=()):
    lbl, cs = t
    kw = {"lbl": lbl}
    if attr != "missing":
        kw[attr] = names[str(lbl)]
    n = cls(parent=parent, **kw)
    nodes[pos] = n
    for i, c in enumerate(cs):
        build(c, names, cls, attr, n, nodes, pos + (i,))
    return n


def classify(e):
    if isinstance(e, RootResolverError):
        return ["RootResolverError"]
    if isinstance(e, ChildResolverError):
        return ["ChildResolverError"]
    if isinstance(e, ResolverError):
        return ["ResolverError"]
    if isinstance(e, AttributeError):
        return ["AttributeError"]
    return ["Other", type(e).__name__]


def run_case(c):
    nodes = {}
    attr = c.get("attr", "name")
    build(c["tree"], c["names"], cls_for(c["sep"]), attr, nodes=nodes)
    start = nodes[tuple(c["pos"])]
    r = Resolver(pathattr="name" if attr == "missing" else attr, ignorecase=c["ic"], relax=c["relax"])
    # what the resolver compares: str(getattr(node, pathattr, None))
    shipped = {str(n.lbl): str(getattr(n, "name" if attr == "missing" else attr, None)) for n in nodes.values()}
    path = c["path"]
    extra = {}
    if "rt" in c:
        # spell the path of the target node from the real tree: absolute, or relative from Walker.walk
        target = nodes[tuple(c["rt"]["target"])]
        pa = "name" if attr == "missing" else attr
        if c["rt"]["kind"] == "abs":
            comps = [[True, str(getattr(x, pa, None))] for x in target.path]
            path = c["sep"] + c["sep"].join(s for _, s in comps)
        else:
            up, common, down = Walker().walk(start, target)
            comps = [[False, ".."] for _ in up] + [[True, str(getattr(x, pa, None))] for x in down]
            path = c["sep"].join(s for _, s in comps)
        extra = {"path": path, "comps": comps, "target": target.lbl}
    try:
        if c["glob"]:
            res = r.glob(start, path)
            out = {"list": [n.lbl for n in res]}
        else:
            res = r.get(start, path)
            out = {"none": True} if res is None else {"node": res.lbl}
    except Exception as e:  # noqa
        out = {"err": classify(e)}
    out["names"] = shipped
    out.update(extra)
    return out
