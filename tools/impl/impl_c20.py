from anytree import AnyNode, NodeMixin, SymlinkNode, SymlinkNodeMixin
from anytree.node.exceptions import LoopError, TreeError


class MyLink(SymlinkNodeMixin):
    def __init__(self, target, parent=None, children=None, **kwargs):
        self.target = target
        for k, v in kwargs.items():
            setattr(self.target, k, v)
        self.parent = parent
        if children:
            self.children = children


# value tokens: the model treats attribute values as opaque tokens; a few tokens stand for Python values
# that compare equal to each other (or are falsy / None) while being different objects of different types
SPECIAL = {1: 1, 2: True, 3: 1.0, 4: None, 5: 0, 6: False, 7: ""}


def val(t):
    return SPECIAL.get(t, t)


def tok(v):
    for t, x in SPECIAL.items():
        if type(x) is type(v) and x == v:
            return t
    return v if type(v) is int else -1


class SlotLink(SymlinkNodeMixin):
    """a link class whose `target` lives in a slot, not in the instance dictionary"""
    __slots__ = ("target",)

    def __init__(self, target, parent=None, children=None, **kwargs):
        self.target = target
        for k, v in kwargs.items():
            setattr(self.target, k, v)
        self.parent = parent
        if children:
            self.children = children


class KindLink(SymlinkNode):
    """a link class that defines an attribute itself (found by normal lookup, before anything is forwarded)"""
    kind = 71


class ROTarget(AnyNode):
    """an ordinary node class with a read-only property: assignment raises AttributeError, also through a link"""

    @property
    def ro(self):
        return 72


LINKCLS = {"node": SymlinkNode, "mixin": MyLink, "slot": SlotLink, "kind": KindLink}


def links_of(o):
    return (o.parent, tuple(o.children))


def run_case(c):
    objs = []
    outs = []
    struct_ok = True
    why = []
    for op in c["ops"]:
        k = op[0]
        try:
            if k == "get":
                outs.append(["val", tok(getattr(objs[op[1]], op[2]))])
            elif k == "set":
                setattr(objs[op[1]], op[2], val(op[3]))
                outs.append(["done"])
            elif k == "newlink":
                cls = LINKCLS[op[3]]
                objs.append(cls(objs[op[1]], **{kk: val(vv) for kk, vv in op[2]}))
                outs.append(["done"])
            elif k == "newplain":
                pcls = ROTarget if (len(op) > 2 and op[2] == "ro") else AnyNode
                objs.append(pcls(**{kk: val(vv) for kk, vv in op[1]}))
                outs.append(["done"])
            elif k == "move":
                a, b = objs[op[1]], (None if op[2] is None else objs[op[2]])
                before = [links_of(o) for o in objs]
                dicts = [dict(o.__dict__) for o in objs]
                # a move is refused exactly when the new parent is the node itself or one of its descendants -
                # where the targets of links sit plays no role
                x, loops = b, False
                while x is not None:
                    if x is a:
                        loops = True
                    x = x.parent
                try:
                    a.parent = b
                    if loops:
                        struct_ok = False
                        why.append("moving %d below itself was accepted" % op[1])
                    elif a.parent is not b:
                        struct_ok = False
                        why.append("after moving %d its parent is not the requested one" % op[1])
                except (LoopError, TreeError):
                    if not loops:
                        struct_ok = False
                        why.append("a legal move of %d was refused" % op[1])
                after = [links_of(o) for o in objs]
                for i, o in enumerate(objs):
                    # only the moved node, its old and its new parent may see their links change
                    if o is a or o is before[op[1]][0] or o is b:
                        continue
                    if before[i] != after[i]:
                        struct_ok = False
                        why.append("moving %d changed the position of %d" % (op[1], i))
                for i, o in enumerate(objs):
                    d = {kk: vv for kk, vv in o.__dict__.items() if not kk.startswith("_NodeMixin__")}
                    d0 = {kk: vv for kk, vv in dicts[i].items() if not kk.startswith("_NodeMixin__")}
                    if d != d0:
                        struct_ok = False
                        why.append("a structural call changed attributes of %d" % i)
                continue          # structural calls are not part of the attribute trace
            elif k == "setchildren":
                a = objs[op[1]]
                before = [links_of(o) for o in objs]
                named_nodes = [objs[i] for i in op[2]]
                try:
                    a.children = named_nodes
                    got = list(a.children)
                    if len(got) != len(named_nodes) or any(x is not y for x, y in zip(got, named_nodes)):
                        struct_ok = False
                        why.append("children assigned to %d are not its children afterwards" % op[1])
                    for x in named_nodes:
                        if x.parent is not a:
                            struct_ok = False
                            why.append("a child given to %d has another parent" % op[1])
                except (LoopError, TreeError):
                    pass
                # the target of a link never moves because the link got children, nor vice versa
                for i, o in enumerate(objs):
                    if isinstance(o, SymlinkNodeMixin) and o is a:
                        t = o.target
                        j = [x for x in range(len(objs)) if objs[x] is t][0]
                        former = before[i][1]
                        named = [objs[x] for x in op[2]]
                        touched = [t] + list(before[j][1]) + list(t.children)
                        involved = any(any(u is w for w in list(former) + named + [a]) for u in touched) or before[j][0] is a
                        if not involved and before[j] != links_of(t):
                            struct_ok = False
                            why.append("giving children to link %d changed its target %d" % (i, j))
                continue
        except AttributeError:
            outs.append(["err", "AttributeError"])
        except RecursionError:
            outs.append(["err", "RecursionError"])
    return {"outs": outs, "struct_ok": struct_ok, "why": why}
