import collections
import copy
import io
import json
import os

from anytree import AnyNode, Node, NodeMixin
from anytree.exporter import DictExporter, JsonExporter
from anytree.importer import DictImporter, JsonImporter

POOL = [0, 1, -7, 2 ** 70, "s", "", "ä中\u0001\n\"\\", None, [1, "a", [None]], {"k": [1, 2], "z": {"y": None}},
        1.5, -0.0, 1e100, [], {}, "None", True, False, "k0", 3.0]


def vkey(v):
    return type(v).__name__ + ":" + json.dumps(v, sort_keys=True)


TOKEN = {vkey(v): i for i, v in enumerate(POOL)}


def token(v):
    k = vkey(v)
    if k not in TOKEN:
        raise ValueError("value outside the pool: %r" % (v,))
    return TOKEN[k]


class UNode(NodeMixin):
    """a user node class with exactly the constructor protocol the importer documents:
    nodecls(parent=parent, **attrs) - no `children` parameter"""

    def __init__(self, parent=None, **kwargs):
        self.__dict__.update(kwargs)
        self.parent = parent


BOOK = ("_NodeMixin__parent", "_NodeMixin__children")


def make(cls, attrs, parent):
    kw = {k: POOL[v] for k, v in attrs}
    if cls is Node:
        name = kw.pop("name")
        return Node(name, parent=parent, **kw)
    return cls(parent=parent, **kw)


def build(t, cls, parent=None):
    attrs, cs = t
    n = make(cls, attrs, parent)
    for c in cs:
        build(c, cls, n)
    return n


def read_itree(n, full):
    items = []
    for k, v in n.__dict__.items():
        if k in BOOK:
            if full:
                items.append([k, 0])
            continue
        items.append([k, token(v)])
    return [items, [read_itree(c, full) for c in n.children]]


def read_dtree(d):
    items, children = [], None
    for k, v in d.items():
        if k == "children":
            children = [read_dtree(c) for c in v]
        else:
            items.append([k, token(v)])
    return [items, children]


def to_py_dict(d, dictcls=dict):
    items, children = d
    out = dictcls((k, POOL[v]) for k, v in items)
    if children is not None:
        out["children"] = [to_py_dict(c, dictcls) for c in children]
    return out


CLS = {"any": AnyNode, "node": Node, "user": UNode}
AITER = {"identity": None, "sort": lambda attrs: sorted(attrs, key=lambda kv: kv[0]),
         "dropk0": lambda attrs: [(k, v) for k, v in attrs if k != "k0"],
         "last": lambda attrs: list(attrs)[-1:]}
CITER = {"list": list, "reversed": lambda cs: list(reversed(cs)), "droplast": lambda cs: list(cs)[:-1]}


def run_case(c):
    cls = CLS[c["cls"]]
    icls = CLS[c["icls"]]
    py_ok = True
    why = []
    if c["mode"] == "tree":
        if c.get("embed"):
            top = make(cls, [["name", 4]] if cls is Node else [], None)
            make(cls, [["name", 5]] if cls is Node else [], top)
            mid = make(cls, [["name", 5]] if cls is Node else [], top)
            root = build(c["tree"], cls, mid)
        else:
            root = build(c["tree"], cls)
        stores = read_itree(root, True)
        dictcls = collections.OrderedDict if c.get("ordered") else dict
        kw = {}
        if c["aiter"] != "identity":
            kw["attriter"] = AITER[c["aiter"]]
        if c["citer"] != "list" or c.get("lazy"):
            kw["childiter"] = (lambda cs, _f=CITER[c["citer"]]: iter(_f(cs))) if c.get("lazy") else CITER[c["citer"]]
        ex = DictExporter(dictcls=dictcls, maxlevel=c["ml"], **kw)
        before = read_itree(root, True)
        if c.get("json"):
            jkw = c["json"]["kwargs"]
            jex = JsonExporter(dictexporter=ex if c["json"]["custom"] else None, maxlevel=c["jml"], **jkw)
            if c["json"]["custom"] and c["jml"] is not None:
                # another JsonExporter sharing the same dict exporter, with its own maxlevel, is merely constructed
                JsonExporter(dictexporter=ex, maxlevel=c["jml"] + 1, **jkw)
            text = jex.export(root)
            eff = c["jml"] if c["jml"] is not None else (c["ml"] if c["json"]["custom"] else None)
            ref = DictExporter(dictcls=dictcls, maxlevel=eff, **(kw if c["json"]["custom"] else {}))
            if text != json.dumps(ref.export(root), **jkw):
                py_ok = False
                why.append("export text is not json.dumps of the dict export")
            fh = io.StringIO()
            jex.write(root, fh)
            if fh.getvalue() != text:
                py_ok = False
                why.append("write() text differs from export()")
            path = os.path.join(os.environ.get("VERIF_BUILD", "/verif/build"), "impl", "c11_%d.json" % os.getpid())
            with open(path, "w") as f2:
                jex.write(root, f2)
            imp = JsonImporter(dictimporter=DictImporter(nodecls=icls))
            with open(path) as f2:
                r_read = imp.read(f2)
            os.remove(path)
            d_py = json.loads(text)
            t2 = imp.import_(text)
            if read_itree(t2, False) != read_itree(r_read, False):
                py_ok = False
                why.append("read() differs from import_()")
            # the codec round trip assumed by the theorem
            if json.loads(json.dumps(d_py, **jkw)) != d_py:
                py_ok = False
                why.append("json does not round-trip this value")
        else:
            d_py = ex.export(root)
            d_copy = copy.deepcopy(d_py)
            t2 = DictImporter(nodecls=icls).import_(d_py)
            if d_py != d_copy:
                py_ok = False
                why.append("import_ modified its argument")
        if read_itree(root, True) != before:
            py_ok = False
            why.append("export modified the tree")
        d3 = DictExporter().export(t2)
        return {"stores": stores, "d": read_dtree(d_py), "t2": read_itree(t2, True), "d3": read_dtree(d3),
                "py_ok": py_ok, "why": why}
    d_py = to_py_dict(c["dict"], collections.OrderedDict if c.get("ordered") else dict)
    d_copy = copy.deepcopy(d_py)
    t = DictImporter(nodecls=icls).import_(d_py)
    if d_py != d_copy:
        py_ok = False
        why.append("import_ modified its argument")
    d2 = DictExporter().export(t)
    return {"t": read_itree(t, True), "d2": read_dtree(d2), "py_ok": py_ok, "why": why}
