from anytree import AnyNode, AsciiStyle, ContRoundStyle, ContStyle, DoubleStyle, Node, RenderTree
from anytree.render import AbstractStyle
from implutil import snapshot

STYLES = {"ascii": AsciiStyle, "cont": ContStyle, "contround": ContRoundStyle, "double": DoubleStyle}
CITER = {"list": list, "reversed": lambda cs: list(reversed(cs)), "dropfirst": lambda cs: list(cs)[1:],
         "droplast": lambda cs: list(cs)[:-1], "sortdesc": lambda cs: sorted(cs, key=lambda n: -n.lbl)}


class StrNode(AnyNode):
    """str() and repr() of a node differ: the rendered text must show the repr"""

    def __str__(self):
        return "str-of-%s" % (self.lbl,)


_STRCLS = {}


def node_class():
    import implutil
    base = implutil.adv(AnyNode)
    if base is AnyNode:
        return StrNode
    if base not in _STRCLS:
        _STRCLS[base] = type("Str" + base.__name__, (base,), {"__str__": StrNode.__str__})
    return _STRCLS[base]


def build(t, vals, parent=None):
    lbl, cs = t
    n = node_class()(parent=parent, lbl=lbl, val=vals[str(lbl)])
    for c in cs:
        build(c, vals, n)
    return n


def lines_for(v):
    """what _format_row_any does with an attribute value"""
    if isinstance(v, (list, tuple)):
        return [str(x) for x in v]
    return str(v).splitlines()


def run_case(c):
    if c["mode"] == "repr":
        return run_repr(c)
    vals = {k: (tuple(v["tuple"]) if isinstance(v, dict) else v) for k, v in c["vals"].items()}
    if c.get("embed"):
        import implutil
        A = implutil.adv(AnyNode)
        top = A(lbl=1000, val="top")
        A(parent=A(parent=top, lbl=1001, val="s"), lbl=1002, val="s")
        root = build(c["tree"], vals, parent=A(parent=top, lbl=1003, val="mid"))
        A(parent=top, lbl=1004, val="s")
    else:
        root = build(c["tree"], vals)
    st = c["style"]
    style = STYLES[st]() if isinstance(st, str) else AbstractStyle(*st)
    kw = {"style": style, "maxlevel": c["ml"]}
    if c["citer"] != "list":
        kw["childiter"] = CITER[c["citer"]]
    if c.get("style_as_class") and isinstance(st, str):
        kw["style"] = STYLES[st]
    before = snapshot(root.root)
    rt = RenderTree(root, **kw)
    rows = [[pre, fill, node.lbl] for pre, fill, node in rt]
    sel = c["selector"]
    if sel == "attr":
        text = rt.by_attr("val")
        lines = {str(n.lbl): lines_for(n.val) for _, _, n in rt}
    elif sel == "callable":
        text = rt.by_attr(lambda n: n.val)
        lines = {str(n.lbl): lines_for(n.val) for _, _, n in rt}
    elif sel == "missing":
        text = rt.by_attr("nosuchattr")
        lines = {str(n.lbl): [] for _, _, n in rt}
    else:
        text = str(rt)
        lines = {str(n.lbl): repr(n).splitlines() for _, _, n in rt}
    if snapshot(root.root) != before:
        return {"crash": "rendering modified the tree"}
    # one RenderTree object may be iterated again after an abandoned iteration, and by two consumers at once
    it = iter(rt)
    for _ in range(len(rows) // 2):
        next(it)
    again = [[pre, fill, node.lbl] for pre, fill, node in rt]
    both = [[[p1, f1, n1.lbl], [p2, f2, n2.lbl]] for (p1, f1, n1), (p2, f2, n2) in zip(rt, rt)]
    if again != rows or any(a != b for a, b in both) or [a for a, _ in both] != rows:
        return {"crash": "a second / simultaneous iteration of the same RenderTree yields different rows"}
    return {"rows": rows, "text": text, "lines": lines}


def run_repr(c):
    cls = type("N" + c["sep"].replace("/", "s").replace(".", "d").replace(":", "c"),
               (Node if c["node"] else AnyNode,), {"separator": c["sep"]})
    nodes = []
    parent = None
    for name, attrs in c["chain"]:
        kw = dict(attrs)
        n = cls(name, parent=parent, **kw) if c["node"] else cls(parent=parent, name=name, **kw)
        nodes.append(n)
        parent = n
    last = nodes[-1]
    items = [[k, repr(v)] for k, v in last.__dict__.items()]
    return {"repr": repr(last), "classname": cls.__name__, "names": [str(n.name) for n in last.path], "items": items}
