import random

from anytree import AnyNode, LightNodeMixin, NodeMixin, SymlinkNode
from anytree import util
import implutil

LABEL = {}


def lbls(nodes):
    return [LABEL[id(n)] for n in nodes]


class LNode(LightNodeMixin):
    __slots__ = ("lbl",)

    def __init__(self, lbl, parent=None):
        self.lbl = lbl
        self.parent = parent


class MNode(NodeMixin):
    def __init__(self, lbl, parent=None):
        self.lbl = lbl
        self.parent = parent


def build_any(t, cls, how, seed):
    """returns dict position(tuple) -> node"""
    nodes = {}
    flat = []

    def collect(t, pos):
        flat.append((pos, t[0], [pos + (i,) for i in range(len(t[1]))]))
        for i, c in enumerate(t[1]):
            collect(c, pos + (i,))
    collect(t, ())
    A, Lc, Mc = implutil.adv(AnyNode), implutil.adv(LNode), implutil.adv(MNode)
    mk = (lambda lbl: A(lbl=lbl)) if cls == "any" else (lambda lbl: Lc(lbl)) if cls == "light" else (lambda lbl: Mc(lbl))
    LABEL.clear()
    if cls == "symmix":
        # every second node (not the root) is a SymlinkNode whose target is the root or the first child:
        # links sit at other depths than their targets
        S = implutil.adv(SymlinkNode)
        for i, (pos, lbl, _) in enumerate(flat):
            if i >= 2 and i % 2 == 0:
                nodes[pos] = S(nodes[flat[i % 3 == 0][0]])
            else:
                nodes[pos] = A(lbl=lbl)
            LABEL[id(nodes[pos])] = lbl
    else:
        for pos, lbl, _ in flat:
            nodes[pos] = mk(lbl)
            LABEL[id(nodes[pos])] = lbl
    if how == "direct":
        for pos, lbl, kids in flat:
            for k in kids:
                nodes[k].parent = nodes[pos]
    else:
        # reach the same tree through a mutation history: wrong attachments, moves, children assignments
        rng = random.Random(seed)
        order = list(flat)
        rng.shuffle(order)
        allpos = [p for p, _, _ in flat]
        for pos, lbl, kids in order:
            if pos != () and rng.random() < 0.5:
                cand = [q for q in allpos if q != pos and nodes[q] is not nodes[pos]]
                q = rng.choice(cand) if cand else None
                if q is not None:
                    try:
                        nodes[pos].parent = nodes[q]
                    except Exception:
                        pass
        for n in nodes.values():
            n.parent = None
        rng.shuffle(order)
        for pos, lbl, kids in order:
            ks = [nodes[k] for k in kids]
            if rng.random() < 0.5:
                nodes[pos].children = list(reversed(ks))
            nodes[pos].children = ks
    return nodes


def run_case(c):
    nodes = build_any(c["tree"], c.get("cls", "any"), c.get("how", "direct"), c.get("seed", 0))
    if "walk" in c:
        return None
    n = nodes[tuple(c["pos"])]
    out = {
        "path": lbls(n.path), "ancestors": lbls(n.ancestors), "root": LABEL[id(n.root)], "depth": n.depth,
        "is_root": bool(n.is_root), "is_leaf": bool(n.is_leaf), "siblings": lbls(n.siblings),
        "descendants": lbls(n.descendants), "leaves": lbls(n.leaves), "size": n.size, "height": n.height,
        "common": lbls(util.commonancestors(*[nodes[tuple(p)] for p in c["cps"]])),
    }
    ls, rs = util.leftsibling(n), util.rightsibling(n)
    out["left"] = None if ls is None else LABEL[id(ls)]
    out["right"] = None if rs is None else LABEL[id(rs)]
    for k in ("path", "ancestors", "siblings", "descendants", "leaves"):
        if not isinstance(getattr(n, k), tuple):
            return {"crash": "%s is not a tuple" % k}
    return out
