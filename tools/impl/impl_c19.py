import copy
import pickle

from anytree import AnyNode, LightNodeMixin, Node, NodeMixin, SymlinkNode, SymlinkNodeMixin


class UMix(NodeMixin):
    def __init__(self, parent=None, **kw):
        self.__dict__.update(kw)
        self.parent = parent


class _ULightS(LightNodeMixin):
    __slots__ = "val"        # a single string is a legal __slots__ declaration (one slot named "val")

    def __init__(self, parent=None, v=0, lbl=0):
        self.val = v
        self.parent = parent


ULightS = _ULightS           # the class name itself starts with an underscore (private-name mangling corner)


class ULight(LightNodeMixin):
    __slots__ = ("v", "__lbl")          # one public and one private (name-mangled) slot

    def __init__(self, parent=None, v=0, lbl=0):
        self.v = v
        self.__lbl = lbl
        self.parent = parent

    @property
    def lbl(self):
        return self.__lbl


TAGS = {AnyNode: 1, Node: 2, SymlinkNode: 3, UMix: 4, ULight: 5, ULightS: 6}


def graph(universe_entry):
    """the object graph reachable from a node through parent / children / target:
    nodes in discovery order"""
    seen, order = {}, []
    work = [universe_entry]
    while work:
        n = work.pop(0)
        if id(n) in seen:
            continue
        seen[id(n)] = len(order)
        order.append(n)
        if n.parent is not None:
            work.append(n.parent)
        work.extend(n.children)
        if isinstance(n, SymlinkNodeMixin):
            work.append(n.target)
    return order, seen


def attrs_of(n):
    if isinstance(n, ULightS):
        return [["v", getattr(n, "val", -1)]]
    if isinstance(n, ULight):
        return [["v", getattr(n, "v", -1)], ["lbl", getattr(n, "lbl", -1)]]
    return sorted([k, v] for k, v in n.__dict__.items() if not k.startswith("_NodeMixin__") and k != "target")


def cells(order, index):
    out = []
    for n in order:
        tgt = index[id(n.target)] if isinstance(n, SymlinkNodeMixin) else None
        out.append([None if n.parent is None else index[id(n.parent)], [index[id(c)] for c in n.children], tgt,
                    TAGS[type(n)], attrs_of(n)])
    return out


def run_case(c):
    nodes = []
    for spec in c["nodes"]:
        kind, parent, extra = spec
        p = None if parent is None else nodes[parent]
        if kind == "any":
            n = AnyNode(parent=p, lbl=len(nodes), v=extra)
        elif kind == "node":
            n = Node("n%d" % len(nodes), parent=p, lbl=len(nodes), v=extra)
        elif kind == "umix":
            n = UMix(parent=p, lbl=len(nodes), v=extra)
        elif kind == "light":
            n = ULight(parent=p, v=extra, lbl=len(nodes))
        elif kind == "lights":
            n = ULightS(parent=p, v=extra)
        else:
            n = SymlinkNode(nodes[extra], parent=p)
        nodes.append(n)
    index = {id(n): i for i, n in enumerate(nodes)}
    orig = cells(nodes, index)
    entry = nodes[c["entry"]]
    how = c["how"]
    if how == "deepcopy":
        res = copy.deepcopy(entry)
    else:
        res = pickle.loads(pickle.dumps(entry, protocol=how))
    order, cindex = graph(res)
    copycells = cells(order, cindex)
    py_ok, why = True, []
    if any(id(n) in index for n in order):
        py_ok = False
        why.append("the copy shares a node object with the original")
    # renaming: walk both graphs in lock step from the entry nodes
    ren = {}
    work = [(entry, res)]
    while work:
        a, b = work.pop()
        if id(a) in ren:
            if ren[id(a)] != cindex[id(b)]:
                py_ok = False
                why.append("inconsistent correspondence")
            continue
        ren[id(a)] = cindex[id(b)]
        if (a.parent is None) != (b.parent is None) or len(a.children) != len(b.children) or type(a) is not type(b):
            py_ok = False
            why.append("shape or class differs")
            continue
        if a.parent is not None:
            work.append((a.parent, b.parent))
        work.extend(zip(a.children, b.children))
        if isinstance(a, SymlinkNodeMixin):
            work.append((a.target, b.target))
    renaming = sorted([index[k], v] for k, v in ren.items())
    # independence: mutate the copy, the original must not change, and vice versa
    before = cells(nodes, index)
    leaf = order[-1]
    try:
        oldp = leaf.parent
        leaf.parent = None
        if oldp is not None and any(ch is leaf for ch in oldp.children):
            py_ok = False
            why.append("a node detached in the copy is still listed by its former parent")
        if leaf.parent is not None:
            py_ok = False
            why.append("detaching in the copy did not take effect")
        if oldp is not None:
            leaf.parent = oldp
            if not any(ch is leaf for ch in oldp.children) or sum(1 for ch in oldp.children if ch is leaf) != 1:
                py_ok = False
                why.append("re-attaching in the copy is inconsistent")
            leaf.parent = None
        if not isinstance(res, (ULight, ULightS)) and not isinstance(res, SymlinkNodeMixin):
            res.extra_attr = 1
        elif isinstance(res, SymlinkNodeMixin):
            res.extra_attr = 1          # forwarded to the COPIED target
    except Exception as e:  # noqa
        py_ok = False
        why.append("mutating the copy raised %r" % (e,))
    # a new node attached below one leaf of the copy becomes the child of that leaf only
    try:
        leaves = [n for n in order if len(n.children) == 0 and n is not leaf]
        if leaves:
            lf = leaves[0]
            kids_before = {id(n): [id(x) for x in n.children] for n in order}
            if isinstance(lf, (ULight, ULightS)):
                new = type(lf)(parent=lf, v=5)
            elif isinstance(lf, SymlinkNodeMixin):
                new = AnyNode(parent=lf)
            elif isinstance(lf, Node):
                new = Node("fresh", parent=lf)
            else:
                new = type(lf)(parent=lf)
            if [id(x) for x in lf.children] != [id(new)] or new.parent is not lf:
                py_ok = False
                why.append("a node attached below a leaf of the copy is not its only child")
            for n in order:
                if n is not lf and [id(x) for x in n.children] != kids_before[id(n)]:
                    py_ok = False
                    why.append("attaching below one leaf of the copy changed the children of another node")
                    break
            new.parent = None
    except Exception as e:  # noqa
        py_ok = False
        why.append("attaching below a leaf of the copy raised %r" % (e,))
    if cells(nodes, index) != before:
        py_ok = False
        why.append("mutating the copy changed the original")
    cb = cells(order, cindex)
    try:
        nodes[-1].parent = None
    except Exception:
        pass
    if cells(order, cindex) != cb:
        py_ok = False
        why.append("mutating the original changed the copy")
    return {"orig": orig, "copy": copycells, "entry2": cindex[id(res)], "ren": renaming, "py_ok": py_ok, "why": why}
