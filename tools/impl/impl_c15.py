from anytree import Walker, WalkError
from impl_c04 import build_any
from impl_c04 import LABEL


def run_case(c):
    forests = []
    labels = {}          # by identity: a SymlinkNode forwards attribute reads to its target
    for i, t in enumerate(c["forest"]):
        forests.append(build_any(t, c.get("cls", "any"), c.get("how", "direct"), c.get("seed", 0) + i))
        labels.update(LABEL)
    a = forests[c["a"][0]][tuple(c["a"][1])]
    b = forests[c["b"][0]][tuple(c["b"][1])]
    try:
        up, common, down = Walker().walk(a, b)
    except WalkError:
        return {"err": "WalkError"}
    if not isinstance(up, tuple) or not isinstance(down, tuple):
        return {"crash": "not tuples"}
    return {"up": [labels[id(x)] for x in up], "common": labels[id(common)], "down": [labels[id(x)] for x in down]}
