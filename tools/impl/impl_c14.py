import re

from anytree import AnyNode, cachedsearch, search
from implutil import build, lbls

_RE_LEAST = re.compile(r"^Expecting at least (-?\d+) elements, but found (-?\d+)\.")
_RE_MOST = re.compile(r"^Expecting (-?\d+) elements at maximum, but found (-?\d+)\.")


def run_case(c):
    nodes = {}
    if c.get("embed"):
        import implutil
        A = implutil.adv(AnyNode)
        top = A(lbl=1000)
        A(parent=top, lbl=1001, a=1)
        root = build(c["tree"], AnyNode, parent=A(parent=top, lbl=1002, a=0), nodes=nodes)
    else:
        root = build(c["tree"], AnyNode, nodes=nodes)
    NONE = 99          # token of Python's None (as an attribute value and as the searched value)
    TOK = {99: None, 97: (0, 1), 96: [0]}      # tokens of values that are collections themselves
    if c.get("pct"):
        for n in nodes.values():
            n.pct = "100%"                     # a '%' in every node's repr (it ends up in CountError messages)
    via = c.get("via")
    aname = c.get("aname", "a")        # the attribute's name is used literally, dots included
    if aname != "a":
        for n in nodes.values():
            n.a = 1                    # what a dotted traversal (parent.a) would find instead
    for k, v in c["attrs"]:
        val = TOK[v] if v in TOK else v
        if via and not c.get("adv"):
            # the attribute exists without being in the instance dictionary: a class attribute, or a property
            base = type(nodes[k])
            if via == "class":
                nodes[k].__class__ = type("WithClassAttr", (base,), {aname: val})
            else:
                nodes[k].__class__ = type("WithProperty", (base,), {aname: property(lambda self, _v=val: _v)})
        else:
            setattr(nodes[k], aname, val)
    if c["value"] in TOK:
        c = dict(c, value=TOK[c["value"]])
    filt = (lambda n, s=set(c["filt"]): n.lbl in s) if c["filt"] is not None else None
    stop = (lambda n, s=set(c["stop"]): n.lbl in s) if c["stop"] is not None else None
    m = cachedsearch if c["cached"] else search
    fn = c["fn"]
    try:
        if fn == "findall":
            r = m.findall(root, filter_=filt, stop=stop, maxlevel=c["ml"], mincount=c["lo"], maxcount=c["hi"])
        elif fn == "find":
            r = m.find(root, filter_=filt, stop=stop, maxlevel=c["ml"])
            r = () if r is None else (r,)
        elif fn == "findall_by_attr":
            r = m.findall_by_attr(root, c["value"], name=aname, maxlevel=c["ml"], mincount=c["lo"], maxcount=c["hi"])
        elif fn == "find_by_attr":
            r = m.find_by_attr(root, c["value"], name=aname, maxlevel=c["ml"])
            r = () if r is None else (r,)
        else:
            raise ValueError(fn)
        if not isinstance(r, tuple):
            return {"err": ["Other", "result is not a tuple"]}
        return {"ok": lbls(r)}
    except search.CountError as e:
        msg = str(e)
        a = _RE_LEAST.match(msg)
        b = _RE_MOST.match(msg)
        if a:
            return {"err": ["CountAtLeast", int(a.group(1)), int(a.group(2))]}
        if b:
            return {"err": ["CountAtMost", int(b.group(1)), int(b.group(2))]}
        return {"err": ["Other", "CountError without numbers"]}
    except Exception as e:
        return {"err": ["Other", type(e).__name__]}
