"""C17 cases are dispatched by their family to the other harness modules (see run_impl.py)."""


def run_case(c):
    raise RuntimeError("C17 case without family")
