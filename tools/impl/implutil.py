"""Helpers of the implementation-side harness."""
import anytree
from anytree import AnyNode


def build(t, cls=AnyNode, parent=None, nodes=None, **kw):
    """(label, [children]) -> real tree of cls instances; attribute lbl = label;
    nodes: dict label -> node (filled)"""
    lbl, cs = t
    real = adv(cls)
    n = real(parent=parent, lbl=lbl, **kw) if cls is not anytree.Node else real("n%d" % lbl, parent=parent, lbl=lbl, **kw)
    if nodes is not None:
        nodes[lbl] = n
    for c in cs:
        build(c, cls, n, nodes)
    return n


def snapshot(root):
    """the tree below root as nested (label, [children]) read from the real links"""
    return [root.lbl, [snapshot(c) for c in root.children]]


def lbls(nodes):
    return [n.lbl for n in nodes]


# ---------------------------------------------------------------- adversarial node classes (C17)
ADV = None          # kind of adversarial special methods mixed into every node class, or None
SPECLOG = []        # every invocation of a user special method on a node


def _log(name):
    SPECLOG.append(name)


def _mk_adv(kind):
    raising = kind == "raising"

    def method(name, result):
        def m(self, *a):
            _log(name)
            if raising:
                raise RuntimeError("special method %s must not be called" % name)
            return result(self, *a) if callable(result) else result
        m.__name__ = name
        return m

    ns = {"__slots__": ()}
    if kind in ("always_equal", "raising"):
        ns["__eq__"] = method("__eq__", True)
        ns["__ne__"] = method("__ne__", False)
        ns["__hash__"] = method("__hash__", 7)
    if kind == "never_equal":
        ns["__eq__"] = method("__eq__", False)
        ns["__ne__"] = method("__ne__", True)
        ns["__hash__"] = method("__hash__", lambda self: id(self) >> 4)
    if kind == "unhashable":
        ns["__eq__"] = method("__eq__", lambda self, o: self is o)
        ns["__hash__"] = None
    if kind in ("falsy", "raising"):
        ns["__bool__"] = method("__bool__", False)
    if kind in ("zero_len", "raising"):
        ns["__len__"] = method("__len__", 0)
    if kind in ("container", "raising"):
        ns["__iter__"] = method("__iter__", lambda self: iter(()))
        ns["__contains__"] = method("__contains__", True)
        ns["__getitem__"] = method("__getitem__", None)
    if kind in ("ordering", "raising"):
        for nm in ("__lt__", "__le__", "__gt__", "__ge__"):
            ns[nm] = method(nm, True)
    return type("Adv_" + kind, (object,), ns)


_ADV_CACHE = {}
BASE = None         # "light": every harness that builds AnyNode trees builds LightNodeMixin trees instead (C18)


class LightAny(anytree.LightNodeMixin):
    """AnyNode's constructor interface on top of LightNodeMixin"""

    def __init__(self, parent=None, children=None, **kwargs):
        self.__dict__.update(kwargs)
        self.parent = parent
        if children:
            self.children = children


def adv(cls):
    """the node class actually used: cls itself (or its LightNodeMixin counterpart when BASE is "light"),
    possibly with the adversarial special methods of the current kind in front of it in the MRO"""
    if BASE == "light" and cls is anytree.AnyNode:
        cls = LightAny
    if ADV is None:
        return cls
    key = (ADV, cls)
    if key not in _ADV_CACHE and ADV == "tuple_based":
        # a node class that is also a tuple (the namedtuple + NodeMixin pattern): still one node, not a sequence of nodes
        class _TupleBase(tuple):
            def __new__(klass, *a, **k):
                return tuple.__new__(klass, (1, 2))
        try:
            _ADV_CACHE[key] = type(cls.__name__ + "_tuple", (_TupleBase, cls), {})
        except TypeError:
            _ADV_CACHE[key] = cls           # classes with non-empty __slots__ cannot derive from tuple
    if key not in _ADV_CACHE:
        ns = {}
        if "__slots__" in cls.__dict__ or any("__slots__" in b.__dict__ for b in cls.__mro__[:-1] if b is not object):
            ns["__slots__"] = ()
        _ADV_CACHE[key] = type(cls.__name__ + "_" + ADV, (_mk_adv(ADV), cls), ns)
    return _ADV_CACHE[key]
