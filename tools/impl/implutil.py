"""Helpers of the implementation-side harness."""
import anytree
from anytree import AnyNode


def build(t, cls=AnyNode, parent=None, nodes=None, **kw):
    """(label, [children]) -> real tree of cls instances; attribute lbl = label;
    nodes: dict label -> node (filled)"""
    lbl, cs = t
    n = cls(parent=parent, lbl=lbl, **kw) if cls is not anytree.Node else cls("n%d" % lbl, parent=parent, lbl=lbl, **kw)
    if nodes is not None:
        nodes[lbl] = n
    for c in cs:
        build(c, cls, n, nodes)
    return n


def snapshot(root):
    """the tree below root as nested (label, [children]) read from the real links"""
    return [root.lbl, [snapshot(c) for c in root.children]]


def lbls(nodes):
    return [n.lbl for n in nodes]
