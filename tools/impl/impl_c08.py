import importlib
import os
import subprocess
import sys

from anytree import Resolver
from impl_c07 import build, classify, cls_for


def run_case(c):
    if "history" in c:
        return run_history(c)
    nodes = {}
    attr = c.get("attr", "name")
    build(c["tree"], c["names"], cls_for(c["sep"]), attr, nodes=nodes)
    posof = {id(n): list(p) for p, n in nodes.items()}
    start = nodes[tuple(c["pos"])]
    pa = "name" if attr == "missing" else attr
    r = Resolver(pathattr=pa, ignorecase=c["ic"], relax=c["relax"])
    shipped = {str(n.lbl): str(getattr(n, pa, None)) for n in nodes.values()}
    out = {"names": shipped}
    try:
        res = r.glob(start, c["path"])
        if not isinstance(res, list):
            return {"crash": "glob did not return a list"}
        out["glob"] = {"list": [posof[id(n)] for n in res]}
    except Exception as e:  # noqa
        out["glob"] = {"err": classify(e)}
    try:
        g = r.get(start, c["path"])
        out["get"] = {"list": [] if g is None else [posof[id(g)]]}
    except Exception as e:  # noqa
        out["get"] = {"err": classify(e)}
    return out


def run_history(c):
    """cache transparency: a sequence of glob calls of several resolvers in this
    process, each compared with the same call made in a FRESH interpreter
    (empty cache)"""
    nodes = {}
    build(c["tree"], c["names"], cls_for("/"), "name", nodes=nodes)
    posof = {id(n): list(p) for p, n in nodes.items()}
    start = nodes[()]
    results = []
    resolvers = {}
    for ic, relax, path in c["history"]:
        key = (ic, relax)
        if key not in resolvers:
            resolvers[key] = Resolver(ignorecase=ic, relax=relax)
        try:
            results.append({"list": [posof[id(n)] for n in resolvers[key].glob(start, path)]})
        except Exception as e:  # noqa
            results.append({"err": classify(e)})
    import anytree.resolver as rmod
    return {"results": results, "cache_len": len(rmod.Resolver._match_cache), "maxcache": rmod._MAXCACHE}
