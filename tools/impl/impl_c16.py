from impl_mut import run_case  # noqa
