from anytree import (AnyNode, LevelOrderGroupIter, LevelOrderIter, PostOrderIter, PreOrderIter, ZigZagGroupIter)
from implutil import build, lbls, snapshot


def run_case(c):
    nodes = {}
    if c.get("embed"):
        # the start node is the middle child of a root that has other children
        import implutil
        A = implutil.adv(AnyNode)
        top = A(lbl=1000)
        A(parent=top, lbl=1001)
        start = build(c["tree"], AnyNode, parent=top, nodes=nodes)
        A(parent=A(parent=top, lbl=1002), lbl=1003)
        whole = top
    else:
        start = build(c["tree"], AnyNode, nodes=nodes)
        whole = start
    filt = (lambda n, s=set(c["filt"]): n.lbl in s) if c["filt"] is not None else None
    stop = (lambda n, s=set(c["stop"]): n.lbl in s) if c["stop"] is not None else None
    ml = c["ml"]
    before = snapshot(whole)
    out = {}
    # the raw links of the start node's subtree (labels 0..n-1), for the abstraction function of the model
    if sorted(nodes) == list(range(len(nodes))):
        out["links"] = [[None if nodes[i].parent is None else nodes[i].parent.lbl, [ch.lbl for ch in nodes[i].children]]
                        for i in range(len(nodes))]
    out["pre"] = lbls(PreOrderIter(start, filt, stop, ml))
    out["post"] = lbls(PostOrderIter(start, filter_=filt, stop=stop, maxlevel=ml))
    out["level"] = lbls(LevelOrderIter(start, filt, stop, ml))
    g = list(LevelOrderGroupIter(start, filt, stop, ml))
    z = list(ZigZagGroupIter(start, filt, stop, ml))
    if not all(isinstance(x, tuple) for x in g + z):
        return {"crash": "group is not a tuple"}
    out["group"] = [lbls(x) for x in g]
    out["zigzag"] = [lbls(x) for x in z]
    if snapshot(whole) != before:
        return {"crash": "iteration modified the tree"}
    # an exhausted iterator stays exhausted; an iterator is its own iterator
    for cls in (PreOrderIter, PostOrderIter, LevelOrderIter, LevelOrderGroupIter, ZigZagGroupIter):
        it = cls(start, filt, stop, ml)
        if iter(it) is not it:
            return {"crash": "%s: iter(it) is not it" % cls.__name__}
        first = list(it)
        if list(it) != [] or next(it, None) is not None:
            return {"crash": "%s yields again after it was exhausted" % cls.__name__}
        if len(first) >= 2:
            it = cls(start, filt, stop, ml)
            head = next(it)
            if [head] + list(it) != first:
                return {"crash": "%s: partial consumption changes the result" % cls.__name__}
    return out
