"""Runs the REAL anytree (PYTHONPATH=/repo) on the cases of one property and
writes the canonicalised observations.  Executed by /venv/bin/python.

usage: run_impl.py <PROP> <in.json> <out.json>"""
import importlib
import json
import os
import signal
import sys

sys.setrecursionlimit(3000)
HERE = os.path.dirname(os.path.abspath(__file__))
sys.path.insert(0, HERE)


class CaseTimeout(BaseException):
    pass


def _alarm(signum, frame):
    raise CaseTimeout()


def main():
    prop, fin, fout = sys.argv[1:4]
    with open(fin) as fh:
        payload = json.load(fh)
    import anytree
    repo = os.environ.get("PYTHONPATH", "").split(os.pathsep)[0]
    where = os.path.dirname(os.path.dirname(os.path.abspath(anytree.__file__)))
    if os.path.realpath(where) != os.path.realpath(repo):
        raise SystemExit("anytree imported from %s, expected %s" % (where, repo))
    mod = importlib.import_module("impl_" + prop.lower())
    signal.signal(signal.SIGALRM, _alarm)
    obs = []
    import implutil
    for case in payload["cases"]:
        signal.setitimer(signal.ITIMER_REAL, float(payload.get("case_timeout", 10)))
        implutil.ADV = case.get("adv")
        implutil.BASE = case.get("base")
        del implutil.SPECLOG[:]
        rmod = mod if "family" not in case else importlib.import_module("impl_" + case["family"].lower())
        # deep-tree cases run under the interpreter's DEFAULT recursion limit: the code under test must not
        # need more stack than the unchanged library does
        sys.setrecursionlimit(int(case.get("reclimit_default") and 1000 or 3000))
        try:
            o = rmod.run_case(case)
        except CaseTimeout:
            o = {"timeout": True}
        except RecursionError:
            o = {"crash": "RecursionError"}
        except Exception as e:  # a crash of the harness itself or an unexpected exception class
            o = {"crash": "%s: %s" % (type(e).__name__, str(e)[:200])}
        finally:
            signal.setitimer(signal.ITIMER_REAL, 0)
            sys.setrecursionlimit(3000)
        if case.get("adv") is not None and isinstance(o, dict):
            o["speclog"] = list(implutil.SPECLOG[:20])
        obs.append(o)
    with open(fout, "w") as fh:
        json.dump({"obs": obs}, fh)


if __name__ == "__main__":
    main()
