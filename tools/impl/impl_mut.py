"""Harness of the mutation core: runs one structural call of the real anytree
on a given forest with instrumented hooks and a fault oracle, and reports the
outcome, the final link state of the whole universe and the hook log."""
import sys

from anytree import AnyNode, LightNodeMixin, LoopError, Node, NodeMixin, SymlinkNode, TreeError

KINDS = ["PreDetach", "PostDetach", "PreAttach", "PostAttach",
         "PreDetachChildren", "PostDetachChildren", "PreAttachChildren", "PostAttachChildren"]


class HookFault(Exception):
    def __init__(self, idx):
        super(HookFault, self).__init__("fault at hook invocation %d" % idx)
        self.idx = idx


class H:
    enabled = False
    counter = 0
    idx_faults = frozenset()
    persistent = frozenset()
    log = []
    kinds = []
    nfired = 0
    universe = []      # nodes in label order
    labels = {}        # id(node) -> label
    want_log = True
    acts = {}          # (kind, label) -> labels of the nodes that hook detaches (re-entrant hooks)
    depth = 0          # > 0 while a hook action runs: nested hook calls are silent
    iterarg = None     # how a children argument is passed: None = list, else a one-shot iterable kind

    @classmethod
    def label(cls, node):
        k = id(node)
        if k not in cls.labels:
            cls.labels[k] = len(cls.universe)
            cls.universe.append(node)
        return cls.labels[k]

    @classmethod
    def snapshot(cls):
        # grow the universe with nodes only reachable through links (half-constructed nodes)
        i = 0
        while i < len(cls.universe):
            n = cls.universe[i]
            p = n.parent
            if p is not None:
                cls.label(p)
            for c in n.children:
                cls.label(c)
            i += 1
        return [[None if n.parent is None else cls.label(n.parent), [cls.label(c) for c in n.children]]
                for n in cls.universe]

    @classmethod
    def fire(cls, kind, node, args):
        if not cls.enabled or cls.depth:
            return
        idx = cls.counter
        cls.counter += 1
        lab = cls.label(node)
        if len(cls.kinds) < 64:
            cls.kinds.append([kind, lab])
        cls.nfired += 1
        if cls.want_log and len(cls.log) < 80:
            cls.log.append([kind, lab, [cls.label(a) for a in args], cls.snapshot()])
        todo = cls.acts.get((kind, lab))
        if todo:
            cls.depth += 1
            try:
                for x in todo:
                    cls.universe[x].parent = None
            finally:
                cls.depth -= 1
        if idx in cls.idx_faults or (kind, lab) in cls.persistent:
            raise HookFault(idx)


class Hooks(object):
    __slots__ = ()

    def _pre_detach(self, parent):
        H.fire("PreDetach", self, [parent])

    def _post_detach(self, parent):
        H.fire("PostDetach", self, [parent])

    def _pre_attach(self, parent):
        H.fire("PreAttach", self, [parent])

    def _post_attach(self, parent):
        H.fire("PostAttach", self, [parent])

    def _pre_detach_children(self, children):
        H.fire("PreDetachChildren", self, list(children))

    def _post_detach_children(self, children):
        H.fire("PostDetachChildren", self, list(children))

    def _pre_attach_children(self, children):
        H.fire("PreAttachChildren", self, [c for c in children if isinstance(c, (NodeMixin, LightNodeMixin))])

    def _post_attach_children(self, children):
        H.fire("PostAttachChildren", self, [c for c in children if isinstance(c, (NodeMixin, LightNodeMixin))])


class HMixin(Hooks, NodeMixin):
    def __init__(self, parent=None, children=None):
        self.parent = parent
        if children:
            self.children = children


class HNode(Hooks, Node):
    def __init__(self, parent=None, children=None):
        Node.__init__(self, "x", parent=parent, children=children)


class HAnyNode(Hooks, AnyNode):
    pass


def _inspected_target():
    """the target of a link is an inner node of a tree of its own whose links have been read before the
    link exists: the link's own parent / children must never show the target's"""
    top = AnyNode()
    t = AnyNode(parent=top)
    AnyNode(parent=t)
    AnyNode(parent=t)
    assert len(t.children) == 2 and t.parent is top and len(top.children) == 1
    return t


class HSymlink(Hooks, SymlinkNode):
    def __init__(self, parent=None, children=None):
        SymlinkNode.__init__(self, _inspected_target(), parent=parent, children=children)


class HLight(Hooks, LightNodeMixin):
    __slots__ = ()

    def __init__(self, parent=None, children=None):
        self.parent = parent
        if children:
            self.children = children


class HLightBase(object):
    __slots__ = ("__weakref__",)


CLASSES = {"mixin": HMixin, "node": HNode, "anynode": HAnyNode, "symlink": HSymlink, "light": HLight}
TYPED = {"mixin": True, "node": True, "anynode": True, "symlink": True, "light": False}


class NotANode(object):
    pass


class NotANodeWithParent(object):
    """not a tree node, although it has a (read-only) `parent` attribute - like a pathlib path"""

    @property
    def parent(self):
        return None


def value(v, nodes):
    if v is None:
        return None
    if v == "other":
        return NotANode()
    if v == "other0":
        return 0             # a falsy non-node
    if v == "otherp":
        return NotANodeWithParent()
    return nodes[v]


def carg(a, nodes):
    if a == "notiterable":
        return 7
    xs = [value(v, nodes) for v in a]
    # the children argument is any iterable: one-shot iterables can be consumed only once
    how = H.iterarg
    if how == "iter":
        return iter(xs)
    if how == "gen":
        return (x for x in xs)
    if how == "reversed":
        return reversed(xs[::-1])
    if how == "map":
        return map(lambda x: x, xs)
    return xs


def setup(cls, heap, fresh=False):
    H.enabled = False
    H.universe = []
    H.labels = {}
    nodes = [cls() for _ in heap]
    for n in nodes:
        H.label(n)
    for p, (_, cs) in enumerate(heap):
        for c in cs:
            nodes[c].parent = nodes[p]
    if fresh:
        # the nodes are used without ever having been inspected (no attribute of them was read)
        return nodes
    got = H.snapshot()
    if got != [[a, list(b)] for a, b in heap]:
        raise RuntimeError("harness could not build the requested forest: %r vs %r" % (got, heap))
    return nodes


def classify_exc(e):
    if isinstance(e, HookFault):
        return ["Hook", e.idx]
    for cls, name in ((LoopError, "LoopError"), (TreeError, "TreeError"), (TypeError, "TypeError"),
                      (AssertionError, "AssertionError"), (AttributeError, "AttributeError"),
                      (RecursionError, "RecursionError")):
        if isinstance(e, cls):
            return [name]
    return ["Other", type(e).__name__]


def run_op(cls, nodes, op):
    kind = op[0]
    if kind == "set_parent":
        nodes[op[1]].parent = value(op[2], nodes)
    elif kind == "set_children":
        nodes[op[1]].children = carg(op[2], nodes)
    elif kind == "del_children":
        del nodes[op[1]].children
    elif kind == "construct":
        c = op[2]
        new = cls(parent=value(op[1], nodes), children=None if c is None else carg(c, nodes))
        H.label(new)
    else:
        raise ValueError(kind)


def run_one(c, clsname=None):
    clsname = clsname or c["cls"]
    import implutil
    cls = implutil.adv(CLASSES[clsname])
    nodes = setup(cls, c["heap"], fresh=bool(c.get("fresh")))
    H.counter = 0
    H.idx_faults = frozenset(c["faults"][0])
    H.persistent = frozenset((k, n) for k, n in c["faults"][1])
    H.log = []
    H.kinds = []
    H.nfired = 0
    H.want_log = bool(c.get("log", True))
    H.acts = {(k, n): list(xs) for k, n, xs in c.get("acts", [])}
    H.depth = 0
    H.iterarg = c.get("iterarg")
    old_limit = sys.getrecursionlimit()
    sys.setrecursionlimit(c.get("reclimit", 250))
    H.enabled = True
    try:
        try:
            run_op(cls, nodes, c["op"])
            out = ["Ok"]
        except Exception as e:  # noqa: the outcome is the exception class
            out = classify_exc(e)
    finally:
        H.enabled = False
        sys.setrecursionlimit(old_limit)
    heap = H.snapshot()
    res = {"out": out, "heap": heap, "log": (H.log if H.nfired < 80 else None) if H.want_log else None,
           "kinds": list(H.kinds), "nkinds": H.nfired}
    return res


def run_case(c):
    import anytree.config
    want = bool(c.get("asrt", False))
    if bool(anytree.config.ASSERTIONS) != want:
        raise RuntimeError("ANYTREE_ASSERTIONS of this process does not match the case")
    if "cls2" in c:
        return {"a": run_one(c, c["cls"]), "b": run_one(c, c["cls2"])}
    return run_one(c)


def run_history(c):
    """one universe, a sequence of calls on the same live objects; returns one
    observation per step (state before = state after the previous step)"""
    cls = CLASSES[c["cls"]]
    nodes = setup(cls, c["heap"])
    steps = []
    for op, faults in c["steps"]:
        nodes = list(H.universe)
        before = H.snapshot()
        H.counter = 0
        H.idx_faults = frozenset(faults[0])
        H.persistent = frozenset((k, n) for k, n in faults[1])
        H.log = []
        H.kinds = []
        H.nfired = 0
        H.want_log = False
        H.acts = {}
        H.depth = 0
        old_limit = sys.getrecursionlimit()
        sys.setrecursionlimit(c.get("reclimit", 250))
        H.enabled = True
        try:
            try:
                run_op(cls, nodes, op)
                out = ["Ok"]
            except Exception as e:  # noqa
                out = classify_exc(e)
        finally:
            H.enabled = False
            sys.setrecursionlimit(old_limit)
        after = H.snapshot()
        # nodes that appeared during the call were not in the "before" map: they were unallocated
        steps.append({"before": before, "out": out, "heap": after, "kinds": list(H.kinds), "nkinds": H.nfired})
    return {"steps": steps}


_run_one_case = run_case


def run_case(c):  # noqa: F811
    if "steps" in c:
        import anytree.config
        if bool(anytree.config.ASSERTIONS) != bool(c.get("asrt", False)):
            raise RuntimeError("ANYTREE_ASSERTIONS of this process does not match the case")
        return run_history(c)
    return _run_one_case(c)
