import os
import warnings

from anytree import AnyNode, LightNodeMixin
from anytree.exporter import DotExporter, MermaidExporter, UniqueDotExporter
from implutil import snapshot


class SlotNode(LightNodeMixin):
    """the documented all-__slots__ pattern: no instance dictionary, not weakly referenceable"""
    __slots__ = ("lbl", "name")

    def __init__(self, parent=None, lbl=None, name=None):
        self.lbl = lbl
        self.name = name
        self.parent = parent


BASECLS = [AnyNode]


def build_named(t, names, parent=None, nodes=None):
    lbl, cs = t
    import implutil
    n = implutil.adv(BASECLS[0])(parent=parent, lbl=lbl, name=names[str(lbl)])
    nodes[lbl] = n
    for c in cs:
        build_named(c, names, n, nodes)
    return n


def run_case(c):
    nodes = {}
    BASECLS[0] = SlotNode if c.get("slots") else AnyNode
    if c.get("embed"):
        import implutil
        A = implutil.adv(BASECLS[0])
        top = A(lbl=1000, name="top")
        A(parent=top, lbl=1001, name="s")
        root = build_named(c["tree"], c["names"], parent=A(parent=top, lbl=1002, name="mid"), nodes=nodes)
    else:
        root = build_named(c["tree"], c["names"], nodes=nodes)
    filt = (lambda n, s=set(c["filt"]): n.lbl in s) if c["filt"] is not None else None
    stop = (lambda n, s=set(c["stop"]): n.lbl in s) if c["stop"] is not None else None
    kw = dict(filter_=filt, stop=stop, maxlevel=c["ml"])
    if c["options"] is not None:
        kw["options"] = c["options"]
    if c["indent"] is not None:
        kw["indent"] = c["indent"]
    if c["graph"] is not None:
        kw["graph"] = c["graph"]
    if c["gname"] is not None:
        kw["name"] = c["gname"]
    eattr = {(a, b): v for a, b, v in c["eattr"]}
    etype = {(a, b): v for a, b, v in c["etype"]}
    kind = c["kind"]
    if kind in ("dot", "legacy", "unique"):
        if c["custom_name"] and kind != "unique":
            kw["nodenamefunc"] = lambda n: c["names"][str(n.lbl)]
        if c["nattr"] and kind != "unique":
            kw["nodeattrfunc"] = lambda n: c["nattr"].get(str(n.lbl))
        if c["eattr"]:
            kw["edgeattrfunc"] = lambda a, b: eattr.get((a.lbl, b.lbl))
        if c["etype"]:
            kw["edgetypefunc"] = lambda a, b: etype.get((a.lbl, b.lbl), "->")
        if kind == "legacy":
            from anytree.dotexport import RenderTreeGraph
            with warnings.catch_warnings():
                warnings.simplefilter("ignore")
                ex = RenderTreeGraph(root, **kw)
        elif kind == "unique":
            ex = UniqueDotExporter(root, **kw)
        else:
            ex = DotExporter(root, **kw)
    else:
        if kind == "mermaid":
            kw["nodenamefunc"] = lambda n: c["names"][str(n.lbl)]
            kw["nodefunc"] = lambda n: c["nattr"].get(str(n.lbl), "")
        if c["etype"] or kind == "mermaid":
            kw["edgefunc"] = lambda a, b: etype.get((a.lbl, b.lbl), c["edefault"])
        ex = MermaidExporter(root, **kw)
    before = snapshot(root.root)
    l1 = list(ex)
    l2 = list(ex)
    if c.get("tofile"):
        path = os.path.join(os.environ.get("VERIF_BUILD", "/verif/build"), "impl", "c12_%d.txt" % os.getpid())
        if kind in ("dot", "legacy", "unique"):
            ex.to_dotfile(path)
            with open(path, encoding="utf-8") as fh:
                text = fh.read()
            expect = "".join("%s\n" % x for x in l2)
        else:
            ex.to_file(path)
            with open(path, encoding="utf-8") as fh:
                text = fh.read()
            expect = "```mermaid\n" + "".join("%s\n" % x for x in l2) + "```"
        os.remove(path)
        if text != expect:
            return {"crash": "file output differs from the iterated lines"}
    if snapshot(root.root) != before:
        return {"crash": "export modified the tree"}
    if not all(isinstance(x, str) for x in l1 + l2):
        return {"crash": "non-string line"}
    # identifiers are stable within and across iterations of one exporter:
    # (a) two live iterations interleaved, (b) the tree grows between two iterations
    it = iter(ex)
    head = [next(it) for _ in range(len(l1) // 2)]
    l3 = list(ex)
    rest = list(it)
    if head + rest != l1 or l3 != l1:
        return {"crash": "interleaved iterations of one exporter differ"}
    import implutil
    c["names"].setdefault("2000", "zz")
    extra = implutil.adv(BASECLS[0])(lbl=2000, name="zz")
    root.children = (extra,) + tuple(root.children)
    l4 = list(ex)
    grows = (c["filt"] is None and (c["ml"] is None or c["ml"] >= 2) and c["tree"][0] not in (c["stop"] or []))
    if grows and l4 == l1:
        return {"crash": "the tree grew between two iterations of one exporter, the second iteration shows the old tree"}
    missing = [x for x in l1 if x not in l4]
    if missing:
        return {"crash": "after the tree grew, a line of the first iteration changed: %r" % (missing[0],)}
    return {"l1": l1, "l2": l2}
