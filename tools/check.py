#!/usr/bin/env python3
"""Single entry point of the checks.

  check.py --setup                 build the whole Coq development (full .vo)
  check.py C14 [--tier quick|thorough]   decide one property on /repo's working tree
"""
import importlib
import os
import sys

HERE = os.path.dirname(os.path.abspath(__file__))
if os.environ.get("PYTHONHASHSEED") != "0":
    # case generation must be a function of (tier, VERIF_SEED) alone
    os.environ["PYTHONHASHSEED"] = "0"
    os.execv(sys.executable, [sys.executable] + sys.argv)
sys.path.insert(0, HERE)
sys.setrecursionlimit(20000)     # the drivers' own helpers recurse over deep degenerate trees (not the code under test)
from lib import core, runner  # noqa: E402


def setup():
    with core.Lock():
        core.run_extract()
        core.ensure_makefile()
        rc, out, dt = core.make([], timeout=3000)
    sys.stdout.write(out[-3000:])
    print("setup: make rc=%d in %.0fs" % (rc, dt))
    return rc


def main(argv):
    if not argv or argv[0] in ("-h", "--help"):
        print(__doc__)
        return 2
    if argv[0] == "--setup":
        return setup()
    prop = argv[0].upper()
    tier = os.environ.get("VERIF_TIER") or "quick"
    if "--tier" in argv:
        tier = argv[argv.index("--tier") + 1]
    if tier not in ("quick", "thorough"):
        tier = "quick"
    try:
        seed = int(os.environ.get("VERIF_SEED", "0"))
    except ValueError:
        seed = 0
    mod = importlib.import_module("props." + prop.lower())
    try:
        return runner.run(mod, tier, seed)
    finally:
        core.cleanup_run_dirs()


if __name__ == "__main__":
    sys.exit(main(sys.argv[1:]))
