#!/usr/bin/env python3
"""Re-run the case stored in a replay file against /repo's current working
tree and against the Coq model/spec.

  replay.py replays/Cxx-<hash>.json

Prints what the implementation does now, whether it differs from the model
and from the specification, and exits 1 if the case still fails."""
import importlib
import json
import os
import sys

HERE = os.path.dirname(os.path.abspath(__file__))
sys.path.insert(0, HERE)
from lib import core  # noqa: E402


def main(argv):
    path = argv[0]
    if not os.path.isabs(path):
        path = os.path.join(core.VERIF, path)
    with open(path) as fh:
        r = json.load(fh)
    prop = r["property"]
    if r.get("kind") != "failing-input":
        print("%s: this replay names a broken obligation, not a failing input:" % prop)
        print(json.dumps(r["payload"], indent=1)[:4000])
        return 1
    mod = importlib.import_module("props." + prop.lower())
    case = r["payload"]["case"]
    binfo = core.build(prop, getattr(mod, "CORR", None))
    if not binfo["model_ok"]:
        print("model does not build")
        return 1
    if "family" in case and hasattr(mod, "families") and prop == "C16":
        # C16: "main" is the module itself, "reentrant" its second correspondence family
        fam = case["family"]
        inner = case["case"]
        famod = mod if fam == "main" else importlib.import_module("props.c16r")
        from props import mutcommon as mc
        o = mc.run_impl([inner], prop)[0]
        lit = (mod.literal if fam == "main" else famod.literal)(inner, o)
        header, ctype, driver, width = famod.HEADER, famod.CASE_TYPE, famod.DRIVER, famod.WIDTH
    elif "family" in case and hasattr(mod, "families"):
        fam = case["family"]
        inner = case["case"]
        famod = importlib.import_module("props." + {"nav": "c04", "walk": "c15", "iter": "c06", "search": "c14", "get": "c07",
                                                     "glob": "c08", "render": "c09", "dot": "c12", "mermaid": "c13",
                                                     "mut": "c01"}[fam])
        obs = core.run_impl_parallel(prop, [inner], tag="replay")
        o = obs[0]
        if isinstance(o, dict) and o.get("speclog"):
            lit_o = {"crash": "special methods invoked: %s" % o["speclog"]}
        else:
            lit_o = o
        lit = famod.literal(inner, lit_o)
        header, ctype, driver, width = famod.HEADER, famod.CASE_TYPE, famod.DRIVER, famod.WIDTH
    else:
        obs = mod.run_impl([case]) if hasattr(mod, "run_impl") else core.run_impl_parallel(getattr(mod, "IMPL", prop), [case], tag="replay")
        o = obs[0]
        lit = mod.literal(case, o)
        header, ctype, driver, width = mod.HEADER, mod.CASE_TYPE, mod.DRIVER, mod.WIDTH
    reports, errors = core.run_shards(prop, header, ctype, driver, [lit], tag="replay")
    n, lists = core.merge_reports(reports, width)
    print("property %s, replay %s" % (prop, os.path.basename(path)))
    print("case: %s" % json.dumps(case)[:1500])
    print("observed now: %s" % json.dumps(o)[:1500])
    print("observed when reported: %s" % json.dumps(r["payload"].get("observed"))[:800])
    if errors or n != 1:
        print("the case could not be evaluated in Coq: %s" % errors)
        return 1
    print("implementation differs from the model: %s" % bool(lists[0]))
    print("implementation violates the specification: %s" % bool(lists[1]))
    return 1 if (lists[0] or lists[1]) else 0


if __name__ == "__main__":
    try:
        rc = main(sys.argv[1:])
    finally:
        core.cleanup_run_dirs()
    sys.exit(rc)
