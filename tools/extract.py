#!/usr/bin/env python3
"""Fail-closed extractor: /repo (working tree) -> coq/Generated/Extracted.v.

It does not translate algorithms.  It reads, with Python's `ast`, the
syntactic facts that theorems of the development depend on (literal constants,
tables, name tuples, the NodeMixin/LightNodeMixin difference) and emits them as
Gallina constants, so that the theorems mentioning them are re-checked against
what the code says now.  An item whose source no longer has the expected shape
is reported as failed (the obligation is then broken) and the constant falls
back to the value the model was written against, so that the model still
builds and the search for a failing input can run.

Usage: extract.py [--repo /repo] [--out coq/Generated/Extracted.v] [--info build/extract.json]
"""
import ast
import hashlib
import json
import os
import sys

HERE = os.path.dirname(os.path.abspath(__file__))
VERIF = os.path.dirname(HERE)


class Shape(Exception):
    pass


def need(cond, what):
    if not cond:
        raise Shape(what)


def parse(repo, rel):
    with open(os.path.join(repo, rel), encoding="utf-8") as fh:
        return ast.parse(fh.read())


def find_class(mod, name):
    for n in mod.body:
        if isinstance(n, ast.ClassDef) and n.name == name:
            return n
    raise Shape("class %s not found" % name)


def find_func(scope, name):
    for n in scope.body:
        if isinstance(n, ast.FunctionDef) and n.name == name:
            return n
    raise Shape("function %s not found" % name)


def find_assign(scope, name):
    for n in scope.body:
        if isinstance(n, ast.Assign) and len(n.targets) == 1 and isinstance(n.targets[0], ast.Name) \
                and n.targets[0].id == name:
            return n.value
    raise Shape("assignment %s not found" % name)


def const(node, typ):
    need(isinstance(node, ast.Constant) and isinstance(node.value, typ) and not
         (typ is int and isinstance(node.value, bool)), "expected %s literal" % typ.__name__)
    return node.value


def str_tuple(node):
    need(isinstance(node, (ast.Tuple, ast.List)), "expected tuple of strings")
    return [const(e, str) for e in node.elts]


# ---------------------------------------------------------------- Coq text
def c_str(s):
    return "[" + "; ".join("%d%%N" % ord(c) for c in s) + "]"


def c_strs(ss):
    return "[" + "; ".join(c_str(s) for s in ss) + "]"


# ---------------------------------------------------------------- items
def x_maxcache(repo):
    mod = parse(repo, "anytree/resolver.py")
    v = const(find_assign(mod, "_MAXCACHE"), int)
    need(0 <= v <= 100000, "_MAXCACHE out of range")
    return "%d%%nat" % v


def x_cache_key(repo):
    """k = (pat, self.ignorecase) in Resolver.__match; the key is used for both
    the lookup and the store."""
    mod = parse(repo, "anytree/resolver.py")
    fn = find_func(find_class(mod, "Resolver"), "__match")
    k = None
    for n in fn.body:
        if isinstance(n, ast.Assign) and isinstance(n.targets[0], ast.Name) and n.targets[0].id == "k":
            k = n.value
    need(k is not None and isinstance(k, ast.Tuple), "cache key k is not a tuple")
    fields = []
    for e in k.elts:
        if isinstance(e, ast.Name) and e.id == "pat":
            fields.append("KF_pat")
        elif isinstance(e, ast.Attribute) and isinstance(e.value, ast.Name) and e.value.id == "self" \
                and e.attr == "ignorecase":
            fields.append("KF_ignorecase")
        else:
            raise Shape("unknown cache key field")
    # every subscript of _match_cache must use k
    for n in ast.walk(fn):
        if isinstance(n, ast.Subscript) and isinstance(n.value, ast.Attribute) and n.value.attr == "_match_cache":
            need(isinstance(n.slice, ast.Name) and n.slice.id == "k", "_match_cache indexed by something else than k")
    return "[" + "; ".join(fields) + "]"


def x_cache_clear(repo):
    """if len(Resolver._match_cache) >= _MAXCACHE: Resolver._match_cache.clear()"""
    mod = parse(repo, "anytree/resolver.py")
    fn = find_func(find_class(mod, "Resolver"), "__match")
    for n in ast.walk(fn):
        if isinstance(n, ast.If) and isinstance(n.test, ast.Compare) and len(n.test.ops) == 1 \
                and isinstance(n.test.left, ast.Call) and getattr(n.test.left.func, "id", None) == "len" \
                and isinstance(n.test.comparators[0], ast.Name) and n.test.comparators[0].id == "_MAXCACHE":
            op = n.test.ops[0]
            body_ok = len(n.body) == 1 and isinstance(n.body[0], ast.Expr) and isinstance(n.body[0].value, ast.Call) \
                and getattr(n.body[0].value.func, "attr", None) == "clear"
            need(body_ok, "cache eviction is not .clear()")
            if isinstance(op, ast.GtE):
                return "CC_ge"
            if isinstance(op, ast.Gt):
                return "CC_gt"
            raise Shape("cache eviction comparison")
    raise Shape("cache eviction test not found")


def x_translate(repo):
    """Resolver.__translate: per character table, prefix, suffix"""
    mod = parse(repo, "anytree/resolver.py")
    fn = find_func(find_class(mod, "Resolver"), "__translate")
    loop = [n for n in fn.body if isinstance(n, ast.For)]
    need(len(loop) == 1, "__translate loop")
    loop = loop[0]
    need(isinstance(loop.iter, ast.Name) and loop.iter.id == "pat", "__translate iterates pat")
    table = {}
    node = loop.body
    need(len(node) == 1 and isinstance(node[0], ast.If), "__translate if chain")
    cur = node[0]
    other = None
    while True:
        t = cur.test
        need(isinstance(t, ast.Compare) and isinstance(t.ops[0], ast.Eq) and isinstance(t.left, ast.Name)
             and t.left.id == "char", "__translate test")
        ch = const(t.comparators[0], str)
        need(len(cur.body) == 1 and isinstance(cur.body[0], ast.AugAssign) and isinstance(cur.body[0].op, ast.Add),
             "__translate body")
        table[ch] = const(cur.body[0].value, str)
        if len(cur.orelse) == 1 and isinstance(cur.orelse[0], ast.If):
            cur = cur.orelse[0]
            continue
        need(len(cur.orelse) == 1 and isinstance(cur.orelse[0], ast.AugAssign), "__translate else")
        v = cur.orelse[0].value
        if isinstance(v, ast.Call) and isinstance(v.func, ast.Attribute) and v.func.attr == "escape" \
                and len(v.args) == 1 and isinstance(v.args[0], ast.Name) and v.args[0].id == "char":
            other = "TE_escape"
        elif isinstance(v, ast.Name) and v.id == "char":
            other = "TE_verbatim"
        else:
            raise Shape("__translate else value")
        break
    need(set(table) == {"*", "?"}, "__translate table keys")
    ret = [n for n in fn.body if isinstance(n, ast.Return)]
    need(len(ret) == 1, "__translate return")
    r = ret[0].value
    # '(?ms)' + re_pat + '\\Z'
    need(isinstance(r, ast.BinOp) and isinstance(r.op, ast.Add) and isinstance(r.left, ast.BinOp), "__translate return shape")
    prefix = const(r.left.left, str)
    need(isinstance(r.left.right, ast.Name) and r.left.right.id == "re_pat", "__translate return middle")
    suffix = const(r.right, str)
    return {"tr_star": c_str(table["*"]), "tr_qm": c_str(table["?"]), "tr_else": other,
            "tr_prefix": c_str(prefix), "tr_suffix": c_str(suffix)}


def x_resolver_literals(repo):
    """the component literals Resolver.get/__glob compare against"""
    mod = parse(repo, "anytree/resolver.py")
    cls = find_class(mod, "Resolver")
    out = {}
    for fname, key in (("get", "get"), ("__glob", "glob")):
        fn = find_func(cls, fname)
        eqs, ins = [], []
        for n in ast.walk(fn):
            if isinstance(n, ast.Compare) and len(n.ops) == 1 and isinstance(n.left, ast.Name) \
                    and n.left.id in ("part", "name"):
                c = n.comparators[0]
                if isinstance(n.ops[0], ast.Eq) and isinstance(c, ast.Constant) and isinstance(c.value, str):
                    eqs.append(c.value)
                elif isinstance(n.ops[0], ast.In) and isinstance(c, (ast.Tuple, ast.List)):
                    ins.append(str_tuple(c))
        need(len(ins) == 1, "%s: one membership test on the component expected" % fname)
        out["lit_%s_eq" % key] = c_strs(eqs)
        out["lit_%s_stay" % key] = c_strs(ins[0])
    fn = find_func(cls, "is_wildcard")
    chars = []
    for n in ast.walk(fn):
        if isinstance(n, ast.Compare) and isinstance(n.ops[0], ast.In) and isinstance(n.left, ast.Constant):
            chars.append(const(n.left, str))
    need(chars, "is_wildcard characters")
    out["wildcard_chars"] = c_strs(chars)
    return out


def x_styles(repo):
    mod = parse(repo, "anytree/render.py")
    out = {}
    for cls_name, key in (("AsciiStyle", "style_ascii"), ("ContStyle", "style_cont"),
                          ("ContRoundStyle", "style_contround"), ("DoubleStyle", "style_double")):
        init = find_func(find_class(mod, cls_name), "__init__")
        calls = [n for n in ast.walk(init) if isinstance(n, ast.Call) and isinstance(n.func, ast.Attribute)
                 and n.func.attr == "__init__"]
        need(len(calls) == 1 and len(calls[0].args) == 3 and not calls[0].keywords, "%s.__init__ call" % cls_name)
        v, c, e = [const(a, str) for a in calls[0].args]
        out[key] = "(%s, %s, %s)" % (c_str(v), c_str(c), c_str(e))
    # empty = ' ' * len(self.end)
    empty = find_func(find_class(mod, "AbstractStyle"), "empty")
    r = [n for n in empty.body if isinstance(n, ast.Return)]
    need(len(r) == 1 and isinstance(r[0].value, ast.BinOp) and isinstance(r[0].value.op, ast.Mult), "empty shape")
    fillch = const(r[0].value.left, str)
    rhs = r[0].value.right
    need(isinstance(rhs, ast.Call) and getattr(rhs.func, "id", None) == "len" and isinstance(rhs.args[0], ast.Attribute)
         and rhs.args[0].attr == "end", "empty length")
    need(len(fillch) == 1, "empty fill char")
    out["style_empty_char"] = "%d%%N" % ord(fillch)
    return out


def _esc_class(pattern):
    need(len(pattern) >= 2 and pattern[0] == "[" and pattern[-1] == "]", "escape regex is not a character class")
    body = pattern[1:-1]
    out, i = [], 0
    need(not body.startswith("^"), "negated class")
    while i < len(body):
        ch = body[i]
        if ch == "\\":
            need(i + 1 < len(body), "dangling backslash")
            nxt = body[i + 1]
            need(not nxt.isalnum(), "class escape in escape regex")
            out.append(nxt)
            i += 2
        else:
            need(ch not in "-[]", "range or nested class in escape regex")
            out.append(ch)
            i += 1
    return out


def x_esc(repo, rel, cls):
    mod = parse(repo, rel)
    v = find_assign(mod, "_RE_ESC")
    need(isinstance(v, ast.Call) and getattr(v.func, "attr", None) == "compile" and len(v.args) == 1 and not v.keywords,
         "_RE_ESC = re.compile(<literal>)")
    chars = _esc_class(const(v.args[0], str))
    esc = find_func(find_class(mod, cls), "esc")
    r = [n for n in esc.body if isinstance(n, ast.Return)]
    need(len(r) == 1, "esc return")
    call = r[0].value
    need(isinstance(call, ast.Call) and isinstance(call.func, ast.Attribute) and call.func.attr == "sub"
         and getattr(call.func.value, "id", None) == "_RE_ESC" and len(call.args) == 2, "esc: _RE_ESC.sub(f, text)")
    lam = call.args[0]
    need(isinstance(lam, ast.Lambda) and isinstance(lam.body, ast.BinOp) and isinstance(lam.body.op, ast.Mod),
         "esc replacement lambda")
    fmt = const(lam.body.left, str)
    need(fmt.endswith("%s") and "%" not in fmt[:-2], "esc replacement format")
    g = lam.body.right
    need(isinstance(g, ast.Call) and getattr(g.func, "attr", None) == "group" and len(g.args) == 1
         and const(g.args[0], int) == 0, "esc replacement uses group(0)")
    return "[" + "; ".join("%d%%N" % ord(c) for c in chars) + "]", c_str(fmt[:-2])


def x_symlink(repo):
    mod = parse(repo, "anytree/node/symlinknodemixin.py")
    cls = find_class(mod, "SymlinkNodeMixin")
    out = {}
    for fname, key in (("__getattr__", "symlink_get_local"), ("__setattr__", "symlink_set_local")):
        fn = find_func(cls, fname)
        first = fn.body[0] if not (isinstance(fn.body[0], ast.Expr) and isinstance(fn.body[0].value, ast.Constant)) else fn.body[1]
        need(isinstance(first, ast.If) and isinstance(first.test, ast.Compare) and isinstance(first.test.ops[0], ast.In)
             and getattr(first.test.left, "id", None) == "name", "%s first test" % fname)
        out[key] = c_strs(str_tuple(first.test.comparators[0]))
    return out


def x_dict_skip(repo):
    mod = parse(repo, "anytree/exporter/dictexporter.py")
    fn = find_func(find_class(mod, "DictExporter"), "_iter_attr_values")
    tests = [n for n in ast.walk(fn) if isinstance(n, ast.Compare) and isinstance(n.ops[0], ast.In)
             and getattr(n.left, "id", None) == "k"]
    need(len(tests) == 1, "_iter_attr_values key test")
    return c_strs(str_tuple(tests[0].comparators[0]))


def x_assertions_default(repo):
    mod = parse(repo, "anytree/config.py")
    v = find_assign(mod, "ASSERTIONS")
    gets = [n for n in ast.walk(v) if isinstance(n, ast.Call) and getattr(n.func, "attr", None) == "get"]
    need(len(gets) == 1 and len(gets[0].args) == 2 and const(gets[0].args[0], str) == "ANYTREE_ASSERTIONS",
         "ASSERTIONS = bool(int(os.environ.get('ANYTREE_ASSERTIONS', <d>)))")
    d = gets[0].args[1]
    d = d.value if isinstance(d, ast.Constant) else None
    need(d in (0, 1, "0", "1", False, True), "ASSERTIONS default")
    return "true" if str(int(d)) == "1" else "false"


# ---------------------------------------------------------------- mixin diff
def _strip_doc(node):
    for n in ast.walk(node):
        if isinstance(n, (ast.FunctionDef, ast.ClassDef, ast.Module)) and n.body and isinstance(n.body[0], ast.Expr) \
                and isinstance(getattr(n.body[0], "value", None), ast.Constant) and isinstance(n.body[0].value.value, str):
            n.body = n.body[1:] or [ast.Pass()]
    return node


def _norm_dump(node, clsname):
    s = ast.dump(node, annotate_fields=False, include_attributes=False)
    return s.replace("_%s__" % clsname, "_CLS__").replace("'%s'" % clsname, "'CLS'")


def mixin_members(repo, rel, clsname):
    mod = _strip_doc(parse(repo, rel))
    cls = find_class(mod, clsname)
    members = {}
    for n in cls.body:
        if isinstance(n, ast.FunctionDef):
            key = n.name
            for d in n.decorator_list:
                if isinstance(d, ast.Attribute):
                    key = "%s.%s" % (n.name, d.attr)
                elif isinstance(d, ast.Name) and d.id != "property":
                    key = "%s@%s" % (n.name, d.id)
            members[key] = n
        elif isinstance(n, ast.Assign):
            for t in n.targets:
                members["=" + getattr(t, "id", "?")] = n
        elif isinstance(n, ast.Pass):
            continue
        else:
            members["?%d" % n.lineno] = n
    return members


def x_mixin_hunks(repo):
    """members (by name) whose normalised AST differs between NodeMixin and
    LightNodeMixin; for a member that differs only by leading statements that
    NodeMixin has in addition (the type checks), the hunk is "<name>+<k>"."""
    a = mixin_members(repo, "anytree/node/nodemixin.py", "NodeMixin")
    b = mixin_members(repo, "anytree/node/lightnodemixin.py", "LightNodeMixin")
    hunks = []
    for key in sorted(set(a) | set(b)):
        if key not in b:
            hunks.append("only_node:" + key)
        elif key not in a:
            hunks.append("only_light:" + key)
        else:
            da = _norm_dump(a[key], "NodeMixin")
            db = _norm_dump(b[key], "LightNodeMixin")
            if da != db:
                # does NodeMixin's version only add isinstance type-check statements?
                extra = _extra_typecheck(a[key], b[key])
                hunks.append(("typecheck:" if extra else "differs:") + key)
    return c_strs(hunks)


def _is_typecheck(stmt):
    """if <...> not isinstance(x, (NodeMixin, LightNodeMixin)): msg = ...; raise TreeError(msg)"""
    if not isinstance(stmt, ast.If) or stmt.orelse:
        return False
    has_isinst = any(isinstance(n, ast.Call) and getattr(n.func, "id", None) == "isinstance" for n in ast.walk(stmt.test))
    raises = [n for n in stmt.body if isinstance(n, ast.Raise)]
    ok_raise = len(raises) == 1 and isinstance(raises[0].exc, ast.Call) and getattr(raises[0].exc.func, "id", None) == "TreeError"
    return has_isinst and ok_raise and all(isinstance(n, (ast.Assign, ast.Raise)) for n in stmt.body)


def _extra_typecheck(fa, fb):
    """True iff removing the type-check statements from NodeMixin's function
    gives LightNodeMixin's function"""
    import copy
    fa = copy.deepcopy(fa)

    class Rm(ast.NodeTransformer):
        def visit_If(self, node):
            if _is_typecheck(node):
                return None
            return self.generic_visit(node)
    fa = Rm().visit(fa)
    return _norm_dump(fa, "NodeMixin") == _norm_dump(fb, "LightNodeMixin")


# ---------------------------------------------------------------- fingerprints
FINGERPRINT_FILES = [
    "anytree/node/nodemixin.py", "anytree/node/lightnodemixin.py", "anytree/node/node.py",
    "anytree/node/anynode.py", "anytree/node/symlinknode.py", "anytree/node/symlinknodemixin.py",
    "anytree/node/util.py", "anytree/node/exceptions.py", "anytree/config.py",
    "anytree/iterators/abstractiter.py", "anytree/iterators/preorderiter.py",
    "anytree/iterators/postorderiter.py", "anytree/iterators/levelorderiter.py",
    "anytree/iterators/levelordergroupiter.py", "anytree/iterators/zigzaggroupiter.py",
    "anytree/search.py", "anytree/cachedsearch.py", "anytree/walker.py", "anytree/resolver.py",
    "anytree/render.py", "anytree/util/__init__.py", "anytree/dotexport.py",
    "anytree/exporter/dictexporter.py", "anytree/exporter/jsonexporter.py",
    "anytree/exporter/dotexporter.py", "anytree/exporter/mermaidexporter.py",
    "anytree/importer/dictimporter.py", "anytree/importer/jsonimporter.py",
]


def fingerprints(repo):
    out = {}
    for rel in FINGERPRINT_FILES:
        try:
            mod = _strip_doc(parse(repo, rel))
            out[rel] = hashlib.sha256(ast.dump(mod, include_attributes=False).encode()).hexdigest()[:16]
        except Exception as e:  # syntax error, missing file
            out[rel] = "ERROR:%s" % type(e).__name__
    return out


# ---------------------------------------------------------------- driver
# name -> (extractor, fallback Coq text or dict, properties that depend on it)
FALLBACK = {
    "maxcache": "20%nat",
    "cache_key": "[KF_pat; KF_ignorecase]",
    "cache_clear": "CC_ge",
    "tr_star": c_str(".*"), "tr_qm": c_str("."), "tr_else": "TE_escape",
    "tr_prefix": c_str("(?ms)"), "tr_suffix": c_str("\\Z"),
    "lit_get_eq": c_strs([".."]), "lit_get_stay": c_strs(["", "."]),
    "lit_glob_eq": c_strs(["..", "**"]), "lit_glob_stay": c_strs(["", "."]),
    "wildcard_chars": c_strs(["?", "*"]),
    "style_ascii": "(%s, %s, %s)" % (c_str("|   "), c_str("|-- "), c_str("+-- ")),
    "style_cont": "(%s, %s, %s)" % (c_str("│   "), c_str("├── "), c_str("└── ")),
    "style_contround": "(%s, %s, %s)" % (c_str("│   "), c_str("├── "), c_str("╰── ")),
    "style_double": "(%s, %s, %s)" % (c_str("║   "), c_str("╠══ "), c_str("╚══ ")),
    "style_empty_char": "32%N",
    "dot_esc_class": "[34%N; 92%N]", "dot_esc_prefix": c_str("\\"),
    "mermaid_esc_class": "[34%N; 92%N]", "mermaid_esc_prefix": c_str("\\"),
    "symlink_get_local": c_strs(["_NodeMixin__parent", "_NodeMixin__children"]),
    "symlink_set_local": c_strs(["_NodeMixin__parent", "_NodeMixin__children", "parent", "children", "target"]),
    "dict_skip_keys": c_strs(["_NodeMixin__children", "_NodeMixin__parent"]),
    "assertions_default": "false",
}
TYPES = {
    "maxcache": "nat", "cache_key": "list keyfield", "cache_clear": "cacheclear",
    "tr_star": "list N", "tr_qm": "list N", "tr_else": "trelse", "tr_prefix": "list N", "tr_suffix": "list N",
    "lit_get_eq": "list (list N)", "lit_get_stay": "list (list N)",
    "lit_glob_eq": "list (list N)", "lit_glob_stay": "list (list N)", "wildcard_chars": "list (list N)",
    "style_ascii": "(list N * list N * list N)", "style_cont": "(list N * list N * list N)",
    "style_contround": "(list N * list N * list N)", "style_double": "(list N * list N * list N)",
    "style_empty_char": "N",
    "dot_esc_class": "list N", "dot_esc_prefix": "list N",
    "mermaid_esc_class": "list N", "mermaid_esc_prefix": "list N",
    "symlink_get_local": "list (list N)", "symlink_set_local": "list (list N)",
    "dict_skip_keys": "list (list N)", "assertions_default": "bool",
}
# which properties' proof obligations mention which constants
USED_BY = {
    "maxcache": ["C08"], "cache_key": ["C08"], "cache_clear": ["C08"],
    "tr_star": ["C08"], "tr_qm": ["C08"], "tr_else": ["C08"], "tr_prefix": ["C08"], "tr_suffix": ["C08"],
    "lit_get_eq": ["C07"], "lit_get_stay": ["C07"], "lit_glob_eq": ["C08"], "lit_glob_stay": ["C08"],
    "wildcard_chars": ["C08"],
    "style_ascii": ["C09"], "style_cont": ["C09"], "style_contround": ["C09"], "style_double": ["C09"],
    "style_empty_char": ["C09"],
    "dot_esc_class": ["C12"], "dot_esc_prefix": ["C12"], "mermaid_esc_class": ["C13"], "mermaid_esc_prefix": ["C13"],
    "symlink_get_local": ["C20"], "symlink_set_local": ["C20"], "dict_skip_keys": ["C10"],
    "assertions_default": ["C01"],
}


def run_items(repo):
    values, failed = {}, {}

    def single(name, fn):
        try:
            values[name] = fn()
        except Exception as e:
            failed[name] = "%s: %s" % (type(e).__name__, e)

    def multi(names, fn):
        try:
            d = fn()
            for n in names:
                values[n] = d[n]
        except Exception as e:
            for n in names:
                failed[n] = "%s: %s" % (type(e).__name__, e)

    single("maxcache", lambda: x_maxcache(repo))
    single("cache_key", lambda: x_cache_key(repo))
    single("cache_clear", lambda: x_cache_clear(repo))
    multi(["tr_star", "tr_qm", "tr_else", "tr_prefix", "tr_suffix"], lambda: x_translate(repo))
    multi(["lit_get_eq", "lit_get_stay", "lit_glob_eq", "lit_glob_stay", "wildcard_chars"], lambda: x_resolver_literals(repo))
    multi(["style_ascii", "style_cont", "style_contround", "style_double", "style_empty_char"], lambda: x_styles(repo))

    def dot():
        c, p = x_esc(repo, "anytree/exporter/dotexporter.py", "DotExporter")
        return {"dot_esc_class": c, "dot_esc_prefix": p}

    def mer():
        c, p = x_esc(repo, "anytree/exporter/mermaidexporter.py", "MermaidExporter")
        return {"mermaid_esc_class": c, "mermaid_esc_prefix": p}
    multi(["dot_esc_class", "dot_esc_prefix"], dot)
    multi(["mermaid_esc_class", "mermaid_esc_prefix"], mer)
    multi(["symlink_get_local", "symlink_set_local"], lambda: x_symlink(repo))
    single("dict_skip_keys", lambda: x_dict_skip(repo))
    single("assertions_default", lambda: x_assertions_default(repo))
    return values, failed


def render(values, failed):
    lines = ["(** GENERATED by tools/extract.py from /repo's working tree on every run. DO NOT EDIT. *)",
             "From Coq Require Import List NArith.", "Import ListNotations.",
             "Require Import AT.Generated.Types.", ""]
    for name in FALLBACK:
        v = values.get(name, FALLBACK[name])
        tag = "" if name in values else " (* EXTRACTION FAILED: fallback value *)"
        lines.append("Definition %s : %s := %s.%s" % (name, TYPES[name], v, tag))
    lines.append("")
    return "\n".join(lines)


def main(argv):
    repo = "/repo"
    out = os.path.join(VERIF, "coq", "Generated", "Extracted.v")
    info = os.path.join(VERIF, "build", "extract.json")
    i = 0
    while i < len(argv):
        if argv[i] == "--repo":
            repo = argv[i + 1]; i += 2
        elif argv[i] == "--out":
            out = argv[i + 1]; i += 2
        elif argv[i] == "--info":
            info = argv[i + 1]; i += 2
        else:
            raise SystemExit("unknown argument " + argv[i])
    values, failed = run_items(repo)
    text = render(values, failed)
    old = None
    if os.path.exists(out):
        with open(out, encoding="utf-8") as fh:
            old = fh.read()
    if old != text:
        os.makedirs(os.path.dirname(out), exist_ok=True)
        with open(out, "w", encoding="utf-8") as fh:
            fh.write(text)
    changed = {n: values[n] for n in values if values[n] != FALLBACK[n]}
    os.makedirs(os.path.dirname(info), exist_ok=True)
    with open(info, "w") as fh:
        json.dump({"failed": failed, "changed_from_expected": changed, "fingerprints": fingerprints(repo),
                   "used_by": USED_BY}, fh, indent=1, sort_keys=True)
    return 0


if __name__ == "__main__":
    sys.exit(main(sys.argv[1:]))
