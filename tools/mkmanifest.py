#!/usr/bin/env python3
"""Writes /verif/MANIFEST.json from the table below (kept in one place so the
manifest stays valid while checks are added)."""
import json
import os

VERIF = os.path.dirname(os.path.dirname(os.path.abspath(__file__)))

COMMON_NOTE = ("Trusted: Coq 8.16.1 kernel and VM (vm_compute; no native_compute); tools/extract.py; the Python "
               "harness (tools/impl, tools/props) that runs /repo's code and writes the case shards; the hand-written "
               "Gallina model is tied to /repo by the correspondence run of this check (exhaustive small scope + "
               "random), not by construction. Axioms per theorem as printed by Print Assumptions are copied into the "
               "evidence (trusted_base); the thorough tier adds coqchk -o of the property's file. Beyond what the text "
               "above lists, the case sets include: node classes with user-defined special methods (eight kinds, one of "
               "them tuple-based) in every tree-building check, start nodes that are not roots, SymlinkNode-mixed and "
               "all-__slots__ trees, degenerate trees of 450-700 levels under the default recursion limit (C02, C05, "
               "C15), loop refusals on chains deeper than the recursion limit (C01, C02), children arguments passed as "
               "one-shot iterables (C02), link nodes whose target is an inner node of an already inspected tree "
               "(C01-C03, C16, C18), and a regression corpus of minimal failing inputs from 198 seeded changes "
               "(DESIGN.md section 0).")

CHECKS = {
    "C14": dict(
        text="Theorems (all inputs): findall = count rule applied to filter f (preorder (prune stop maxlevel t)); "
             "CountError iff below mincount / above maxcount with both numbers; find; *_by_attr skip nodes lacking "
             "the attribute; cachedsearch wrappers are the same functions. Tie: the real search/cachedsearch "
             "functions are run on every tree shape <= 4 nodes x filter/stop/maxlevel/bounds/attribute assignments "
             "and compared inside Coq with Model and Spec.",
        design="6/C14",
        note="fastcache absent (forwarding wrapper is what runs); CountError numbers parsed from the message.",
        technique="Coq proof (model = spec for all inputs) + exhaustive small-scope model/implementation correspondence evaluated with vm_compute"),
    "C05": dict(
        text="Theorems (all trees): with default arguments the five iterator transcriptions equal the structural "
             "preorder / postorder / levels (concat, grouped, zig-zag) definitions; each output is a duplicate-free "
             "permutation of the pre-order when node identities are distinct - which holds for the unfolding below every "
             "node of every consistent link state (C05_exactly_once_on_every_forest, via C01). Tie: every shape <= 6 nodes (every start "
             "node, standalone and embedded in a larger tree) + random trees, all five real iterators drained and "
             "compared in Coq; tree unchanged afterwards; each case also carries the raw parent/children links of the "
             "live objects and the driver requires tree_of (Model/Abs.v) of those links to equal the iterated tree "
             "(the abstraction function run against the code).",
        design="6/C05", note="Generator laziness is not modelled (outputs compared as lists).",
        technique="Coq proof (instance of the C06 theorems + permutation lemmas) + exhaustive small-scope correspondence"),
    "C06": dict(
        text="Theorems (all trees, filters, stop predicates, maxlevel in Z or None): each of the five iterator "
             "transcriptions (incl. the fuelled worklist loops, fuel proved sufficient) equals its unrestricted order on "
             "prune stop maxlevel t filtered by filter_; prune = the pointwise admitted set of the statement; same "
             "multiset for all five; the relative-order theorems hold outright on every tree unfolded from a consistent link "
             "state (C06_order_on_every_forest); maxlevel <= 0 yields nothing; the relative order of any two yielded nodes is the "
             "unrestricted order's (C06_order_pre/post/level: subsequence theorems). Tie: every shape <= 4 nodes x all stop subsets x all "
             "filter subsets x maxlevel in {None,-1,0..h+2}, plus 5-node shapes and random larger trees.",
        design="6/C06", note="filter_/stop are pure predicates; laziness not modelled.",
        technique="Coq proof by nested tree induction / loop invariant over fuel + exhaustive small-scope correspondence"),
    "C01": dict(
        text="Theorems: C01_step - every call (three assignments + constructors), any arguments, any hook-fault oracle, both "
             "mixins, both assertion settings, any re-entrancy fuel keeps the link state a consistent forest (Inv), "
             "including refused, hook-aborted and half-rolled-back calls; C01_history by induction over histories; the "
             "statement's clauses as corollaries of Inv; inv_b (evaluated on observed link maps) <-> Inv; C01_assertions: "
             "under Inv a run with ANYTREE_ASSERTIONS on is the same run as with it off - every call, any fault oracle, "
             "any fuel (relational Hoare logic over the setter monad, Proofs/MutAssert.v); C01_forest_partition / "
             "C01_forest_after_every_history: under Inv - hence after every history - each node lies in the unfolding "
             "(tree_of) of exactly one parentless node, the unfolding is closed under children, stays inside one tree "
             "and lists no node twice; C01_roots_partition_universe: the roots' unfoldings concatenated are a "
             "permutation of the node universe. "
             "Tie: every forest <= 3 nodes "
             "x every call x 5 classes x all single fault positions / persistent vetoes / sampled doubles x "
             "ANYTREE_ASSERTIONS 0/1 + random live histories, a sixth of the cases on node classes with user-defined "
             "__eq__/__bool__/__len__/__hash__; observed maps compared with the model and fed to inv_b.",
        design="6/C01, 0", note="Hooks that restructure the tree are outside C01's quantifier; the harmless subclass (detaching other nodes) is covered under C16.",
        technique="Coq proof (invariant preservation through a state+exception monad, induction over histories) + exhaustive small-scope fault-injection correspondence"),
    "C02": dict(
        text="Theorems: exact outcome (LoopError/TreeError iff), final link state (pointwise: what changes and that "
             "nothing else does) and hook log of every fault-free call from any consistent state: C02_parent, C02_del, "
             "C02_children (detach all former children in order, attach the new ones in order), C02_children_treeerror / "
             "_not_iterable / _looperror (refusals), C02_constructors (= creation of a detached node followed by the "
             "assignments); C02_quiet_oracle_is_fault_free lifts them to every fault oracle that does not fire "
             "during the call; the frame clause as trees - C02_move_frame_trees, C02_move_keeps_subtree: after a parent "
             "assignment the unfolding (tree_of) below every node showing neither the old nor the new parent is the same "
             "tree, and the moved node takes its whole subtree along. "
             "Tie: every forest <= 3 nodes (all) and 4 nodes (sampled) x every call (node, None, non-node "
             "incl. falsy non-node arguments) x 5 classes + adversarial classes + random histories; the pointwise spec "
             "is also evaluated on the observed states.",
        design="6/C02, 0", note="fault-free calls; calls with raising hooks are C03/C16's subject.",
        technique="Coq proof (symbolic execution of setter/deleter/constructor monads) + exhaustive small-scope correspondence against a pointwise spec evaluated in Coq"),
    "C03": dict(
        text="The full statement is false of the code (5 known-finding classes, each reproduced and listed). Proved: "
             "C03_parent_guarded (exact boundary for the parent setter under any fault oracle), validation refusals and "
             "_pre_detach_children veto of the children setter/deleter, and five _refuted theorems with witnesses "
             "computed on the faithful model; a positive boundary inside the attach phase: a veto by "
             "_pre_attach_children alone, or by the _pre_attach of the first new child while it has no parent, is rolled "
             "back completely (C03_children_pre_attach_veto_restores, C03_children_first_pre_attach_veto_restores, using the "
             "oracle-extensionality lemmas of Proofs/FaultExt.v). Tie: every forest <= 3 nodes x every call x every single fault position x "
             "persistent pre-hook vetoes x sampled doubles; spec 'refusal/pre-veto => links unchanged' evaluated in Coq "
             "on observed states; failures must fall in a listed class AND equal the model, else VIOLATION.",
        design="6/C03, 7", note="partial: guarded theorem for the attach phase of the children setter not proved.",
        technique="Coq proof of the atomic fragment + refutation witnesses + exhaustive fault-injection correspondence with known-finding classes"),
    "C16": dict(
        text="Theorems for the parent setter: exact log with state snapshots of every fault-free change, silence of "
             "no-op and refused assignments, enumeration of every possible ending under any fault oracle (sp_end), "
             "post-hook faults do not roll back, what each hook observes; C16_del_log and C16_children_log: exact "
             "wrapping of the per-child calls by the *_children hooks with the state each observes; "
             "C16_log_explains_state: for EVERY call, fault oracle, assertion setting and fuel the final link state is the "
             "initial one changed exactly as the logged _post_detach/_post_attach invocations report (no silent link "
             "change, no unreported rollback); C16_reentrant_hooks: hooks of the moving node that detach OTHER nodes "
             "while the setter runs keep the forest consistent and still observe the promised states (Model/Reentry.v, "
             "tied by its own correspondence family). Tie: every forest <= 3 nodes x every "
             "call with all eight hooks logging kind/node/argument/complete link map.",
        design="6/C16, 0", note="hooks that detach other nodes are modelled (Reentry); hooks that move the node being moved, or attach nodes, are outside the model (the unchanged code breaks C01 under them).",
        technique="Coq proof (symbolic execution of the setter monad) + exhaustive correspondence of hook logs with state snapshots"),
    "C18": dict(
        text="Theorem C18_lockstep - for node arguments the two mixins' setters are the same function (all faults, "
             "states, fuel); C18_lockstep_histories / C18_lockstep_final_forest lift it to every history of such calls "
             "(per-call fault oracle, assertion setting and fuel): each call's outcome, hook log and resulting forest "
             "coincide. The read-only queries have one Gallina function each (the query model does not know which "
             "mixin built the tree), so the theorems of C04-C09, C14, C15 are about both. Tie: (1) lock-step execution of "
             "a NodeMixin and a LightNodeMixin (__slots__) subclass on every forest <= 3 nodes x every call x faults, also "
             "on adversarial classes: outcomes, link maps and hook logs equal each other and the model; (2) the quick case "
             "sets of C04 (navigation), C15 (Walker), C06 (iterators), C14 (search), C07/C08 (Resolver) and C09 "
             "(RenderTree rows) re-run on LightNodeMixin trees must equal the model, i.e. the NodeMixin behaviour.",
        design="6/C18, 0", note="An earlier generated obligation (AST difference of the two source files) alarmed on harmless refactorings of one file and was replaced by the behavioural tie (2).",
        technique="Coq proof (pointwise monad equality) + lock-step correspondence + query correspondence on LightNodeMixin trees"),
    "C04": dict(
        text="Theorems (all trees, all positions): path/ancestors/root/depth (fuelled upward walks never run out), "
             "is_root/is_leaf, siblings, descendants, leaves, size, height, leftsibling/rightsibling transcriptions equal "
             "their definitions over (root tree, position); commonancestors = prefixes of the longest common prefix of "
             "all arguments; bridge to the link state: for every consistent heap the tree of a root (tree_of) has the "
             "heap's children lists and parent pointers at every position (C04_tree_of_heap/_children_agree/"
             "_parent_agree) and conversely whenever the children lists below a node spell out a tree t the unfolding "
             "is t (C04_unfolding_of_spelled_links - the premise the harnesses establish on the live objects). "
             "Tie: every shape <= 5 nodes x every node x commonancestors argument lists, AnyNode/"
             "NodeMixin/LightNodeMixin/SymlinkNode-mixed classes and adversarial special-method classes, a quarter of "
             "the trees reached through mutation histories before reading.",
        design="6/C04, 0", note="node = (tree, position); the heap bridge is the abstraction function of Model/Abs.v.",
        technique="Coq proof (induction over positions/trees) + exhaustive small-scope correspondence"),
    "C15": dict(
        text="Theorems: the zip-filter of the two root paths is the prefix list of the longest common prefix; walk = "
             "(reversed tail of start path, node at lcp, tail of end path); lcp is the lowest common ancestor; mirror; "
             "WalkError iff different trees. Tie: every forest <= 5 nodes x every ordered node pair.",
        design="6/C15", note="nodes are (tree index, position).",
        technique="Coq proof + exhaustive small-scope correspondence"),
    "C12": dict(
        text="Theorems: node statements = C06 pre-order; edge statements = all parent-child pairs with both ends admitted "
             "and filtered (pointwise edges_ann) under the exact guard 'no declared parent has a child with stop and "
             "filter_' (holds for every export without stop, every maxlevel incl. 0 after the fix: 04bedb8); C12_edges_exact: "
             "for ALL arguments the emitted edges are edges_dot (children iterated without stop), and no link between two "
             "declared nodes is ever missing (C12_no_link_missing) - the stop case only adds edges to undeclared nodes: "
             "refutation witness C12_stop_refuted (known finding KF-C12-1, pinned by tests/refdata); escaping round-trip / "
             "injective / well-formed on the character class extracted from /repo; unique-id table defined/stable/"
             "injective and the printed '0x..' identifiers distinct per node (C12_hex_injective, "
             "C12_unique_names_distinct); verbatim placement. Tie: exact line text of DotExporter/UniqueDotExporter/RenderTreeGraph on "
             "every shape <= 4 nodes x stop subsets x filter subsets x maxlevel + random rich cases (special characters, "
             "custom functions, options, indent, file output), each exporter iterated twice.",
        design="6/C12, 7 (D7, D8)", note="str()/file I/O are CPython's.",
        technique="Coq proof (guarded edge theorem + refutation) + exact-text correspondence + known-finding class"),
    "C13": dict(
        text="Theorems: node lines = C06 pre-order; edge lines = exactly the parent-child pairs with both ends admitted "
             "and filtered, for every filter_/stop/maxlevel (maxlevel=0 after the fix: commit 04bedb8); default label "
             "escaping round-trip/well-formed on the extracted class; id table stable/injective, printed 'N<k>' "
             "identifiers distinct per node (C13_names_distinct); verbatim placement. "
             "Tie: exact line text on every shape <= 4 nodes x stop x filter x maxlevel + random rich cases; to_file "
             "fencing checked by the harness.",
        design="6/C13", note="str()/file I/O are CPython's.",
        technique="Coq proof + exact-text correspondence"),
    "C07": dict(
        text="Theorems: strict get = the component-wise fold of the statement with the first failing component's error "
             "class; relax=True returns None exactly where strict raises and never raises (true after fix: e36f5bb; D5); "
             "root-component handling strict vs relaxed; the names down to a node and the Walker-spelled relative path "
             "resolve to it under sibling-unique ordinary names; string level: split (join parts) = parts for clean parts "
             "(C07_split_join) and the absolute path string of a node resolves to it (C07_abs_roundtrip); the "
             "collision class outside these hypotheses is known finding KF-C07-2 (exact guard evaluated in Coq). Tie: trees <= 4 nodes x name pools with metacharacters x paths "
             "<= 3 components x ignorecase/relax/separator/pathattr, round trips for every node pair.",
        design="6/C07, 7 (D5, D12)", note="ASCII names when ignorecase; str(getattr) shipped by Python.",
        technique="Coq proof (fold, relax-vs-strict simulation, round trips) + correspondence + known-finding class"),
    "C08": dict(
        text="Theorems: the compiled regex (table/prefix/anchor extracted from /repo) matches iff the declarative "
             "wildcard relation; cache invariant and history independence for the extracted key (pattern, ignorecase) "
             "incl. eviction; refutation witness for 'strict = relaxed or raises' (KF-C08-1); relaxed glob never raises "
             "(C08_relaxed_total) and yields exactly the denotation of the component list (C08_relaxed_den: membership "
             "iff); without '**'/'..' the result is a subsequence of the (duplicate-free) pre-order of the start node's "
             "subtree (C08_relaxed_preorder) and it is duplicate-free whenever no '..' follows a name or wildcard "
             "component (C08_relaxed_nodup); in strict mode glob agrees with get (same node, same error class) on "
             "wildcard-free paths over sibling-unique names, component lists and whole path strings "
             "(C08_strict_agrees_with_get[_path]). All clauses are also evaluated in Coq on observed results. Tie: patterns over names/wildcards/**/../. on trees <= 4 nodes, glob vs get, 60-call cache "
             "histories across _MAXCACHE each compared with cold-cache runs.",
        design="6/C08, 7 (D6), 0", note="strict-vs-relaxed clause refuted (KF-C08-1); everything else proved.",
        technique="Coq proof (matcher, cache invariant) + refutation + correspondence with denotational spec evaluated in Coq"),
    "C10": dict(
        text="Theorems: export with default iterators = structural map of the tree cut at maxlevel (bookkeeping keys from "
             "the extracted skip list dropped, 'children' iff non-empty, fuel sufficient); import_(export(t)) = t cut at "
             "maxlevel (shape, child order, attributes); export(import_(d)) = d up to empty 'children' lists; "
             "C10_export_iterators: for any attriter and any childiter that selects/reorders its argument the result is the "
             "structural image of the tree with both applied at every level; 'children' is never an empty list. Tie: every shape <= 5 nodes x random "
             "attribute dictionaries x maxlevel x attriter x childiter x dictcls x {AnyNode, Node, user NodeMixin}, both "
             "directions, arbitrary dictionaries, arguments deep-copied and compared.",
        design="6/C10", note="values are opaque tokens; node classes with an instance __dict__.",
        technique="Coq proof (mutual inverse theorems) + correspondence"),
    "C11": dict(
        text="Theorems: export = dumps of the dict export for the maxlevel in force; write/read same as export/import_; "
             "round trip under the codec hypothesis loads(dumps d) = d (a Section hypothesis - CPython's json is not "
             "modelled; the harness checks the hypothesis on every exported value). Tie: C10's trees with JSON values "
             "(non-ASCII, control characters, nested, None, booleans, big ints, floats) x option sets x maxlevel x "
             "custom/default dictexporter, write/read via StringIO and a real file, text compared with json.dumps of the "
             "dict export.",
        design="6/C11", note="partial by nature: codec assumed (checked on explored values).",
        technique="Coq proof parametrised by the codec + correspondence"),
    "C09": dict(
        text="Theorems: C09_rows - for every tree, style, maxlevel and every childiter that selects/reorders the given "
             "children, the generator's rows are exactly the pointwise rows of the statement on the rendered tree "
             "(pre-order, bar/blank per ancestor with a following sibling, continue/end branch), fuel sufficient; widths "
             "for equal-width styles; the four extracted built-in styles are equal-width; text line rule; C09_reconstruct: "
             "two rendered trees whose rows have prefixes of the same widths have the same shape (the depth sequence in "
             "pre-order determines the tree). Tie: every shape <= 5 nodes x maxlevel x 5 childiters x 6 styles "
             "x value kinds x selectors, rows and full text compared; Node/AnyNode reprs against the _repr model.",
        design="6/C09", note="repr/str/splitlines are CPython's (lines shipped); Node repr modelled for plainly quotable names.",
        technique="Coq proof (generator = structural rows = pointwise rows) + correspondence"),
    "C17": dict(
        text="Every structural function of the model is defined without access to the record of user special methods "
             "(Model/Special.v); theorems state the boundary of the two functions that did consult them before their "
             "repair (fix: be4b49c, 01faf79): refutation witnesses for always-equal / falsy classes, agreement for "
             "identity-like classes, identity-only after the repair; naturality theorems: for ANY relabelling g of the nodes "
             "(injective or not - distinct nodes may 'compare equal') each of the five iterators with any filter_/stop/"
             "maxlevel yields on the relabelled tree the relabelled result, and positions do not depend on labels "
             "(C17_*_natural, C17_positions_label_free). The weight is on the tie: the case sets of C01, "
             "C04-C09, C12-C15 re-run on node classes with 8 kinds of adversarial, logging special methods must equal "
             "the model and log no invocation.",
        design="6/C17, 7 (D9, D10)", note="thin by nature: which operation dispatches to which special method is CPython's.",
        technique="Coq model without special-method access + refutation/guard theorems + adversarial-class correspondence reusing all other drivers"),
    "C19": dict(
        text="Partial by nature (the copier is CPython's). Proved: in a consistent forest the object graph reachable from "
             "any entry node through parent/children/target references contains its whole tree and the targets' trees; "
             "an isomorphic copy of a closed part of a consistent forest is a consistent forest "
             "(C19_isomorphic_copy_consistent: the contract clauses imply the C01 invariant of the copy) and is "
             "isomorphic to the original as a tree at every depth (C19_copy_isomorphic_tree: tree_of of the copy is the "
             "renamed tree_of of the original; pre- and post-order follow by naturality); the "
             "consistency check evaluated on copies is the C01 invariant. The contract of the copier is evaluated in "
             "Coq on every explored copy: reachable set, bijective renaming, shape, child order, classes, attributes, "
             "symlink targets, entry position, inv_b. Tie: every shape <= 4 nodes with mixed classes, a second tree, "
             "links (same tree / other tree / link to link) or all-__slots__ LightNodeMixin; every entry node; deepcopy "
             "and pickle protocols 0-5; copy and original mutated in turn.",
        design="6/C19", note="pickle/deepcopy mechanics (__reduce_ex__, __setstate__, recursion limits) are outside the model.",
        technique="Coq proof (reachability) + isomorphism/consistency predicate evaluated in Coq on observed copies"),
    "C20": dict(
        text="Theorems: reading a data attribute through a link chain of any length reads the final target's dictionary "
             "(AttributeError iff absent; refused-name tuples extracted from /repo); writing writes it; write-then-read "
             "through every object with the same final target; the invariant (links hold no data attributes) is "
             "preserved; C20_class_attributes_conservative: the extended model for classes that define attributes "
             "themselves (class attribute of a link subclass, read-only property of a target class, Model/SymlinkX.v) is "
             "the core model when no class does. Structural independence holds by the types of the model and is checked on the implementation by "
             "the harness. Defect D13 (constructor kwargs of a link to a link) repaired by fix: acc44ab. Tie: random "
             "interleavings of object creation (links to links), writes, reads, moves and children assignments.",
        design="6/C20", note="attribute lookup order is CPython's; 'every other attribute' = data attributes.",
        technique="Coq proof (refinement to the final target's dictionary) + correspondence"),
}

NOT_YET = "check not built yet in this round (work in progress; see DESIGN.md section 6 for the plan)"


def main():
    props = [json.loads(l) for l in open(os.path.join(VERIF, "properties.jsonl"))]
    checks, na = [], []
    for p in props:
        pid = p["id"]
        if pid in CHECKS:
            c = CHECKS[pid]
            checks.append({
                "property_id": pid,
                "quick_cmd": "python3 tools/check.py %s --tier quick" % pid,
                "thorough_cmd": "python3 tools/check.py %s --tier thorough" % pid,
                "evidence_file": "evidence/%s.json" % pid,
                "replay_cmd_template": "python3 tools/replay.py {path}",
                "engine": "coq-model-correspondence",
                "level_claimed": {"category": "proof", "text": c["text"], "design_ref": c["design"]},
                "level_note": c["note"] + " " + COMMON_NOTE,
                "technique": c["technique"],
            })
        else:
            na.append({"property_id": pid, "reason": NOT_YET})
    m = {
        "version": 1,
        "setup_cmd": "python3 tools/check.py --setup",
        "hooks": {"guard": "ANYTREE_VERIF", "enable": "no source hooks are needed: the notification hooks and "
                  "adversarial special methods live in harness subclasses (tools/impl); checks run /repo's working "
                  "tree with PYTHONPATH=/repo",
                  "baseline_off_cmd": "cd /repo && /venv/bin/python -m pytest -ra -q -p no:cacheprovider --timeout=900 "
                                      "--continue-on-collection-errors",
                  "source_commits": [], "add_only": True},
        "engines": [{"name": "coq-model-correspondence", "path": "tools/check.py",
                     "serves_properties": sorted(CHECKS),
                     "kind_free_text": "Coq 8.16 development (coq/) with theorems per property + correspondence of the "
                                       "executable model with /repo's implementation evaluated by vm_compute"}],
        "checks": checks,
        "not_applicable": na,
        "notes": "See DESIGN.md. known_findings.json lists genuine defects that are recorded rather than repaired.",
    }
    with open(os.path.join(VERIF, "MANIFEST.json"), "w") as fh:
        json.dump(m, fh, indent=1)
    print("MANIFEST.json: %d checks, %d not yet claimed" % (len(checks), len(na)))


if __name__ == "__main__":
    main()
