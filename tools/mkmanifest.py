#!/usr/bin/env python3
"""Writes /verif/MANIFEST.json from the table below (kept in one place so the
manifest stays valid while checks are added)."""
import json
import os

VERIF = os.path.dirname(os.path.dirname(os.path.abspath(__file__)))

COMMON_NOTE = ("Trusted: Coq 8.16.1 kernel and VM (vm_compute; no native_compute); tools/extract.py; the Python "
               "harness (tools/impl, tools/props) that runs /repo's code and writes the case shards; the hand-written "
               "Gallina model is tied to /repo by the correspondence run of this check (exhaustive small scope + "
               "random), not by construction. Axioms per theorem as printed by Print Assumptions are copied into the "
               "evidence (trusted_base).")

CHECKS = {
    "C14": dict(
        text="Theorems (all inputs): findall = count rule applied to filter f (preorder (prune stop maxlevel t)); "
             "CountError iff below mincount / above maxcount with both numbers; find; *_by_attr skip nodes lacking "
             "the attribute; cachedsearch wrappers are the same functions. Tie: the real search/cachedsearch "
             "functions are run on every tree shape <= 4 nodes x filter/stop/maxlevel/bounds/attribute assignments "
             "and compared inside Coq with Model and Spec.",
        design="6/C14",
        note="fastcache absent (forwarding wrapper is what runs); CountError numbers parsed from the message.",
        technique="Coq proof (model = spec for all inputs) + exhaustive small-scope model/implementation correspondence evaluated with vm_compute"),
    "C05": dict(
        text="Theorems (all trees): with default arguments the five iterator transcriptions equal the structural "
             "preorder / postorder / levels (concat, grouped, zig-zag) definitions; each output is a duplicate-free "
             "permutation of the pre-order when node identities are distinct. Tie: every shape <= 6 nodes (every start "
             "node, standalone and embedded in a larger tree) + random trees, all five real iterators drained and "
             "compared in Coq; tree unchanged afterwards.",
        design="6/C05", note="Generator laziness is not modelled (outputs compared as lists).",
        technique="Coq proof (instance of the C06 theorems + permutation lemmas) + exhaustive small-scope correspondence"),
    "C06": dict(
        text="Theorems (all trees, filters, stop predicates, maxlevel in Z or None): each of the five iterator "
             "transcriptions (incl. the fuelled worklist loops, fuel proved sufficient) equals its unrestricted order on "
             "prune stop maxlevel t filtered by filter_; prune = the pointwise admitted set of the statement; same "
             "multiset for all five; maxlevel <= 0 yields nothing. Tie: every shape <= 4 nodes x all stop subsets x all "
             "filter subsets x maxlevel in {None,-1,0..h+2}, plus 5-node shapes and random larger trees.",
        design="6/C06", note="filter_/stop are pure predicates; laziness not modelled.",
        technique="Coq proof by nested tree induction / loop invariant over fuel + exhaustive small-scope correspondence"),
}

NOT_YET = "check not built yet in this round (work in progress; see DESIGN.md section 6 for the plan)"


def main():
    props = [json.loads(l) for l in open(os.path.join(VERIF, "properties.jsonl"))]
    checks, na = [], []
    for p in props:
        pid = p["id"]
        if pid in CHECKS:
            c = CHECKS[pid]
            checks.append({
                "property_id": pid,
                "quick_cmd": "python3 tools/check.py %s --tier quick" % pid,
                "thorough_cmd": "python3 tools/check.py %s --tier thorough" % pid,
                "evidence_file": "evidence/%s.json" % pid,
                "replay_cmd_template": "python3 tools/replay.py {path}",
                "engine": "coq-model-correspondence",
                "level_claimed": {"category": "proof", "text": c["text"], "design_ref": c["design"]},
                "level_note": c["note"] + " " + COMMON_NOTE,
                "technique": c["technique"],
            })
        else:
            na.append({"property_id": pid, "reason": NOT_YET})
    m = {
        "version": 1,
        "setup_cmd": "python3 tools/check.py --setup",
        "hooks": {"guard": "ANYTREE_VERIF", "enable": "no source hooks are needed: the notification hooks and "
                  "adversarial special methods live in harness subclasses (tools/impl); checks run /repo's working "
                  "tree with PYTHONPATH=/repo",
                  "baseline_off_cmd": "cd /repo && /venv/bin/python -m pytest -ra -q -p no:cacheprovider --timeout=900 "
                                      "--continue-on-collection-errors",
                  "source_commits": [], "add_only": True},
        "engines": [{"name": "coq-model-correspondence", "path": "tools/check.py",
                     "serves_properties": sorted(CHECKS),
                     "kind_free_text": "Coq 8.16 development (coq/) with theorems per property + correspondence of the "
                                       "executable model with /repo's implementation evaluated by vm_compute"}],
        "checks": checks,
        "not_applicable": na,
        "notes": "See DESIGN.md. known_findings.json lists genuine defects that are recorded rather than repaired.",
    }
    with open(os.path.join(VERIF, "MANIFEST.json"), "w") as fh:
        json.dump(m, fh, indent=1)
    print("MANIFEST.json: %d checks, %d not yet claimed" % (len(checks), len(na)))


if __name__ == "__main__":
    main()
